"""C09 - copies are complete and independent; operators are pure (DESIGN.md C09).

  P1  completeness: every field of the class (slots / attrs fields / __init__ stores) reaches the result of copy(),
      except an allow-list with reasons (id: freshly allocated; map/vmf: shared parent by design).  Objects rebuilt field by
      field inside a copy (DispVertex inside Side.copy) are checked the same way against their own field list.
  P2  no aliasing: a field whose declared type is mutable (Vec, Angle, Matrix, list, dict, set, Array, UVAxis,
      DispVertex, FixupValue, ...) reaches the result only through a copying expression - .copy(), a comprehension of
      copies, list()/set()/dict() of immutables, or a constructor parameter that __init__/the attrs converter is known
      to copy.  Method calls on a field (self._fixup.copy_values()) are summarised from the callee's return expression.
  P3  pure operators: the non in-place operators of Keyvalues and of the vector/angle/matrix classes contain no
      construct mutating self or the other operand.
  P4  Keyvalues.copy recurses through child.copy() for every child (deep copy), and the `+`/extend/+= paths add copies.
"""
from __future__ import annotations

import ast
import re
from typing import Any, Dict, List, Optional, Sequence, Set, Tuple

from engine.srcmatch import U
from engine.effects import mutations
from engine.model import AnalysisError, Module, Program, class_fields, decorators, dotted, mro, resolve_method, walk_no_nested
from rules.c05 import all_methods

LEVEL = 'other'

MUT_WORDS = {'Vec', 'Angle', 'Matrix', 'list', 'dict', 'set', 'Array', 'UVAxis', 'DispVertex', 'FixupValue', 'EntityFixup', 'Solid',
             'Side', 'Output', 'VisGroup', 'Keyvalues', 'Entity', 'MutableMapping', '_KeyDict', 'List', 'Dict', 'Set', 'EntityGroup'}
CONTAINER_WORDS = {'list', 'dict', 'set', 'List', 'Dict', 'Set', 'Array', 'MutableMapping', '_KeyDict'}
SHARED_OK = {'map': 'parent VMF reference is shared by design', 'vmf': 'parent VMF reference is shared by design',
             'id': 'a fresh id is allocated for the copy (C08)'}
DERIVED_FIELDS = {('Keyvalues', '_folded_name'): '_real_name'}      # the real_name setter / __init__ compute the folded name from the name
COPYING_CTORS = {'Vec', 'list', 'set', 'dict', 'frozenset', 'tuple', 'Angle', 'Matrix', 'Py_Vec'}

COPIES = [
    ('vmf', 'Entity', 'copy', {'_fixup': None, 'logical_pos': None}),
    ('vmf', 'Solid', 'copy', {}),
    ('vmf', 'Side', 'copy', {}),
    ('vmf', 'Output', 'copy', {}),
    ('vmf', 'VisGroup', 'copy', {}),
    ('vmf', 'EntityGroup', 'copy', {}),
    ('vmf', 'Camera', 'copy', {}),
    ('vmf', 'Cordon', 'copy', {}),
    ('vmf', 'UVAxis', 'copy', {}),
    ('keyvalues', 'Keyvalues', 'copy', {}),
    ('vmf', 'EntityFixup', '__copy__', {'_matcher': 'a compiled pattern derived from the keys: immutable, rebuilt on demand'}),
    ('vmf', 'EntityFixup', '__deepcopy__', {'_matcher': 'a compiled pattern derived from the keys: immutable, rebuilt on demand'}),
]


def ann_tokens(ann: str) -> Set[str]:
    return set(re.findall(r'[A-Za-z_]\w*', ann))


def is_mutable_ann(ann: Optional[str]) -> bool:
    if not ann:
        return False
    return bool(ann_tokens(ann) & MUT_WORDS)


def elements_mutable(ann: Optional[str]) -> bool:
    """container whose *elements* are mutable objects (list[Vec], dict[str, FixupValue])"""
    if not ann:
        return False
    toks = ann_tokens(ann)
    inner = toks & (MUT_WORDS - CONTAINER_WORDS)
    return bool(toks & CONTAINER_WORDS) and bool(inner)


def field_types(mod: Module, clsname: str) -> Dict[str, str]:
    out: Dict[str, str] = {}
    c = mod.cls(clsname)
    for st in c.body:
        if isinstance(st, ast.AnnAssign) and isinstance(st.target, ast.Name):
            out[st.target.id] = U(st.annotation)
    ms = mod.methods(clsname)
    if '__init__' in ms:
        init = ms['__init__']
        pann = {a.arg: U(a.annotation) for a in init.args.args + init.args.kwonlyargs if a.annotation is not None}
        for n in ast.walk(init):
            if isinstance(n, ast.AnnAssign) and isinstance(n.target, ast.Attribute) and dotted(n.target.value) == 'self':
                out[n.target.attr] = U(n.annotation)
            elif isinstance(n, ast.Assign) and isinstance(n.value, ast.Name) and n.value.id in pann:
                for t in n.targets:
                    if isinstance(t, ast.Attribute) and dotted(t.value) == 'self' and t.attr not in out:
                        out[t.attr] = pann[n.value.id]
    return out


def is_attrs(mod: Module, clsname: str) -> bool:
    return any(d.startswith('attrs.') or d in ('define', 'frozen', 'attr.s') for d in decorators(mod.cls(clsname)))


def attrs_fields(mod: Module, clsname: str) -> List[Tuple[str, Optional[str]]]:
    """(field name, converter name or None) in declaration order"""
    out = []
    for st in mod.cls(clsname).body:
        if isinstance(st, ast.AnnAssign) and isinstance(st.target, ast.Name) and 'ClassVar' not in U(st.annotation):
            conv = None
            if isinstance(st.value, ast.Call) and (dotted(st.value.func) or '').endswith('field'):
                for k in st.value.keywords:
                    if k.arg == 'converter':
                        conv = U(k.value)
            out.append((st.target.id, conv))
    return out


def converter_kind(mod: Module, conv: str) -> str:
    """'copying' if the attrs converter always builds a new container from its argument, 'direct' if some path hands the argument back
    unchanged (the field then aliases whatever the caller passed), 'derived' otherwise.  Module-level aliases (`_conv = set`, also in the
    run-time arm of `if TYPE_CHECKING: ... else: ...`) and small functions are resolved; nothing is assumed from the name."""
    if conv in COPYING_CTORS:
        return 'copying'
    runtime_defs: List[ast.AST] = []

    def scan(stmts: Sequence[ast.stmt]) -> None:
        for st in stmts:
            if isinstance(st, ast.If) and 'TYPE_CHECKING' in U(st.test):
                scan(st.orelse if U(st.test) == 'TYPE_CHECKING' else st.body)     # the arm that runs
                if not st.orelse and U(st.test) == 'TYPE_CHECKING':
                    continue
            elif isinstance(st, ast.FunctionDef) and st.name == conv:
                runtime_defs.append(st)
            elif isinstance(st, ast.Assign) and any(isinstance(t, ast.Name) and t.id == conv for t in st.targets):
                runtime_defs.append(st.value)
    scan(mod.tree.body)
    if not runtime_defs:
        return 'derived'
    d = runtime_defs[-1]
    if isinstance(d, ast.Name):
        return 'copying' if d.id in COPYING_CTORS else 'derived'
    if isinstance(d, ast.FunctionDef):
        params = {a.arg for a in d.args.args}
        rets = [r.value for r in ast.walk(d) if isinstance(r, ast.Return) and r.value is not None]
        if any(isinstance(r, ast.Name) and r.id in params for r in rets):
            return 'direct'
        if rets and all(isinstance(r, ast.Call) and (dotted(r.func) or '').split('.')[-1] in COPYING_CTORS for r in rets):
            return 'copying'
    return 'derived'


def init_param_stores(mod: Module, clsname: str) -> Tuple[List[str], Dict[str, List[Tuple[str, str]]]]:
    """(positional parameter names, param -> [(field, how)]) where how in {'direct', 'copying', 'derived'}."""
    if is_attrs(mod, clsname):
        flds = attrs_fields(mod, clsname)
        stores = {}
        for f, conv in flds:
            how = 'direct'
            if conv is not None:
                how = converter_kind(mod, conv)
            stores[f] = [(f, how)]
        return [f for f, _ in flds], stores
    init = mod.methods(clsname).get('__init__')
    if init is None:
        raise AnalysisError(f'{clsname} has no __init__ and is not an attrs class')
    params = [a.arg for a in init.args.args[1:]] + [a.arg for a in init.args.kwonlyargs]
    stores: Dict[str, List[Tuple[str, str]]] = {p: [] for p in params}
    derived: Dict[str, Set[str]] = {}
    for n in walk_no_nested(init):
        if isinstance(n, ast.Assign) and len(n.targets) == 1 and isinstance(n.targets[0], ast.Name):
            src = {x.id for x in ast.walk(n.value) if isinstance(x, ast.Name) and x.id in stores}
            if src:
                derived.setdefault(n.targets[0].id, set()).update(src)
    for n in walk_no_nested(init):
        if isinstance(n, (ast.Assign, ast.AnnAssign)):
            tgts = n.targets if isinstance(n, ast.Assign) else [n.target]
            val = n.value
            if val is None:
                continue
            for t in tgts:
                if isinstance(t, ast.Attribute) and dotted(t.value) == 'self':
                    used = [x.id for x in ast.walk(val) if isinstance(x, ast.Name) and x.id in stores]
                    for x in ast.walk(val):
                        if isinstance(x, ast.Name) and x.id in derived:
                            for p2 in derived[x.id]:
                                stores[p2].append((t.attr, 'derived'))
                    for p in used:
                        if isinstance(val, ast.Name):
                            how = 'direct'
                        elif isinstance(val, ast.BoolOp) and any(isinstance(v, ast.Name) and v.id == p for v in val.values):
                            how = 'direct'
                        elif isinstance(val, ast.Call) and (dotted(val.func) or '').split('.')[-1] in COPYING_CTORS:
                            how = 'copying'
                        else:
                            how = 'derived'
                        stores[p].append((t.attr, how))
    # `for k, v in keys.items(): self[k] = v` style copying of a mapping parameter
    for n in walk_no_nested(init):
        if isinstance(n, ast.For):
            src = [x.id for x in ast.walk(n.iter) if isinstance(x, ast.Name) and x.id in stores]
            for p in src:
                if any(isinstance(s, ast.Assign) and isinstance(s.targets[0], ast.Subscript) and dotted(s.targets[0].value) == 'self' for s in ast.walk(n)):
                    stores[p].append(('_keys', 'copying'))
    pos = [a.arg for a in init.args.args[1:]]
    return pos, stores


class CopyAnalysis:
    def __init__(self, ctx: Any, prog: Program, mod: Module, clsname: str, fn: ast.AST, extra_ok: Dict[str, Any]) -> None:
        self.ctx, self.prog, self.mod, self.cls, self.fn, self.extra_ok = ctx, prog, mod, clsname, fn, extra_ok
        self.types = field_types(mod, clsname)
        self.local_defs: Dict[str, List[ast.AST]] = {}
        for n in walk_no_nested(fn):
            if isinstance(n, ast.Assign):
                for t in n.targets:
                    if isinstance(t, ast.Name):
                        self.local_defs.setdefault(t.id, []).append(n.value)
            elif isinstance(n, ast.AnnAssign) and n.value is not None and isinstance(n.target, ast.Name):
                self.local_defs.setdefault(n.target.id, []).append(n.value)
        # a local container filled in a loop (`out = []` ... `out.append(X)`): what is put into it, and what a loop variable ranges over
        self.local_feeds: Dict[str, List[ast.AST]] = {}
        self.loop_iters: Dict[str, List[ast.AST]] = {}
        for n in walk_no_nested(fn):
            if isinstance(n, ast.Call) and isinstance(n.func, ast.Attribute) and n.func.attr in ('append', 'add', 'extend', 'insert', 'update') and isinstance(n.func.value, ast.Name) and n.args:
                self.local_feeds.setdefault(n.func.value.id, []).append(n.args[-1])
            if isinstance(n, ast.Assign) and len(n.targets) == 1 and isinstance(n.targets[0], ast.Subscript) and isinstance(n.targets[0].value, ast.Name):
                self.local_feeds.setdefault(n.targets[0].value.id, []).append(n.value)
            if isinstance(n, ast.For):
                for t in ast.walk(n.target):
                    if isinstance(t, ast.Name):
                        self.loop_iters.setdefault(t.id, []).append(n.iter)

    # -- freshness of an expression w.r.t. fields of `self` ---------------------------------------------
    def copy_status(self, e: ast.AST, elem_mutable: bool, depth: int = 0, selfname: str = 'self') -> Tuple[str, str]:
        """('fresh'|'alias'|'shallow'|'immutable-ok'|'unknown', explanation)"""
        if depth > 6:
            return 'unknown', 'too deep'
        if isinstance(e, ast.Constant):
            return 'fresh', 'constant'
        if isinstance(e, (ast.Tuple, ast.List, ast.Set)):
            for el in e.elts:
                st, why = self.copy_status(el, elem_mutable, depth + 1, selfname)
                if st != 'fresh':
                    return st, why
            return 'fresh', 'literal container'
        if isinstance(e, ast.IfExp):
            a, wa = self.copy_status(e.body, elem_mutable, depth + 1, selfname)
            b, wb = self.copy_status(e.orelse, elem_mutable, depth + 1, selfname)
            for bad in ('alias', 'shallow', 'unknown'):
                if a == bad:
                    return a, wa
                if b == bad:
                    return b, wb
            return 'fresh', 'both alternatives fresh'
        if isinstance(e, ast.BoolOp):
            res = [self.copy_status(v, elem_mutable, depth + 1, selfname) for v in e.values]
            for st, why in res:
                if st in ('alias', 'shallow', 'unknown'):
                    return st, why
            return 'fresh', 'all alternatives fresh'
        if isinstance(e, ast.Name):
            if e.id in self.local_defs:
                res = [self.copy_status(v, elem_mutable, depth + 1, selfname) for v in self.local_defs[e.id]]
                for st, why in res:
                    if st != 'fresh':
                        return st, why
                # a container built empty and filled element by element: every element put in has to be fresh as well
                if elem_mutable:
                    for fed in self.local_feeds.get(e.id, []):
                        st, why = self.copy_status(fed, False, depth + 1, selfname)
                        if st not in ('fresh', 'immutable-ok'):
                            return 'shallow', f'`{U(fed)[:40]}` is put into `{e.id}`: {why}'
                return 'fresh', f'local {e.id} fresh'
            if e.id in self.loop_iters:
                # an element of what the loop walks: the source's own object when that is a field of the source
                if any((dotted(it) or '').startswith(selfname + '.') or any(isinstance(x, ast.Attribute) and dotted(x.value) == selfname for x in ast.walk(it)) for it in self.loop_iters[e.id]):
                    return 'alias', f'`{e.id}` is an element of the source object\'s own container'
            return 'unknown', f'name {e.id}'
        if isinstance(e, ast.Attribute):
            if dotted(e.value) == selfname:
                return 'alias', f'the source object\'s `{e.attr}` itself'
            return 'unknown', U(e)
        if isinstance(e, (ast.ListComp, ast.SetComp, ast.GeneratorExp, ast.DictComp)):
            elt = e.value if isinstance(e, ast.DictComp) else e.elt
            if not elem_mutable:
                return 'fresh', 'new container of immutables'
            if isinstance(elt, ast.Call):
                f = elt.func
                if isinstance(f, ast.Attribute) and f.attr == 'copy':
                    return 'fresh', 'comprehension of copies'
                if isinstance(f, ast.Name) and f.id[:1].isupper():
                    return 'fresh', f'comprehension constructing {f.id}'
                if dotted(f) in ('attrs.evolve', 'attr.evolve', 'evolve', 'dataclasses.replace'):
                    return 'fresh', 'comprehension of evolve() copies (carried-over fields are checked per field)'
                # a module-level helper that does nothing but construct (or copy) one object per call: `def _copy_vert(v): return Vert(...)`
                hq_ = f.id if isinstance(f, ast.Name) else (f'{self.cls}.{f.attr}' if isinstance(f, ast.Attribute) and dotted(f.value) in (selfname, 'cls', self.cls) else None)
                if hq_ is not None and self.mod.has_func(hq_):
                    hrets = [r.value for r in walk_no_nested(self.mod.func(hq_)) if isinstance(r, ast.Return)]
                    if hrets and all(isinstance(r, ast.Call) and ((isinstance(r.func, ast.Name) and r.func.id[:1].isupper()) or (isinstance(r.func, ast.Attribute) and r.func.attr == 'copy')) for r in hrets):
                        return 'fresh', f'comprehension of objects constructed by {hq_}()'
            return 'shallow', f'new container but its elements `{U(elt)}` are the source\'s own mutable objects'
        if isinstance(e, ast.Call):
            f = e.func
            d = dotted(f) or ''
            short = f.attr if isinstance(f, ast.Attribute) else d
            if isinstance(f, ast.Attribute) and f.attr in ('copy', '__copy__', '__deepcopy__'):
                if isinstance(f.value, ast.Attribute) and dotted(f.value.value) == selfname and elements_mutable(self.types.get(f.value.attr)) \
                        and ann_tokens(self.types.get(f.value.attr, '')) & CONTAINER_WORDS:
                    return 'shallow', f'{U(f.value)}.copy() copies the container but not its mutable elements'
                return 'fresh', '.copy()'
            if isinstance(f, ast.Attribute) and f.attr in ('values', 'items', 'keys') and not e.args and (dotted(f.value) or '').startswith(selfname + '.'):
                # a view of one of the source's own tables: iterating it yields the source's objects themselves
                if elem_mutable or f.attr != 'keys':
                    return 'shallow', f'`{U(e)}` is a view of the source\'s table: whatever is built from it holds the source\'s own (mutable) entries'
                return 'fresh', 'keys of a source table (immutable)'
            if short in COPYING_CTORS and isinstance(f, ast.Name):
                if elem_mutable and short in ('list', 'set', 'dict', 'tuple', 'frozenset'):
                    return 'shallow', f'{short}(...) copies the container but not its mutable elements'
                return 'fresh', f'{short}(...) constructs a new object'
            if isinstance(f, ast.Name) and f.id[:1].isupper():
                return 'fresh', f'{f.id}(...) constructs a new object'
            # a method of the object itself (`return self.__getstate__()`): what that method returns
            if isinstance(f, ast.Attribute) and dotted(f.value) == selfname and depth < 3:
                r0 = resolve_method(self.mod, self.cls, f.attr)
                if r0 is not None:
                    rets0 = [x for x in walk_no_nested(r0[1]) if isinstance(x, ast.Return) and x.value is not None]
                    for rt in rets0:
                        em0 = any(elements_mutable(self.types.get(a.attr)) for a in ast.walk(rt.value) if isinstance(a, ast.Attribute) and dotted(a.value) == 'self')
                        st, why = self.copy_status(rt.value, em0 or elem_mutable, depth + 1)
                        if st != 'fresh':
                            return st, f'{self.cls}.{f.attr}() returns {U(rt.value)}: {why}'
                    if rets0:
                        return 'fresh', f'{self.cls}.{f.attr}() builds new objects'
            # method call on a field of self: summarise the callee
            if isinstance(f, ast.Attribute) and isinstance(f.value, ast.Attribute) and dotted(f.value.value) == selfname:
                fld = f.value.attr
                ann = self.types.get(fld, '')
                for tok in ann_tokens(ann):
                    if self.mod.has_class(tok):
                        r = resolve_method(self.mod, tok, f.attr)
                        if r is not None:
                            sub = CopyAnalysis(self.ctx, self.prog, self.mod, tok, r[1], {})
                            rets = [x for x in walk_no_nested(r[1]) if isinstance(x, ast.Return) and x.value is not None]
                            if not rets:
                                return 'unknown', f'{tok}.{f.attr} has no return'
                            for rt in rets:
                                # element mutability from the callee class's field annotations
                                em = any(elements_mutable(sub.types.get(a.attr)) for a in ast.walk(rt.value)
                                         if isinstance(a, ast.Attribute) and dotted(a.value) == 'self')
                                st, why = sub.copy_status(rt.value, em or elem_mutable, depth + 1)
                                if st != 'fresh':
                                    return st, f'{tok}.{f.attr}() returns {U(rt.value)}: {why}'
                            return 'fresh', f'{tok}.{f.attr}() builds new objects'
                return 'unknown', f'method {f.attr} on field {fld} of unknown class'
            return 'unknown', U(e)[:60]
        return 'unknown', U(e)[:60]

    def fields_read(self, e: ast.AST, selfname: str = 'self') -> Set[str]:
        out = set()
        for a in ast.walk(e):
            if isinstance(a, ast.Attribute) and dotted(a.value) == selfname:
                out.add(a.attr)
            if isinstance(a, ast.Name) and a.id in self.local_defs:
                for v in self.local_defs[a.id]:
                    for b in ast.walk(v):
                        if isinstance(b, ast.Attribute) and dotted(b.value) == selfname:
                            out.add(b.attr)
        # locals filled in a loop, and loop variables: what flows into them (two levels)
        seen: Set[str] = set()
        todo = [a.id for a in ast.walk(e) if isinstance(a, ast.Name)]
        depth = 0
        while todo and depth < 40:
            depth += 1
            nm = todo.pop()
            if nm in seen:
                continue
            seen.add(nm)
            for src in self.local_feeds.get(nm, []) + self.loop_iters.get(nm, []) + self.local_defs.get(nm, []):
                for b in ast.walk(src):
                    if isinstance(b, ast.Attribute) and dotted(b.value) == selfname:
                        out.add(b.attr)
                    if isinstance(b, ast.Name):
                        todo.append(b.id)
        return out


def _anc09(mod: Any, n: ast.AST, stop: Any) -> List[ast.AST]:
    out = []
    p = mod.parents.get(n)
    while p is not None and p is not stop:
        out.append(p)
        p = mod.parents.get(p)
    return out


def analyse_copy(ctx: Any, prog: Program, modname: str, clsname: str, meth: str, extra_ok: Dict[str, Any]) -> None:
    mod = prog.module(modname)
    fn = mod.func(f'{clsname}.{meth}')
    ca = CopyAnalysis(ctx, prog, mod, clsname, fn, extra_ok)
    fields = class_fields(mod, clsname)
    types = ca.types
    qual = f'{clsname}.{meth}'
    # locate the constructed result
    rets = [n for n in walk_no_nested(fn) if isinstance(n, ast.Return) and n.value is not None]
    if not rets:
        raise AnalysisError(f'{qual}: no return')
    ctor_call: Optional[ast.Call] = None
    resname: Optional[str] = None
    rv = rets[-1].value
    if isinstance(rv, ast.Call):
        ctor_call = rv
    elif isinstance(rv, ast.Name):
        resname = rv.id
        defs = ca.local_defs.get(resname, [])
        if len(defs) != 1 or not isinstance(defs[0], ast.Call):
            raise AnalysisError(f'{qual}: result variable {resname} is not bound to a single constructor call')
        ctor_call = defs[0]
    else:
        raise AnalysisError(f'{qual}: unrecognised return shape')
    flows: Dict[str, List[Tuple[ast.AST, str]]] = {}       # field -> [(source expr, how stored)]
    cname = dotted(ctor_call.func) or ''
    if cname.endswith('__new__'):
        pass    # fields are then assigned one by one
    else:
        target_cls = cname.split('.')[-1]
        if target_cls != clsname:
            raise AnalysisError(f'{qual}: constructs {target_cls}, expected {clsname}')
        pos, stores = init_param_stores(mod, clsname)
        bound: Dict[str, ast.AST] = {}
        for i, a in enumerate(ctor_call.args):
            if isinstance(a, ast.Starred) or i >= len(pos):
                raise AnalysisError(f'{qual}: cannot map positional constructor arguments')
            bound[pos[i]] = a
        for k in ctor_call.keywords:
            if k.arg is None:
                raise AnalysisError(f'{qual}: **kwargs in constructor call')
            bound[k.arg] = k.value
        for p, expr in bound.items():
            if p not in stores:
                raise AnalysisError(f'{qual}: constructor parameter {p} not found in {clsname}.__init__')
            for fld, how in stores[p]:
                flows.setdefault(fld, []).append((expr, how))
    if resname is not None:
        for n in walk_no_nested(fn):
            if isinstance(n, ast.Assign):
                for t in n.targets:
                    if isinstance(t, ast.Attribute) and dotted(t.value) == resname:
                        flows.setdefault(t.attr, []).append((n.value, 'direct'))
            # a container field of the result filled element by element: `new.children.append(child.copy(..))` in a loop over self.children
            if isinstance(n, ast.Call) and isinstance(n.func, ast.Attribute) and n.func.attr in ('append', 'add', 'extend', 'insert', 'update') and isinstance(n.func.value, ast.Attribute) \
                    and dotted(n.func.value.value) == resname and n.args:
                # (fields_read follows the loop variable to what it ranges over)
                flows.setdefault(n.func.value.attr, []).append((n.args[-1], 'direct'))
    # ---- P1 ----------------------------------------------------------------------------------------
    for f in fields:
        if f in SHARED_OK:
            continue
        srcs = flows.get(f, [])
        reads = set()
        for e, _ in srcs:
            reads |= ca.fields_read(e)
        ok = f in reads or (f in extra_ok and bool(srcs) and any(ca.fields_read(e) for e, _ in srcs))
        # a field the constructor derives from another one (`_folded_name` from the name): carried when it is computed from that field
        if not ok and (clsname, f) in DERIVED_FIELDS and DERIVED_FIELDS[(clsname, f)] in reads:
            ok = True
        # a field may legitimately be fed from a *property/alias* of itself (Entity._fixup via self._fixup...)
        ctx.check('C09.P1', ok, mod, fn, f'field `{f}` of {clsname} does not reach the copy ' +
                  (f'(it is set from `{U(srcs[0][0])[:50]}` which never reads self.{f})' if srcs else '(never passed to the constructor nor assigned on the result)'),
                  func=qual, text=f'{clsname}.{f} copied')
    # P1 (conditional carry-over): `self.f if <test> else <default>` carries the field only sometimes.  That is the documented behaviour for a
    # caller's switch (`... if keep_vis else ...`) and for a presence test (`is None`); a test on the field's own *value* silently replaces
    # some legitimate values by the constructor default
    params_ = {a.arg for a in fn.args.args + fn.args.kwonlyargs}            # type: ignore[attr-defined]
    for f, srcs in flows.items():
        if f in SHARED_OK:
            continue            # the id and the parent map are the documented differences of a copy
        for e, _ in srcs:
            exprs_ = [e] + ([v for v in ca.local_defs.get(e.id, [])] if isinstance(e, ast.Name) else [])
            for ex_ in exprs_:
                for ie in [x for x in ast.walk(ex_) if isinstance(x, ast.IfExp)]:
                    arms_read = [f in ca.fields_read(ie.body), f in ca.fields_read(ie.orelse)]
                    if arms_read.count(True) != 1:
                        continue
                    t_ = ie.test
                    if isinstance(t_, ast.UnaryOp) and isinstance(t_.op, ast.Not):
                        t_ = t_.operand
                    switch = isinstance(t_, ast.Name) and t_.id in params_
                    presence = isinstance(t_, ast.Compare) and len(t_.ops) == 1 and isinstance(t_.ops[0], (ast.Is, ast.IsNot)) and isinstance(t_.comparators[0], ast.Constant) and t_.comparators[0].value is None
                    on_value = any(isinstance(x, ast.Attribute) and dotted(x.value) == 'self' and x.attr == f for x in ast.walk(ie.test)) and not presence
                    if switch or presence:
                        continue
                    # the destination map is no switch: "within one map and across maps" the copy exports like the original.  A condition
                    # (directly, through a local, or as one conjunct) on the parameter naming the destination drops the field across maps
                    dest_params_ = {x.id for s_, _h in flows.get('map', []) for x in ast.walk(s_) if isinstance(x, ast.Name) and x.id in params_ and x.id not in ('self', 'cls')} | ({'vmf_file'} & params_)
                    seen_t, work_t, on_dest = set(), [ie.test], False
                    while work_t:
                        c_ = work_t.pop()
                        for x in ast.walk(c_):
                            if isinstance(x, ast.Name) and x.id in dest_params_:
                                on_dest = True
                            elif isinstance(x, ast.Name) and x.id not in seen_t and x.id not in params_:
                                seen_t.add(x.id)
                                work_t.extend(ca.local_defs.get(x.id, []))
                    if on_dest and not on_value:
                        ctx.check('C09.P1', False, mod, ie, f'{qual} carries `{f}` over only when `{U(ie.test)[:60]}` is {"false" if arms_read[1] else "true"}, a condition on the destination map '
                                  f'({", ".join(sorted(dest_params_))}): copied into another map the copy gets `{U(ie.orelse if arms_read[0] else ie.body)[:30]}` and its export differs from the original',
                                  func=qual, text=f'{clsname}.{f} carried over unconditionally')
                        continue
                    ctx.shape('C09.P1', on_value, mod, ie, f'{qual}: the condition `{U(ie.test)[:50]}` under which `{f}` is carried over is neither a caller switch, a presence test nor a test on the field itself', func=qual,
                              text=f'{clsname}.{f} carried over unconditionally')
                    if on_value:
                        ctx.check('C09.P1', False, mod, ie, f'{qual} carries `{f}` over only when `{U(ie.test)[:60]}` is {"false" if arms_read[1] else "true"}: for the other values the copy gets '
                                  f'`{U(ie.orelse if arms_read[0] else ie.body)[:30]}` (the constructor then makes up its own) and its export differs from the original', func=qual, text=f'{clsname}.{f} carried over unconditionally')
    # P1 (conditional carry-over, statement form): `if <test on self.f's value>: result.f = copy of self.f` carries the field only for some of
    # its values; apart from the presence test (`is not None`) and the caller's switches the assignment is unconditional
    for st_ in [a for a in walk_no_nested(fn) if isinstance(a, ast.Assign) and any(isinstance(t, ast.Attribute) and isinstance(t.value, ast.Name) and t.value.id not in ('self', 'cls') for t in a.targets)]:
        for t_ in st_.targets:
            if not (isinstance(t_, ast.Attribute) and t_.attr in fields and t_.attr in ca.fields_read(st_.value)):
                continue
            for g_ in [a for a in _anc09(mod, st_, fn) if isinstance(a, ast.If)]:
                other_arm = g_.orelse if any(st_ is y for b in g_.body for y in ast.walk(b)) else g_.body
                if any(isinstance(a2, ast.Assign) and any(isinstance(t2, ast.Attribute) and t2.attr == t_.attr for t2 in a2.targets) for b in other_arm for a2 in ast.walk(b)):
                    continue            # both arms store the field (a dispatch on its type), nothing is left out
                conj_ = g_.test.values if isinstance(g_.test, ast.BoolOp) and isinstance(g_.test.op, ast.And) else [g_.test]
                for cj_ in conj_:
                    reads_f = any(isinstance(x, ast.Attribute) and dotted(x.value) == 'self' and x.attr == t_.attr for x in ast.walk(cj_))
                    presence_ = isinstance(cj_, ast.Compare) and len(cj_.ops) == 1 and isinstance(cj_.ops[0], (ast.Is, ast.IsNot)) and isinstance(cj_.comparators[0], ast.Constant) and cj_.comparators[0].value is None
                    if reads_f and not presence_:
                        ctx.check('C09.P1', False, mod, g_, f'{qual} copies `{t_.attr}` only when `{U(cj_)[:60]}`: for the other values of the field the copy keeps what the constructor made up, and its export differs from the original',
                                  func=qual, text=f'{clsname}.{t_.attr} carried over unconditionally')
    # ---- P2 ----------------------------------------------------------------------------------------
    for f, srcs in flows.items():
        ann = types.get(f)
        if not is_mutable_ann(ann):
            continue
        if f in SHARED_OK:
            continue
        for e, how in srcs:
            if how == 'copying' and not elements_mutable(ann):
                ctx.check('C09.P2', True, mod, fn, f'{f}: constructor copies the argument', func=qual, text=f'{clsname}.{f} <- {U(e)[:50]}')
                continue
            st, why = ca.copy_status(e, elements_mutable(ann))
            if how == 'copying' and st == 'alias':
                # container copied by __init__, elements are mutable: aliasing of elements
                st, why = 'shallow', f'{clsname}.__init__ copies the container `{U(e)}` but its elements are mutable objects'
            if st == 'unknown':
                raise AnalysisError(f'{qual}: cannot classify how `{U(e)[:60]}` ({why}) reaches field {f}')
            ok = st == 'fresh'
            ctx.check('C09.P2', ok, mod, fn, f'mutable field `{f}` ({ann}) of the copy is {("the same object as " if st == "alias" else "only shallowly copied: ")}{why}; '
                      'mutating one side is visible through the other', func=qual, text=f'{clsname}.{f} <- {U(e)[:50]}')
    # evolve()-style rebuilds: named fields replaced, every other field carried over *by reference*
    for n in ast.walk(fn):
        if isinstance(n, ast.ListComp) and isinstance(n.elt, ast.Call) and dotted(n.elt.func) in ('attrs.evolve', 'attr.evolve', 'evolve', 'dataclasses.replace') \
                and n.elt.args and isinstance(n.generators[0].target, ast.Name) and dotted(n.elt.args[0]) == n.generators[0].target.id:
            var = n.generators[0].target.id
            src_ann = None
            it = n.generators[0].iter
            if isinstance(it, ast.Attribute) and dotted(it.value) == 'self':
                src_ann = types.get(it.attr)
            sub = next((t for t in ann_tokens(src_ann or '') if mod.has_class(t)), None)
            if sub is None or not is_attrs(mod, sub):
                raise AnalysisError(f'{qual}: cannot determine the class rebuilt by evolve() over `{U(it)}`')
            stypes = field_types(mod, sub)
            changed = {k.arg: k.value for k in n.elt.keywords if k.arg}
            for sf, _ in attrs_fields(mod, sub):
                if sf in changed:
                    e = changed[sf]
                    if is_mutable_ann(stypes.get(sf)):
                        sca = CopyAnalysis(ctx, prog, mod, sub, fn, {})
                        st, why = sca.copy_status(e, elements_mutable(stypes.get(sf)), selfname=var)
                        if st == 'unknown':
                            raise AnalysisError(f'{qual}: cannot classify `{U(e)}` for {sub}.{sf}')
                        ctx.check('C09.P2', st == 'fresh', mod, n.elt, f'{sub}.{sf} of the rebuilt object aliases the source: {why}', func=qual, text=f'{sub}.{sf} <- {U(e)[:40]}')
                    ctx.check('C09.P1', True, mod, n.elt, 'replaced explicitly', func=qual, text=f'{sub}.{sf} copied')
                else:
                    ctx.check('C09.P1', True, mod, n.elt, 'carried over by evolve()', func=qual, text=f'{sub}.{sf} copied')
                    if is_mutable_ann(stypes.get(sf)):
                        ctx.check('C09.P2', False, mod, n.elt, f'{sub}.{sf} ({stypes.get(sf)}) is carried over by evolve() *by reference*: the copy and the source share that mutable object',
                                  func=qual, text=f'{sub}.{sf} <- evolve carry-over')
    # nested field-by-field rebuilds inside comprehensions (DispVertex in Side.copy)
    for n in ast.walk(fn):
        if isinstance(n, ast.ListComp) and isinstance(n.elt, ast.Call) and isinstance(n.elt.func, ast.Name) and mod.has_class(n.elt.func.id) \
                and n.elt.func.id != clsname and isinstance(n.generators[0].target, ast.Name):
            sub = n.elt.func.id
            var = n.generators[0].target.id
            if not is_attrs(mod, sub):
                continue
            sflds = [f for f, _ in attrs_fields(mod, sub)]
            stypes = field_types(mod, sub)
            got: Dict[str, ast.AST] = {}
            for i, a in enumerate(n.elt.args):
                if i < len(sflds):
                    got[sflds[i]] = a
            for k in n.elt.keywords:
                if k.arg:
                    got[k.arg] = k.value
            for sf in sflds:
                e = got.get(sf)
                reads = {a.attr for a in ast.walk(e) if isinstance(a, ast.Attribute) and dotted(a.value) == var} if e is not None else set()
                ctx.check('C09.P1', sf in reads, mod, n.elt, f'{sub}.{sf} is not carried over when {qual} rebuilds each {sub} (left at its default)', func=qual,
                          text=f'{sub}.{sf} copied')
                if e is not None and is_mutable_ann(stypes.get(sf)):
                    sca = CopyAnalysis(ctx, prog, mod, sub, fn, {})
                    st, why = sca.copy_status(e, elements_mutable(stypes.get(sf)), selfname=var)
                    if st == 'unknown':
                        raise AnalysisError(f'{qual}: cannot classify `{U(e)}` for {sub}.{sf}')
                    ctx.check('C09.P2', st == 'fresh', mod, n.elt, f'{sub}.{sf} of the rebuilt vertex aliases the source: {why}', func=qual, text=f'{sub}.{sf} <- {U(e)[:40]}')


def p4_shared_child_list(ctx: Any, kv: Any) -> None:
    """Keyvalues.copy and the helpers it calls: when a node's `_value` is first taken over from the source (`new._value = old._value`)
    and only replaced by a freshly built list under a condition, that condition must be implied by "the value is a list".  A
    conjunct testing the truth / length of the list leaves the *empty* list shared between the copy and the original."""
    ms = kv.methods('Keyvalues')
    fns = [ms['copy']]
    for c in ast.walk(ms['copy']):
        if isinstance(c, ast.Call) and isinstance(c.func, ast.Attribute) and c.func.attr in ms and c.func.attr != 'copy' and ms[c.func.attr] not in fns:
            fns.append(ms[c.func.attr])
    alias = [n for f in fns for n in ast.walk(f) if isinstance(n, ast.Assign) and isinstance(n.targets[0], ast.Attribute) and n.targets[0].attr == '_value'
             and isinstance(n.value, ast.Attribute) and n.value.attr == '_value' and dotted(n.value.value) != dotted(n.targets[0].value)]
    # an alias assignment that sits in the else-branch of an isinstance(list) test only carries non-list values: not a sharing site
    def under_list_else(n: ast.AST) -> bool:
        p = kv.parents.get(n)
        while p is not None and not isinstance(p, ast.FunctionDef):
            if isinstance(p, ast.If) and 'isinstance' in U(p.test) and 'list' in U(p.test) and any(n is x or any(n is y for y in ast.walk(x)) for x in p.orelse):
                return True
            p = kv.parents.get(p)
        return False
    alias = [n for n in alias if not under_list_else(n)]
    if not alias:
        return
    for f in fns:
        for n in ast.walk(f):
            if not isinstance(n, ast.If):
                continue
            replaces = [st for st in n.body for x in ast.walk(st) if isinstance(x, ast.Assign) and any(isinstance(t, ast.Attribute) and t.attr == '_value' for t in x.targets) and isinstance(x.value, (ast.ListComp, ast.List, ast.Call))]
            if not replaces or not isinstance(n.test, ast.BoolOp) or not isinstance(n.test.op, ast.And):
                continue
            weak = [v for v in n.test.values if (isinstance(v, ast.Attribute) and v.attr == '_value') or (isinstance(v, ast.Call) and dotted(v.func) == 'len') or (isinstance(v, ast.Compare) and 'len(' in U(v))]
            if weak and any('isinstance' in U(v) for v in n.test.values):
                ctx.check('C09.P4', False, kv, n, f'`{U(alias[0])}` lets the copy start with the source\'s child list, and it is only replaced when `{U(n.test)}`: an *empty* block keeps the very same list object '
                          'in the copy and the original, so children added to one appear in the other', func='Keyvalues.copy', text='child list replaced for every block (also empty ones)')


def run(ctx: Any, prog: Program) -> None:
    vm = prog.module('vmf')
    kv = prog.module('keyvalues')
    mt = prog.module('math')
    ctx.not_decided += ['export equality of copy and original (value level)', 'pickling', 'copy.copy()/deepcopy() of classes without explicit hooks']
    ctx.rule('C09.P1', 'every field of a copied class reaches the copy (allow-list: id, map/vmf)', floor=60)
    ctx.rule('C09.P2', 'mutable fields reach the copy only through copying expressions', floor=20)
    ctx.rule('C09.P3', 'non in-place operators do not mutate their operands', floor=15)
    ctx.rule('C09.P4', 'Keyvalues.copy is deep; +, += and extend add copies of the other side\'s children', floor=4)
    p4_shared_child_list(ctx, kv)

    for modname, clsname, meth, extra in COPIES:
        analyse_copy(ctx, prog, modname, clsname, meth, extra)
    # ---- P6: copy() carries a field under no more conditions than export() writes it ------------------------------------------------------
    # Sibling agreement: both walk the whole object.  If export() writes `strata_points` whenever it is present, but copy() only reaches the
    # statement that carries it when the face is also a displacement (an early `return` for ordinary faces placed above it), the copy of an
    # ordinary face loses the field.  Conditions are compared by the fields they look at (properties expanded to the fields they read).
    ctx.rule('C09.P6', 'a field that copy() assigns after construction is guarded by no field that export() does not also consult before writing it', floor=4)
    for cls6 in ('Side', 'Solid', 'Entity'):
        meths6 = vm.methods(cls6)
        if 'copy' not in meths6 or 'export' not in meths6:
            continue
        cp6, ex6 = meths6['copy'], meths6['export']
        me_c, me_e = cp6.args.args[0].arg, ex6.args.args[0].arg

        def prop_attrs(a: str, depth: int = 0) -> Set[str]:
            f_ = meths6.get(a)
            if f_ is not None and depth < 3 and any(dotted(d) == 'property' for d in f_.decorator_list):
                body_ = [b for b in f_.body if not (isinstance(b, ast.Expr) and isinstance(b.value, ast.Constant))]
                if len(body_) == 1 and isinstance(body_[0], ast.Return) and body_[0].value is not None:
                    inner = {x.attr for x in ast.walk(body_[0].value) if isinstance(x, ast.Attribute) and isinstance(x.value, ast.Name) and x.value.id == f_.args.args[0].arg}
                    out_: Set[str] = set()
                    for i_ in inner:
                        out_ |= prop_attrs(i_, depth + 1)
                    return out_ or {a}
            return {a}

        def test_attrs(t: ast.AST, me: str) -> Set[str]:
            out_: Set[str] = set()
            for x in ast.walk(t):
                if isinstance(x, ast.Attribute) and isinstance(x.value, ast.Name) and x.value.id == me:
                    out_ |= prop_attrs(x.attr)
            return out_

        def guards_of(node: ast.AST, fn: ast.AST, me: str) -> Set[str]:
            """fields consulted by every test that decides whether `node` runs: enclosing ifs, and earlier `if ...: return` statements"""
            out_: Set[str] = set()
            ch, par = node, vm.parents.get(node)
            while par is not None:
                if isinstance(par, ast.If) and ch is not par.test:
                    out_ |= test_attrs(par.test, me)
                for fld in ('body', 'orelse', 'finalbody'):
                    blk = getattr(par, fld, None)
                    if isinstance(blk, list) and ch in blk:
                        for prev in blk[:blk.index(ch)]:
                            if isinstance(prev, ast.If) and prev.body and isinstance(prev.body[-1], (ast.Return, ast.Raise, ast.Continue, ast.Break)):
                                out_ |= test_attrs(prev.test, me)
                if par is fn:
                    break
                ch, par = par, vm.parents.get(par)
            return out_
        # export side: fields read, with the guards of each read; private helpers of export are followed, their call-site guards added
        ex_guards: Dict[str, Set[str]] = {}
        todo6: List[Tuple[ast.AST, Set[str]]] = [(ex6, set())]
        seen6: Set[str] = set()
        while todo6:
            f6, base6 = todo6.pop()
            me6 = f6.args.args[0].arg
            for x in ast.walk(f6):
                if isinstance(x, ast.Attribute) and isinstance(x.value, ast.Name) and x.value.id == me6 and isinstance(x.ctx, ast.Load):
                    par6 = vm.parents.get(x)
                    if isinstance(par6, ast.Call) and par6.func is x and x.attr in meths6 and x.attr not in seen6:
                        seen6.add(x.attr)
                        todo6.append((meths6[x.attr], base6 | guards_of(par6, f6, me6)))
                    elif x.attr not in meths6 or any(dotted(d) == 'property' for d in meths6[x.attr].decorator_list):
                        for a_ in prop_attrs(x.attr):
                            ex_guards.setdefault(a_, set()).update(base6 | guards_of(x, f6, me6))
        # copy side: stores into the new object after it was built
        news6 = {t.id for a in walk_no_nested(cp6) if isinstance(a, ast.Assign) and isinstance(a.value, ast.Call) for t in a.targets if isinstance(t, ast.Name)}
        # presence tests of fields that are carried in the same way (`if self.is_disp and self.disp_pos is not None: <copy disp_pos, disp_flags>`)
        # say nothing new: a field that is itself carried under a test of its own presence may appear in the guard of its companions
        self_guarded: Set[str] = set()
        for a in walk_no_nested(cp6):
            if isinstance(a, ast.Assign):
                for t in a.targets:
                    if isinstance(t, ast.Attribute) and isinstance(t.value, ast.Name) and t.value.id in news6 and t.attr in guards_of(a, cp6, me_c):
                        self_guarded.add(t.attr)
        for a in walk_no_nested(cp6):
            if not isinstance(a, ast.Assign):
                continue
            for t in a.targets:
                if isinstance(t, ast.Attribute) and isinstance(t.value, ast.Name) and t.value.id in news6:
                    F = t.attr
                    if F not in ex_guards:
                        continue
                    cg = guards_of(a, cp6, me_c)
                    extra = sorted(cg - {F} - ex_guards[F] - self_guarded)
                    ctx.check('C09.P6', not extra, vm, a, f'{cls6}.copy carries `{F}` only when tests on {sorted(cg)} allow it, while {cls6}.export writes it depending on {sorted(ex_guards[F] | {F})} alone: an object for which '
                              f'the test on {extra} fails keeps `{F}` when written but loses it when copied', func=f'{cls6}.copy', text=f'{cls6}.copy: `{F}` carried under the conditions export() writes it')

    # ---- P7: a copy into another map takes its sub-objects along --------------------------------------------------------------------------------
    # copy methods with a destination-map parameter (`vmf` / `vmf_file`) copy their sub-objects with the same parameter.  A nested `.copy(...)`
    # that is handed `self.vmf` / `self.map` (the SOURCE map) instead leaves the children registered with - and numbered by - the map the object
    # came from: the new object is only half in the destination, and the ids of its parts collide with objects already there.
    ctx.rule('C09.P7', 'nested copies receive the destination map parameter, never the source object\'s own map', floor=3)
    MAPP = ('vmf', 'vmf_file', 'map')
    for q7, fl7 in vm.all_funcs().items():
        if not q7.endswith('.copy'):
            continue
        for f7 in fl7:
            dest = [a.arg for a in f7.args.args + f7.args.kwonlyargs if a.arg in MAPP]
            if not dest:
                continue
            me7 = f7.args.args[0].arg
            # locals computed from the destination parameter (`target = self.map if vmf_file is None else vmf_file`)
            derived7: Dict[str, ast.AST] = {}
            for a7 in walk_no_nested(f7):
                if isinstance(a7, ast.Assign) and len(a7.targets) == 1 and isinstance(a7.targets[0], ast.Name) and any(isinstance(x, ast.Name) and x.id in dest for x in ast.walk(a7.value)):
                    derived7[a7.targets[0].id] = a7.value
            for c in walk_no_nested(f7):
                if isinstance(c, ast.Call) and isinstance(c.func, ast.Attribute) and c.func.attr == 'copy' and not (isinstance(c.func.value, ast.Name) and c.func.value.id == me7):
                    passed = list(c.args) + [k.value for k in c.keywords]
                    via_local = [a for a in passed if isinstance(a, ast.Name) and a.id in derived7]
                    if via_local:
                        # whether a map was asked for is information too: a callee that tests its destination parameter against None (Side.copy:
                        # "a map was given, so this is a copy into another map - keep my id") has to be handed the parameter as it came, not a
                        # local in which the default has already been filled in
                        pos7 = next(i for i, a in enumerate(c.args) if a is via_local[0]) if via_local[0] in c.args else None
                        kw7 = next((k.arg for k in c.keywords if k.value is via_local[0]), None)
                        sens = []
                        for q8, fl8 in vm.all_funcs().items():
                            if not q8.endswith('.copy'):
                                continue
                            for f8 in fl8:
                                names8 = [a.arg for a in f8.args.args[1:]]
                                pn8 = names8[pos7] if pos7 is not None and pos7 < len(names8) else kw7
                                if pn8 not in MAPP or (kw7 is not None and kw7 not in names8 + [a.arg for a in f8.args.kwonlyargs]) or len(c.args) > len(names8):
                                    continue
                                tests8 = [t for t in ast.walk(f8) if isinstance(t, ast.Compare) and isinstance(t.left, ast.Name) and t.left.id == pn8 and len(t.ops) == 1 and isinstance(t.ops[0], (ast.Is, ast.IsNot))
                                          and isinstance(t.comparators[0], ast.Constant) and t.comparators[0].value is None]
                                # a test that only fills in the default map (`if vmf is None: vmf = self.vmf`) carries no other meaning
                                other8 = [t for t in tests8 if not (isinstance(vm.parents.get(t), ast.If) and all(isinstance(b, ast.Assign) and dotted(b.targets[0]) == pn8 for b in vm.parents[t].body) and not vm.parents[t].orelse)
                                          and not isinstance(vm.parents.get(t), ast.IfExp)]
                                if other8:
                                    sens.append((q8, other8[0]))
                        defaulted = not (isinstance(derived7[via_local[0].id], ast.Name))
                        ctx.check('C09.P7', not (sens and defaulted), vm, c, f'{q7} hands `{U(c)[:60]}` the local `{via_local[0].id}` = `{U(derived7[via_local[0].id])[:60]}`, in which the default map is already filled in; '
                                  + (f'{sens[0][0]} reads `{U(sens[0][1])}` as "a destination was given" and behaves differently then (a same-map copy is treated like a copy into another map)' if sens else ''),
                                  func=q7, text=f'{q7}: `{U(c)[:50]}` gets the destination map')
                        continue
                    src_map = [a for a in passed if isinstance(a, ast.Attribute) and isinstance(a.value, ast.Name) and a.value.id == me7 and a.attr in MAPP]
                    takes_map = any(isinstance(a, ast.Name) and a.id in dest for a in passed) or bool(src_map) or any(k.arg in MAPP for k in c.keywords)
                    if not takes_map:
                        # handed no map at all: when every copy() this call can be (by the keywords and the number of arguments it passes)
                        # has a destination-map parameter, leaving it out means "the source's own map"
                        cands = []
                        for q8, fl8 in vm.all_funcs().items():
                            if not q8.endswith('.copy'):
                                continue
                            for f8 in fl8:
                                names8 = [a.arg for a in f8.args.args[1:]] + [a.arg for a in f8.args.kwonlyargs]
                                if all(k.arg in names8 for k in c.keywords if k.arg) and len(c.args) <= len(f8.args.args) - 1:
                                    cands.append((q8, [a for a in names8 if a in MAPP]))
                        if (c.keywords or c.args) and cands and all(d8 for _, d8 in cands):
                            ctx.check('C09.P7', False, vm, c, f'{q7} copies a sub-object with `{U(c)[:70]}` and does not pass its `{dest[0]}` argument on ({", ".join(q for q, _ in cands)} defaults to the source object\'s own map): '
                                      'copied into another map, the children stay owned and numbered by the map they came from', func=q7, text=f'{q7}: `{U(c)[:50]}` gets the destination map')
                        continue
                    ctx.check('C09.P7', not src_map, vm, c, f'{q7} copies a sub-object with `{U(c)[:70]}`, handing it the source\'s own map (`{U(src_map[0]) if src_map else ""}`) instead of the `{dest[0]}` argument: copied into '
                              'another map, the children stay owned and numbered by the map they came from', func=q7, text=f'{q7}: `{U(c)[:50]}` gets the destination map')

    # ---- P5: what decides whether an optional part is copied is its presence, not its truth value ------------------------------------
    ctx.rule('C09.P5', 'copy methods test optional fields with `is None` / `is not None`: a present but falsy value (Vec(0, 0, 0), an empty list) is still copied', floor=1)
    FALSY_BUILTINS = {'list', 'List', 'dict', 'Dict', 'set', 'Set', 'tuple', 'Tuple', 'str', 'int', 'float', 'bytes', 'Sequence', 'Mapping', 'MutableMapping'}

    def can_be_falsy(ann: Optional[str]) -> bool:
        toks = ann_tokens(ann or '') - {'Optional', 'Union', 'None'}
        if toks & FALSY_BUILTINS:
            return True
        for t in toks:
            for m_ in (vm, mt):
                if m_.has_class(t):
                    meths_ = all_methods(prog, m_, t) if m_ is mt else {k: (t, v) for k, v in m_.methods(t).items()}
                    if '__bool__' in meths_ or '__len__' in meths_:
                        return True
        return False
    n_p5 = 0
    for modname, clsname, meth, extra in COPIES:
        mod5 = prog.module(modname)
        if mod5 is not vm:
            continue
        fn5 = mod5.func(f'{clsname}.{meth}')
        types5 = field_types(mod5, clsname)
        for i5 in [n for n in walk_no_nested(fn5) if isinstance(n, (ast.If, ast.IfExp))]:
            operands = i5.test.values if isinstance(i5.test, ast.BoolOp) else [i5.test]
            for op5 in operands:
                inner = op5.operand if isinstance(op5, ast.UnaryOp) and isinstance(op5.op, ast.Not) else op5
                if isinstance(inner, ast.Attribute) and dotted(inner.value) == 'self' and 'None' in (types5.get(inner.attr) or '') or \
                        (isinstance(inner, ast.Attribute) and dotted(inner.value) == 'self' and 'Optional' in (types5.get(inner.attr) or '')):
                    n_p5 += 1
                    ctx.check('C09.P5', not can_be_falsy(types5.get(inner.attr)), vm, i5, f'{clsname}.{meth} decides with the truth value of self.{inner.attr} ({types5.get(inner.attr)}) whether that part is copied: a value that is '
                              'present but falsy (a zero vector, an empty list) is treated like an absent one and the copy silently loses it', func=f'{clsname}.{meth}', text=f'{clsname}.{meth}: self.{inner.attr} tested by identity')
                elif isinstance(inner, ast.Compare) and len(inner.ops) == 1 and isinstance(inner.ops[0], (ast.Is, ast.IsNot)) and isinstance(inner.left, ast.Attribute) and dotted(inner.left.value) == 'self':
                    n_p5 += 1
                    ctx.check('C09.P5', True, vm, i5, 'identity test', func=f'{clsname}.{meth}', text=f'{clsname}.{meth}: self.{inner.left.attr} tested by identity')
    probe5 = types5 = None
    # EntityFixup copies: shared FixupValue objects
    for meth in ('copy_values', '__copy__', '__deepcopy__'):
        fn = vm.func('EntityFixup.' + meth)
        ca = CopyAnalysis(ctx, prog, vm, 'EntityFixup', fn, {})
        bad = None
        exprs: List[ast.AST] = [r.value for r in walk_no_nested(fn) if isinstance(r, ast.Return) and r.value is not None and meth == 'copy_values']
        if meth != 'copy_values':
            exprs = [n.value for n in walk_no_nested(fn) if isinstance(n, ast.Assign) and any(isinstance(t, ast.Attribute) and t.attr == '_fixup' for t in n.targets)]
        if not exprs:
            raise AnalysisError(f'EntityFixup.{meth}: no value expression found')
        # a FixupValue built for the copy takes each field from the same field of the source value (the dictionary key is the *folded* name)
        fv_fields = [f for f, _ in attrs_fields(vm, 'FixupValue')]
        for c_ in [c for c in ast.walk(fn) if isinstance(c, ast.Call) and dotted(c.func) == 'FixupValue' and len(c.args) == len(fv_fields)]:
            for i_, (a_, f_) in enumerate(zip(c_.args, fv_fields)):
                inner_ = a_.args[0] if isinstance(a_, ast.Call) and dotted(a_.func) in ('intern', 'sys.intern', 'str') and len(a_.args) == 1 else a_
                ok_ = isinstance(inner_, ast.Attribute) and inner_.attr == f_ and isinstance(inner_.value, ast.Name)
                ctx.check('C09.P1', ok_, vm, c_, f'EntityFixup.{meth} builds the copied FixupValue with {f_}=`{U(a_)[:40]}` instead of the source value\'s .{f_}'
                          + (' (the dictionary key is the case-folded name: the copy exports `$door_name` for `$Door_Name`)' if f_ == 'var' else ''), func='EntityFixup.' + meth, text=f'EntityFixup.{meth}: FixupValue.{f_} from the same field')
        for e in exprs:
            st, why = ca.copy_status(e, True)
            if st == 'unknown':
                raise AnalysisError(f'EntityFixup.{meth}: cannot classify `{U(e)}`')
            ctx.check('C09.P2', st == 'fresh', vm, fn, f'EntityFixup.{meth} hands out `{U(e)}`: {why}; the FixupValue objects (mutable: .value is assigned by '
                      '__setitem__) are then shared between the entity and its copy', func='EntityFixup.' + meth, text=f'EntityFixup.{meth} <- {U(e)[:40]}')
    # ---- P3 ------------------------------------------------------------------------------------------
    BINOPS = ['add', 'sub', 'mul', 'truediv', 'floordiv', 'mod', 'matmul', 'divmod']
    names = [f'__{o}__' for o in BINOPS] + [f'__r{o}__' for o in BINOPS] + ['__neg__', '__pos__', '__abs__', '__round__', '__invert__']
    for modobj, classes in ((kv, ['Keyvalues']), (mt, ['VecBase', 'Vec', 'FrozenVec', 'AngleBase', 'Angle', 'FrozenAngle', 'MatrixBase', 'Matrix', 'FrozenMatrix'])):
        for cname in classes:
            if modobj is mt:
                meths = {n: f for n, (o, f) in all_methods(prog, mt, cname).items() if o == cname}
            else:
                meths = modobj.methods(cname)
            for n in names:
                if n not in meths:
                    continue
                fn = meths[n]
                params = [a.arg for a in fn.args.args]  # type: ignore[attr-defined]
                muts = [m for m in mutations(fn, set(params[:2])) if m.kind != 'augassign-name' and m.kind != 'for-target']
                # calls of the private in-place mutators on an operand itself
                for c in walk_no_nested(fn):
                    if isinstance(c, ast.Call) and isinstance(c.func, ast.Attribute) and c.func.attr in ('_mat_mul',) and dotted(c.func.value) in params[:2]:
                        muts.append(type('M', (), {'node': c, 'kind': 'call:_mat_mul', 'target': U(c.func)})())
                    if isinstance(c, ast.Call) and isinstance(c.func, ast.Attribute) and c.func.attr in ('_vec_rot', '_to_angle') and c.args and dotted(c.args[0]) in params[:2]:
                        muts.append(type('M', (), {'node': c, 'kind': 'call:' + c.func.attr, 'target': U(c.args[0])})())
                ctx.check('C09.P3', not muts, modobj, muts[0].node if muts else fn,
                          (f'{cname}.{n} mutates an operand: {muts[0].kind} on `{muts[0].target}` - the operator is documented to produce a new value') if muts else 'operands untouched',
                          func=f'{cname}.{n}', text=f'{cname}.{n} pure' if not muts else f'{cname}.{n}: {muts[0].kind} {muts[0].target}')
    # P3 (identity): an operator that produces a new value must not hand back one of its operands when the class is mutable -
    # the caller may change the "new" value in place (v2 = v @ ang; v2 += off) and would change the operand with it
    FROZEN_ONLY = {'FrozenVec', 'FrozenAngle', 'FrozenMatrix'}
    n_ret = 0
    for cname in ['VecBase', 'Vec', 'FrozenVec', 'AngleBase', 'Angle', 'FrozenAngle', 'MatrixBase', 'Matrix', 'FrozenMatrix']:
        meths = {n: f for n, (o, f) in all_methods(prog, mt, cname).items() if o == cname}
        for n in names:
            if n not in meths:
                continue
            fn = meths[n]
            params = [a.arg for a in fn.args.args]  # type: ignore[attr-defined]
            for r in [x for x in walk_no_nested(fn) if isinstance(x, ast.Return) and x.value is not None]:
                n_ret += 1
                is_operand = isinstance(r.value, ast.Name) and r.value.id in params[:2]
                ctx.check('C09.P3', not is_operand or cname in FROZEN_ONLY, mt, r, f'{cname}.{n} returns its operand `{U(r.value)}` itself: for a mutable {cname.replace("Base", "")} the result of the operator is then the same '
                          'object as the operand, and an in-place change of the result changes the operand', func=f'{cname}.{n}', text=f'{cname}.{n}: result is a new object')
    if n_ret < 30:
        raise AnalysisError(f'P3: only {n_ret} operator returns examined')
    # ---- P4 ------------------------------------------------------------------------------------------
    kc = kv.func('Keyvalues.copy')
    comps = [n for n in ast.walk(kc) if isinstance(n, ast.ListComp)]
    # what the comprehension walks: self._value itself, or a local that was assigned self._value
    val_aliases = {'self._value'} | {t.id for a in ast.walk(kc) if isinstance(a, ast.Assign) and dotted(a.value) == 'self._value' for t in a.targets if isinstance(t, ast.Name)}
    shaped = len(comps) == 1 and isinstance(comps[0].elt, ast.Call) and isinstance(comps[0].elt.func, ast.Attribute) and comps[0].elt.func.attr == 'copy' and len(comps[0].generators) == 1
    ok = shaped and dotted(comps[0].generators[0].iter) in val_aliases and not comps[0].generators[0].ifs and isinstance(comps[0].elt.func.value, ast.Name) \
        and isinstance(comps[0].generators[0].target, ast.Name) and comps[0].elt.func.value.id == comps[0].generators[0].target.id
    if not comps:
        # no comprehension at all: a container copy of the child list (`list(self._value)`, a slice, `.copy()`) shares the children
        shallow4 = [a for a in ast.walk(kc) if isinstance(a, ast.Assign) and any(isinstance(t, ast.Attribute) and t.attr == '_value' for t in a.targets)
                    and ((isinstance(a.value, ast.Call) and dotted(a.value.func) in ('list', 'tuple') and a.value.args and dotted(a.value.args[0]) in val_aliases)
                         or (isinstance(a.value, ast.Subscript) and dotted(a.value.value) in val_aliases and isinstance(a.value.slice, ast.Slice))
                         or (isinstance(a.value, ast.Call) and isinstance(a.value.func, ast.Attribute) and a.value.func.attr == 'copy' and dotted(a.value.func.value) in val_aliases))]
        # the comprehension written as a loop: `for child in self._value: children.append(child.copy())`
        loops4 = [l for l in ast.walk(kc) if isinstance(l, ast.For) and dotted(l.iter) in val_aliases and isinstance(l.target, ast.Name) and not l.orelse
                  and any(isinstance(c, ast.Call) and isinstance(c.func, ast.Attribute) and c.func.attr == 'append' and len(c.args) == 1 and isinstance(c.args[0], ast.Call) and isinstance(c.args[0].func, ast.Attribute)
                          and c.args[0].func.attr == 'copy' and dotted(c.args[0].func.value) == l.target.id for c in ast.walk(l))
                  and not any(isinstance(x, (ast.Continue, ast.Break, ast.If)) for b in l.body for x in ast.walk(b))]
        if len(loops4) == 1 and not shallow4:
            ctx.check('C09.P4', True, kv, loops4[0], 'every child is copied in a loop', text='deep child copy')
        elif shallow4:
            ctx.check('C09.P4', False, kv, shallow4[0], f'Keyvalues.copy fills the copy with `{U(shallow4[0].value)[:40]}`: a new list holding the SAME child objects - editing a child of the copy edits the original tree', text='deep child copy')
        else:
            ctx.shape('C09.P4', False, kv, kc, 'Keyvalues.copy: the comprehension that copies the children was not found', text='deep child copy')
    else:
        ctx.check('C09.P4', ok, kv, kc, 'Keyvalues.copy must rebuild the child list from child.copy() of every child', text='deep child copy')
    # does Keyvalues.<m>(x) store x itself?  (append does - it is documented to take ownership; extend copies)
    def stores_argument(mname: str) -> bool:
        m_ = kv.func('Keyvalues.' + mname)
        prm = m_.args.args[1].arg if len(m_.args.args) > 1 else None
        for c_ in walk_no_nested(m_):
            if isinstance(c_, ast.Call) and isinstance(c_.func, ast.Attribute) and c_.func.attr in ('append', 'insert') and (dotted(c_.func.value) or '').endswith('_value') and c_.args \
                    and isinstance(c_.args[-1], ast.Name) and c_.args[-1].id == prm:
                return True
        return False
    for name in ('__add__', '__iadd__', 'extend'):
        fn = kv.func('Keyvalues.' + name)
        for c in walk_no_nested(fn):
            if isinstance(c, ast.Call) and isinstance(c.func, ast.Attribute) and c.func.attr in ('append', 'extend', 'insert') and c.args:
                recv = dotted(c.func.value) or ''
                if not recv.endswith('_value'):
                    # delegation to another Keyvalues method: fine when that method copies, or when a copy is handed over
                    if recv in ('self', 'copy', 'result', 'new') and kv.has_func('Keyvalues.' + c.func.attr):
                        arg = c.args[-1]
                        handed_copy = isinstance(arg, ast.Call) and isinstance(arg.func, ast.Attribute) and arg.func.attr == 'copy'
                        okd = handed_copy or not stores_argument(c.func.attr)
                        ctx.check('C09.P4', okd, kv, c, f'Keyvalues.{name} delegates to {c.func.attr}(`{U(arg)}`), and Keyvalues.{c.func.attr} stores the very object it is given: the result of the operator '
                                  'then shares that subtree with the right operand, and editing either changes the other', func='Keyvalues.' + name, text=f'{name}: delegates {c.func.attr}({U(arg)})')
                    continue
                arg = c.args[-1]
                okc = isinstance(arg, ast.Call) and isinstance(arg.func, ast.Attribute) and arg.func.attr == 'copy'
                ctx.check('C09.P4', okc, kv, c, f'Keyvalues.{name} adds `{U(arg)}` without copying it: the other tree\'s node would be shared', func='Keyvalues.' + name)

    # ... and the left side: what `a + b` returns holds copies of a's children too.  The result either starts as `self.copy()` or gets a child
    # list built from `child.copy()`; `self._value + added`, `list(self._value)` or `self._value[:]` is a new list of the SAME child objects
    af = kv.func('Keyvalues.__add__')
    me_a = af.args.args[0].arg
    n_left = 0
    for a_ in walk_no_nested(af):
        if isinstance(a_, ast.Assign) and any(isinstance(t, ast.Attribute) and t.attr == '_value' and not (isinstance(t.value, ast.Name) and t.value.id == me_a) for t in a_.targets):
            n_left += 1
            shares = [x for x in ast.walk(a_.value) if isinstance(x, ast.Attribute) and x.attr == '_value' and isinstance(x.value, ast.Name) and x.value.id == me_a]
            copied = any(isinstance(c, ast.Call) and isinstance(c.func, ast.Attribute) and c.func.attr == 'copy' for c in ast.walk(a_.value))
            ctx.check('C09.P4', not shares or copied, kv, a_, f'Keyvalues.__add__ gives its result the child list `{U(a_.value)[:60]}`: a new list, but its first elements are the left operand\'s own child objects - editing a '
                      'nested keyvalue of the sum edits the operand (and every other sum built from it)', func='Keyvalues.__add__', text='__add__: left children copied')
    starts_from_copy = any(isinstance(a_, ast.Assign) and isinstance(a_.value, ast.Call) and isinstance(a_.value.func, ast.Attribute) and a_.value.func.attr == 'copy' and dotted(a_.value.func.value) == me_a for a_ in walk_no_nested(af))
    ctx.shape('C09.P4', starts_from_copy or n_left > 0, kv, af, 'Keyvalues.__add__ builds its result from self.copy() or assigns the result a child list', func='Keyvalues.__add__', text='__add__: result construction')
    if starts_from_copy and not n_left:
        ctx.check('C09.P4', True, kv, af, 'result starts as self.copy()', func='Keyvalues.__add__', text='__add__: left children copied')

    # ---- P1 (root test): a blank name is a name ---------------------------------------------------------------------------------------------
    # `"" "value"` and `"" { ... }` are legal KeyValues; only None marks a root.  Code of keyvalues.py that decides "root or named" by the
    # truthiness of the name treats blank-named keyvalues as roots - a copy of one loses its name (and its braces on export).
    kvm = prog.module('keyvalues')
    n_rt = 0
    for q_, fl_ in kvm.all_funcs().items():
        if not q_.startswith('Keyvalues.'):
            continue
        for f_ in fl_:
            me_ = f_.args.args[0].arg if f_.args.args else 'self'
            for t_ in [x for x in walk_no_nested(f_) if isinstance(x, (ast.If, ast.IfExp, ast.While, ast.Assert))]:
                for e_ in ast.walk(t_.test):
                    if isinstance(e_, ast.Attribute) and e_.attr in ('_real_name', '_folded_name') and isinstance(e_.value, ast.Name) and e_.value.id == me_:
                        par_ = kvm.parents.get(e_)
                        n_rt += 1
                        bare = not (isinstance(par_, ast.Compare) or isinstance(par_, ast.Call) or isinstance(par_, ast.Attribute))
                        ctx.check('C09.P1', not bare, kvm, t_, f'{q_} tests `{U(t_.test)[:50]}`: the truth value of the name - a keyvalue named "" (legal, and exported as `""`) is taken for a root, so e.g. its copy is a '
                                  'root: the name and the braces are gone from the export', func=q_, text=f'{q_}: root test `{U(t_.test)[:30]}` compares with None')
            # ... and `not self._real_name` / `bool(self._real_name)` wherever they stand (`return not self._real_name` in is_root)
            for u_ in [x for x in walk_no_nested(f_) if (isinstance(x, ast.UnaryOp) and isinstance(x.op, ast.Not) and isinstance(x.operand, ast.Attribute) and x.operand.attr in ('_real_name', '_folded_name'))
                       or (isinstance(x, ast.Call) and dotted(x.func) == 'bool' and len(x.args) == 1 and isinstance(x.args[0], ast.Attribute) and x.args[0].attr in ('_real_name', '_folded_name'))]:
                if any(u_ is y for t_ in walk_no_nested(f_) if isinstance(t_, (ast.If, ast.IfExp, ast.While, ast.Assert)) for y in ast.walk(t_.test)):
                    continue
                n_rt += 1
                ctx.check('C09.P1', False, kvm, u_, f'{q_} evaluates `{U(u_)[:40]}`: the truth value of the name - a keyvalue named "" (legal, and exported as `""`) is taken for a root', func=q_,
                          text=f'{q_}: root test `{U(u_)[:30]}` compares with None')
    if n_rt < 3:
        raise AnalysisError(f'P1: only {n_rt} tests on the name found in Keyvalues (is_root, export and serialise confirmed by hand)')


MUTANTS = [
    {'id': 'allowed_verts_copied_only_if_customised', 'file': 'vmf.py', 'find': "            if self.disp_allowed_vert is not None:", 'replace': "            if self.disp_allowed_vert is not None and any(v != -1 for v in self.disp_allowed_vert[:1]):", 'expect': 'C09.P1', 'refuse_ok': True, 'note': 'round 14'},
    {'id': 'copy_values_returns_getstate', 'file': 'vmf.py', 'find': "        return [FixupValue(fix.var, fix.value, fix.id) for fix in self._fixup.values()]", 'replace': "        return self.__getstate__()", 'expect': 'C09.P2', 'note': 'round 13'},
    {'id': 'keyvalues_root_by_truthiness', 'file': 'keyvalues.py', 'find': "        return self._real_name is None\n", 'replace': "        return not self._real_name\n", 'expect': 'C09.P1', 'note': 'round 12', 'refuse_ok': True},
    {'id': 'solid_copy_group_only_same_map', 'file': 'vmf.py', 'find': "            self.hidden if keep_vis else False,\n            self.group_id,", 'replace': "            self.hidden if keep_vis else False,\n            self.group_id if vmf_file is None or vmf_file is self.map else None,", 'expect': 'C09.P1', 'note': 'round 11: carry-over conditional on the destination map'},
    {'id': 'kv_add_concatenates_own_children', 'file': 'keyvalues.py', 'find': "            copy = self.copy()\n            assert isinstance(copy._value, list)\n", 'replace': "            copy = Keyvalues.__new__(Keyvalues)\n            copy._real_name = self._real_name\n            copy._folded_name = self._folded_name\n            copy.line_num = self.line_num\n            copy._value = self._value + []\n", 'expect': 'C09.P4'},
    {'id': 'solid_copy_hands_sides_defaulted_map', 'file': 'vmf.py', 'find': "        sides = [\n            s.copy(-1, vmf_file, side_mapping)", 'replace': "        target = self.map if vmf_file is None else vmf_file\n        sides = [\n            s.copy(-1, target, side_mapping)", 'expect': 'C09.P7'},
    {'id': 'ok_solid_copy_alias_of_parameter', 'file': 'vmf.py', 'find': "        sides = [\n            s.copy(-1, vmf_file, side_mapping)", 'replace': "        target = vmf_file\n        sides = [\n            s.copy(-1, target, side_mapping)", 'expect': None, 'note': 'negative control: plain alias of the parameter'},
    {'id': 'visgroup_children_copied_without_map', 'file': 'vmf.py', 'find': "                child.copy(vmf, group_mapping)\n", 'replace': "                child.copy(group_mapping=group_mapping)\n", 'expect': 'C09.P7'},
    {'id': 'visgroup_children_copied_into_source_map', 'file': 'vmf.py', 'find': "                child.copy(vmf, group_mapping)\n", 'replace': "                child.copy(self.vmf, group_mapping)\n", 'expect': 'C09.P7'},
    {'id': 'side_copy_returns_before_strata_points', 'file': 'vmf.py', 'find': "        if self.strata_points is not None:\n            new_side.strata_points = [point.copy() for point in self.strata_points]\n", 'replace': "        if not self.is_disp:\n            return new_side\n        if self.strata_points is not None:\n            new_side.strata_points = [point.copy() for point in self.strata_points]\n", 'expect': 'C09.P6'},
    {'id': 'ok_side_copy_strata_points_first', 'file': 'vmf.py', 'find': "        side_mapping[self.id] = new_side.id\n        if self.is_disp:", 'replace': "        side_mapping[self.id] = new_side.id\n        if self.strata_points is not None:\n            new_side.strata_points = [point.copy() for point in self.strata_points]\n        if self.is_disp:", 'expect': None},
    {'id': 'entity_copy_logical_pos_heuristic', 'file': 'vmf.py', 'find': "            logical_pos=self.logical_pos,\n            vis_shown=self.vis_shown if keep_vis else True,", 'replace': "            logical_pos=None if self.logical_pos.startswith('[0 ') else self.logical_pos,\n            vis_shown=self.vis_shown if keep_vis else True,", 'expect': 'C09.P1'},
    {'id': 'entity_copy_shares_fixup_records', 'file': 'vmf.py', 'find': "            fixup=self._fixup.copy_values() if self._fixup is not None else (),", 'replace': "            fixup=self._fixup._fixup.values() if self._fixup is not None else (),", 'expect': 'C09.P2'},
    {'id': 'side_copy_disp_by_truthiness', 'file': 'vmf.py', 'find': "        if self.is_disp:\n            assert self.disp_pos is not None\n            assert self._disp_verts is not None\n            new_side.disp_flags = self.disp_flags", 'replace': "        if self.is_disp and self.disp_pos and self._disp_verts:\n            new_side.disp_flags = self.disp_flags", 'expect': 'C09.P5'},
    {'id': 'ok_side_copy_disp_by_identity', 'file': 'vmf.py', 'find': "        if self.is_disp:\n            assert self.disp_pos is not None\n            assert self._disp_verts is not None\n            new_side.disp_flags = self.disp_flags", 'replace': "        if self.is_disp and self.disp_pos is not None and self._disp_verts is not None:\n            new_side.disp_flags = self.disp_flags", 'expect': None},
    {'id': 'fixup_copy_var_from_key', 'file': 'vmf.py', 'find': "        return [FixupValue(fix.var, fix.value, fix.id) for fix in self._fixup.values()]", 'replace': "        return [FixupValue(var, fix.value, fix.id) for var, fix in self._fixup.items()]", 'expect': 'C09.P1'},
    {'id': 'kv_add_delegates_to_append', 'file': 'keyvalues.py', 'find': "                copy._value.append(other.copy())", 'replace': "                copy.append(other)", 'expect': 'C09.P4'},
    {'id': 'kv_add_delegates_to_append_copy', 'file': 'keyvalues.py', 'find': "                copy._value.append(other.copy())", 'replace': "                copy.append(other.copy())", 'expect': None},
    {'id': 'vec_matmul_identity_returns_operand', 'file': 'math.py', 'find': "        elif isinstance(other, AngleBase):\n            mat = Py_Matrix.from_angle(other)\n        else:\n            return NotImplemented\n        res = type(self)(self._x, self._y, self._z)", 'replace': "        elif isinstance(other, AngleBase):\n            if other._pitch == 0.0 and other._yaw == 0.0 and other._roll == 0.0:\n                return self\n            mat = Py_Matrix.from_angle(other)\n        else:\n            return NotImplemented\n        res = type(self)(self._x, self._y, self._z)", 'expect': 'C09.P3'},
    {'id': 'visgroup_converter_returns_argument', 'file': 'vmf.py', 'find': "else:\n    _conv_visgroups = set\n", 'replace': "else:\n    def _conv_visgroups(x):\n        if isinstance(x, set):\n            return x\n        return set(x)\n", 'expect': 'C09.P2'},
    {'id': 'side_copy_shares_planes', 'file': 'vmf.py', 'find': "            [p.copy() for p in self.planes],", 'replace': "            list(self.planes),", 'expect': 'C09.P2'},
    {'id': 'side_copy_shares_uaxis', 'file': 'vmf.py', 'find': "            self.uaxis.copy(),\n            self.vaxis.copy(),", 'replace': "            self.uaxis,\n            self.vaxis.copy(),", 'expect': 'C09.P2'},
    {'id': 'side_copy_drops_lightmap', 'file': 'vmf.py', 'find': "            des_id,\n            self.lightmap,\n            self.smooth,", 'replace': "            des_id,\n            16,\n            self.smooth,", 'expect': 'C09.P1'},
    {'id': 'side_copy_drops_flags', 'file': 'vmf.py', 'find': "            new_side.disp_flags = self.disp_flags\n", 'replace': "", 'expect': 'C09.P1'},
    {'id': 'vertex_offset_shared', 'file': 'vmf.py', 'find': "                    vert.offset.copy(),", 'replace': "                    vert.offset,", 'expect': 'C09.P2'},
    {'id': 'entity_copy_shares_outputs', 'file': 'vmf.py', 'find': "        outs = [o.copy() for o in self.outputs]", 'replace': "        outs = list(self.outputs)", 'expect': 'C09.P2'},
    {'id': 'entity_copy_drops_comments', 'file': 'vmf.py', 'find': "            vis_ids=self.visgroup_ids if keep_vis else (),\n            comments=self.comments,", 'replace': "            vis_ids=self.visgroup_ids if keep_vis else (),", 'expect': 'C09.P1'},
    {'id': 'cordon_copy_shares_min', 'file': 'vmf.py', 'find': "            self.bounds_min.copy(),\n            self.bounds_max.copy(),", 'replace': "            self.bounds_min,\n            self.bounds_max.copy(),", 'expect': 'C09.P2'},
    {'id': 'output_copy_drops_inst', 'file': 'vmf.py', 'find': "            inst_out=self.inst_out,\n            inst_in=self.inst_in,\n            comma_sep=self.comma_sep,", 'replace': "            inst_out=self.inst_out,\n            comma_sep=self.comma_sep,", 'expect': 'C09.P1'},
    {'id': 'kv_copy_shallow', 'file': 'keyvalues.py', 'find': "            result._value = [child.copy() for child in self._value]", 'replace': "            result._value = list(self._value)", 'expect': 'C09.P4'},
    {'id': 'kv_extend_shares', 'file': 'keyvalues.py', 'find': "                raise TypeError(f'{type(kv)} is not a Keyvalue!')\n            self._value.append(kv.copy())", 'replace': "                raise TypeError(f'{type(kv)} is not a Keyvalue!')\n            self._value.append(kv)", 'expect': 'C09.P4'},
    {'id': 'vec_neg_inplace', 'file': 'math.py', 'find': "    def __neg__(self) -> Self:\n        \"\"\"The inverted form of a Vector has inverted axes.\"\"\"\n        return type(self)(-self._x, -self._y, -self._z)", 'replace': "    def __neg__(self) -> Self:\n        \"\"\"The inverted form of a Vector has inverted axes.\"\"\"\n        self._x, self._y, self._z = -self._x, -self._y, -self._z\n        return self", 'expect': 'C09.P3'},
    {'id': 'visgroup_color_shared', 'file': 'vmf.py', 'find': "            des_id,\n            self.color.copy(),\n            [", 'replace': "            des_id,\n            self.color,\n            [", 'expect': 'C09.P2'},
]
