"""C18 - a constrained directory filesystem never reaches outside its root (DESIGN.md C18).

  S1  containment predicate is separator aware: in RawFileSystem._resolve_path the test that decides containment
      compares against the root in a form that cannot match a longer sibling name.  Accepted idioms:
      os.path.commonpath([...]) == root, Path.is_relative_to, `p == root or p.startswith(<root + separator>)`,
      relpath not starting with '..'.  A bare `abs_path.startswith(self.path)` with self.path = os.path.abspath(..)
      (never separator terminated) is rejected.
  S2  every OS sink is sanitised: in class RawFileSystem every argument of open / os.walk / os.stat / os.path.isfile /
      exists / isdir / os.listdir / os.scandir is the result of _resolve_path (form RESOLVED); a File argument is
      unwrapped to its stored path and re-resolved.
  S3  _resolve_path resolves with abspath(join(root, path)), raises RootEscapeError (not a generic error) and only
      when constrain_path; constrain_path defaults to True; the root itself is stored as an absolute path.
  S4  chained filesystems reach a RawFileSystem only through its public methods (so S2 covers prefixes).
"""
from __future__ import annotations

import ast
import re
from typing import Dict, List,  Any, Optional

from engine.srcmatch import U
from engine.forms import ABS, SEP_TERMINATED, FormEnv
from engine.model import AnalysisError, Program, dotted, walk_no_nested

LEVEL = 'other'
SINKS = {'open', 'os.walk', 'os.stat', 'os.path.isfile', 'os.path.exists', 'os.path.isdir', 'os.listdir', 'os.scandir', 'os.path.getmtime', 'os.lstat', 'io.open', 'os.open'}


def run(ctx: Any, prog: Program) -> None:
    fs = prog.module('filesys')
    raw = fs.methods('RawFileSystem')
    ctx.not_decided += ['symlinks inside the root', 'case-insensitive file systems', 'what PackList does with an accepted pack path']
    ctx.assumptions += ['os.path.abspath normalises ".." components lexically and returns a path without trailing separator (except the filesystem root)']
    ctx.rule('C18.S1', 'the containment test cannot be satisfied by a sibling directory whose name extends the root name', floor=1)
    ctx.rule('C18.S2', 'every file-system call of RawFileSystem receives a path returned by _resolve_path', floor=5)
    ctx.rule('C18.S3', '_resolve_path normalises with abspath(join(root, path)), raises RootEscapeError only when constrained; constraint on by default', floor=5)
    ctx.rule('C18.S4', 'FileSystemChain touches member filesystems only through their public lookup/walk/open methods', floor=2)

    # ---- S5: the pack-path normaliser (third anchor of the property) --------------------------------------------------------------
    ctx.rule('C18.S5', "unify_path refuses every name that still has a '..' component after normalisation, tested on the slash-converted text", floor=2)
    pk = prog.module('packlist')
    up = pk.func('unify_path')
    prm = up.args.args[0].arg
    # (re)definitions in statement order; a tested name stands for its definition with earlier names substituted
    assigns = sorted([a for a in walk_no_nested(up) if isinstance(a, ast.Assign) and isinstance(a.targets[0], ast.Name)], key=lambda a: a.lineno)

    def expanded(name: str, before_line: int, depth: int = 0) -> str:
        """source of the value `name` holds just before `before_line`, with local names replaced by their definitions"""
        defs = [a for a in assigns if a.targets[0].id == name and a.lineno < before_line]
        if not defs or depth > 6:
            return name
        d = defs[-1]
        out = U(d.value)
        for x in sorted({n.id for n in ast.walk(d.value) if isinstance(n, ast.Name)}, key=len, reverse=True):
            if any(a.targets[0].id == x and a.lineno <= d.lineno for a in assigns) and not (x == name and not [a for a in assigns if a.targets[0].id == name and a.lineno < d.lineno]):
                out = re.sub(r'\b' + re.escape(x) + r'\b', '(' + expanded(x, d.lineno if x != name else d.lineno, depth + 1) + ')', out)
        return out
    guards_ = [i for i in walk_no_nested(up) if isinstance(i, ast.If) and i.body and isinstance(i.body[-1], ast.Raise)]
    inverted5 = False
    if not guards_:
        # the same test the other way round: `if '../' not in path: return ...` / `else: raise`
        inv_ = [i for i in walk_no_nested(up) if isinstance(i, ast.If) and i.orelse and isinstance(i.orelse[-1], ast.Raise) and isinstance(i.test, ast.Compare) and len(i.test.ops) == 1 and isinstance(i.test.ops[0], ast.NotIn)]
        if len(inv_) == 1:
            guards_, inverted5 = inv_, True
    if len(guards_) != 1:
        ctx.shape('C18.S5', False, pk, up, 'one raising escape test expected in unify_path', func='unify_path', text='unify_path escape test')
    else:
        g_ = guards_[0]
        t_ = g_.test
        if inverted5:
            t_ = ast.copy_location(ast.Compare(left=t_.left, ops=[ast.In()], comparators=t_.comparators), t_)
        subj = None
        # every name that unify_path returns has passed the escape test: no `return` stands in front of it (a fast path for names that
        # "are already clean" hands `../x` back untested)
        early5 = [r for r in walk_no_nested(up) if isinstance(r, ast.Return) and r.lineno < g_.lineno]          # (returns inside the guarded statement itself come after its test)
        ctx.check('C18.S5', not early5, pk, early5[0] if early5 else g_, f'unify_path returns (`{U(early5[0])[:40] if early5 else ""}`, line {early5[0].lineno if early5 else 0}) before the escape test of line {g_.lineno}: names taking that '
                  'path are handed back without having been checked for `..` components, so a pack name can point outside the game root', func='unify_path', text='no return in front of the escape test')
        if isinstance(t_, ast.Compare) and len(t_.ops) == 1 and isinstance(t_.ops[0], ast.In):
            subj = t_.comparators[0]
        else:
            calls_ = [c for c in ast.walk(t_) if isinstance(c, ast.Call) and isinstance(c.func, ast.Attribute) and c.func.attr in ('startswith', 'split', 'find')]
            subj = calls_[0].func.value if calls_ else None
        base = next((x.id for x in ast.walk(subj) if isinstance(x, ast.Name)), None) if subj is not None else None
        if base is None:
            ctx.shape('C18.S5', False, pk, g_, f'subject of the escape test `{U(t_)[:60]}` not recognised', func='unify_path', text='unify_path escape test')
        else:
            text = expanded(base, g_.lineno)
            ctx.shape('C18.S5', 'normpath' in text and prm in text, pk, g_, f'the tested value derives from os.path.normpath of the argument (it is `{text[:80]}`)', func='unify_path', text='unify_path normalisation')
            after_conv = "replace('\\\\', '/')" in text
            ctx.check('C18.S5', after_conv, pk, g_, f'the escape test looks at `{text[:80]}`, i.e. before backslashes are turned into slashes: os.path.normpath does not treat a backslash as a separator on POSIX, so '
                      '`a\\..\\..\\x` reaches the test uncollapsed', func='unify_path', text='escape test after slash conversion')
            substring = isinstance(t_, ast.Compare) and len(t_.ops) == 1 and isinstance(t_.ops[0], ast.In) and isinstance(t_.left, ast.Constant) and t_.left.value in ('../', '..', '/..') and isinstance(t_.comparators[0], ast.Name)
            component = isinstance(t_, ast.Compare) and len(t_.ops) == 1 and isinstance(t_.ops[0], ast.In) and isinstance(t_.left, ast.Constant) and t_.left.value == '..' and 'split' in U(t_.comparators[0])
            prefix_only = any(isinstance(c, ast.Call) and isinstance(c.func, ast.Attribute) and c.func.attr == 'startswith' for c in ast.walk(t_)) and not substring and not component
            if substring or component:
                ctx.check('C18.S5', True, pk, g_, 'every remaining `..` component is refused', func='unify_path', text='escape test covers inner components')
            elif prefix_only:
                ctx.check('C18.S5', False, pk, g_, f'unify_path only refuses names that START with `../` (`{U(t_)[:60]}`): on POSIX normpath leaves backslash-spelled `..` components in place, and after the slash '
                          'conversion `cfg\\..\\..\\..\\x` is the accepted name `cfg/../../../x`', func='unify_path', text='escape test covers inner components')
            else:
                ctx.shape('C18.S5', False, pk, g_, f'escape test `{U(t_)[:60]}` is not an enumerated form', func='unify_path', text='escape test covers inner components')
    rp = raw.get('_resolve_path')
    if rp is None:
        raise AnalysisError('RawFileSystem._resolve_path not found')
    init = raw['__init__']
    # the root form: super().__init__(os.path.abspath(path))
    root_abs = any(isinstance(c, ast.Call) and dotted(c.func) == 'os.path.abspath' for c in ast.walk(init))
    # ---- S1 ------------------------------------------------------------------------------------------------
    env = FormEnv(rp, param_forms={})
    raises = [n for n in walk_no_nested(rp) if isinstance(n, ast.Raise)]
    if len(raises) != 1:
        # several refusal sites (a containment decision spread over branches and helpers): nothing below can classify that, but the function can
        # still be interpreted on the probe family - a name that leaves the root and comes back unrefused is a violation whatever the shape
        from engine.minieval import MiniEval, Obj, Raised, Unsupported
        outside_ = ['..', '../..', '../root_other/x', 'sub/../..', '/a', '/a/root_other/x', 'sub//../../x', './/..', 'sub/..//..', 'a//b/../../../x', '../root/../x']
        try:
            for nm in outside_:
                me = MiniEval({'os': Obj(sep='/', pardir='..', curdir='.', altsep=None)}, {}, dict(raw))
                try:
                    me.inline(rp, [nm], {}, Obj(path='/a/root', constrain_path=True))
                    ctx.check('C18.S1', False, fs, rp, f'_resolve_path interpreted on root \'/a/root\': the name {nm!r} leaves the root and is not refused', func='RawFileSystem._resolve_path', text='containment test')
                    break
                except Raised:
                    continue
        except Unsupported:
            pass
        raise AnalysisError('_resolve_path: expected exactly one raise')
    # the condition under which the escape error is raised: conjunction of the tests of all enclosing ifs, with locals that are
    # assigned once from an expression substituted (so a test split into named temporaries / nested ifs is the same test)
    enclosing: List[ast.If] = []
    p_ = fs.parents.get(raises[0])
    child_: ast.AST = raises[0]
    while p_ is not None and p_ is not rp:
        if isinstance(p_, ast.If):
            if child_ in p_.orelse:
                raise AnalysisError('_resolve_path: the raise sits in an else branch (negated tests are not combined)')
            enclosing.insert(0, p_)
        child_ = p_
        p_ = fs.parents.get(p_)
    if not enclosing:
        # guard-clause form: `if <ok-condition>: return <path>` ... `raise RootEscapeError(...)` - the raise is reached when none of them held
        blk_ = rp.body
        if raises[0] in blk_:
            early_ = [st for st in blk_[:blk_.index(raises[0])] if isinstance(st, ast.If) and st.body and isinstance(st.body[-1], ast.Return) and not st.orelse]
            if early_:
                enclosing = [ast.If(test=ast.UnaryOp(op=ast.Not(), operand=st.test), body=[], orelse=[]) for st in early_]
                for e_, st in zip(enclosing, early_):
                    ast.copy_location(e_, st)
                    ast.fix_missing_locations(e_)
    if not enclosing:
        raise AnalysisError('_resolve_path: the raise is unconditional')
    single: Dict[str, ast.AST] = {}
    counts: Dict[str, int] = {}
    for n_ in walk_no_nested(rp):
        if isinstance(n_, ast.Assign) and len(n_.targets) == 1 and isinstance(n_.targets[0], ast.Name):
            counts[n_.targets[0].id] = counts.get(n_.targets[0].id, 0) + 1
            single[n_.targets[0].id] = n_.value

    class _Inline(ast.NodeTransformer):
        def visit_Name(self, node: ast.Name) -> ast.AST:
            if isinstance(node.ctx, ast.Load) and counts.get(node.id) == 1 and node.id not in ('abs_path',) and not isinstance(single[node.id], ast.Call) or \
                    (isinstance(node.ctx, ast.Load) and counts.get(node.id) == 1 and node.id not in ('abs_path',) and isinstance(single[node.id], ast.Call) and dotted(single[node.id].func) != 'os.path.abspath'):
                return self.visit(ast.parse(U(single[node.id]), mode='eval').body)
            return node
    tests_ = [_Inline().visit(ast.parse(U(i_.test), mode='eval').body) for i_ in enclosing]
    test = tests_[0] if len(tests_) == 1 else ast.BoolOp(op=ast.And(), values=tests_)
    ast.fix_missing_locations(test)
    guards = [enclosing[-1]]
    verdict: Optional[bool] = None
    why = ''
    for n in ast.walk(test):
        if isinstance(n, ast.Call) and isinstance(n.func, ast.Attribute) and n.func.attr == 'startswith' and n.args:
            arg = n.args[0]
            form = env.form(arg)
            d = dotted(arg)
            root_like = d == 'self.path' or (isinstance(arg, ast.Call) and 'self.path' in U(arg))
            if not root_like and d and d.startswith('self.') and d.count('.') == 1:
                # a prefix kept on the instance: its form is that of every value stored into the attribute, all of which must be
                # computed in __init__ from the stored (absolute) root
                attr_ = d.split('.')[1]
                stores_ = [(mn, a_) for mn, mf in raw.items() for a_ in ast.walk(mf) if isinstance(a_, (ast.Assign, ast.AnnAssign)) and getattr(a_, 'value', None) is not None
                           and any(dotted(t) == d for t in (a_.targets if isinstance(a_, ast.Assign) else [a_.target]))]
                if not stores_:
                    continue
                in_init = all(mn == '__init__' for mn, _ in stores_)
                from_root = all('self.path' in U(a_.value) for _, a_ in stores_)
                ctx.shape('C18.S1', in_init and from_root, fs, stores_[0][1], f'`{d}` (used as containment prefix) is computed once in __init__ from the stored root', func='RawFileSystem.__init__', text='cached containment prefix')
                if not (in_init and from_root):
                    continue
                ienv = FormEnv(init, param_forms={})
                form = frozenset.intersection(*[ienv.form(a_.value) for _, a_ in stores_])
                arg = stores_[0][1].value
                root_like = True
            if not root_like:
                continue
            if SEP_TERMINATED in form:
                # the root itself (no trailing separator) must be accepted separately
                eq = any(isinstance(m, ast.Compare) and isinstance(m.ops[0], (ast.Eq, ast.NotEq)) and 'self.path' in U(m) for m in ast.walk(test))
                verdict = True if verdict is None else verdict
                why = 'startswith(root + separator)' + (' with an equality test for the root itself' if eq else '')
            else:
                verdict = False
                why = f'`{U(n)}` compares against `{U(arg)[:110]}` which can be the bare root (abspath result, no trailing separator): "/a/root_other/x".startswith("/a/root") is true'
        if isinstance(n, ast.Call) and dotted(n.func) in ('os.path.commonpath', 'os.path.commonprefix'):
            if dotted(n.func) == 'os.path.commonprefix':
                verdict, why = False, 'os.path.commonprefix compares character-wise, not by path component'
            else:
                verdict, why = (True if verdict is None else verdict), 'os.path.commonpath'
        if isinstance(n, ast.Call) and isinstance(n.func, ast.Attribute) and n.func.attr == 'is_relative_to':
            verdict, why = (True if verdict is None else verdict), 'Path.is_relative_to'
    # relpath idiom: the path expressed relative to the root climbs out iff it IS '..' or starts with '../'
    rel_calls = [n for n in ast.walk(test) if isinstance(n, ast.Call) and dotted(n.func) == 'os.path.relpath' and len(n.args) == 2 and 'self.path' in U(n.args[1])]
    if rel_calls and verdict is None:
        PARDIR = ("os.pardir", "'..'")
        sw = [n for n in ast.walk(test) if isinstance(n, ast.Call) and isinstance(n.func, ast.Attribute) and n.func.attr == 'startswith' and n.args
              and any(isinstance(x, ast.Call) and dotted(x.func) == 'os.path.relpath' for x in ast.walk(n.func.value))]
        eqs = [n for n in ast.walk(test) if isinstance(n, ast.Compare) and len(n.ops) == 1 and isinstance(n.ops[0], (ast.Eq, ast.In)) and any(isinstance(x, ast.Call) and dotted(x.func) == 'os.path.relpath' for x in ast.walk(n.left))
               and any(p_ in U(n.comparators[0]) for p_ in PARDIR)]
        for n in sw:
            a = U(n.args[0])
            whole_component = a in ("os.pardir + os.sep", "'../'", "os.pardir + '/'", "'..' + os.sep")
            bare = a in PARDIR
            if bare:
                verdict, why = True, 'relpath(...).startswith(os.pardir) (conservative: also refuses names beginning with two dots)'
            elif whole_component:
                if eqs:
                    verdict, why = True, "relpath(...) == os.pardir or .startswith(os.pardir + os.sep)"
                else:
                    verdict = False
                    why = (f'`{U(n)[:80]}` only refuses results that continue below the parent: the relative form of the parent directory itself is exactly ".." '
                           '(no separator), so walking ".." lists the files next to the root')
    if verdict is None:
        # an idiom that is not enumerated: interpret _resolve_path (engine.minieval; os.path modelled by posixpath) on a small family of
        # (root, name) pairs.  A name that leaves the root and is not refused is a definite violation; agreement on the family decides nothing.
        from engine.minieval import MiniEval, Obj, Raised, Unsupported
        probe_root = '/a/root'
        outside = ['..', '../..', '../root_other/x', '../root_other', 'sub/../..', '/a', '/', '/a/root_other/x', '../../etc/passwd', 'sub/../../root/../x']
        inside = ['', 'x', 'sub/x', 'sub/../x', './x', '/a/root/x', '/a/root']
        try:
            for nm in outside + inside:
                me = MiniEval({'os': Obj(sep='/', pardir='..', curdir='.', altsep=None)}, {})
                try:
                    me.inline(rp, [nm], {}, Obj(path=probe_root, constrain_path=True))
                    refused = False
                except Raised:
                    refused = True
                if nm in outside and not refused:
                    verdict, why = False, f'interpreted on root {probe_root!r}: the name {nm!r} leaves the root and is not refused'
                    break
                if nm in inside and refused:
                    verdict, why = False, f'interpreted on root {probe_root!r}: the name {nm!r} stays inside the root and is refused'
                    break
        except Unsupported:
            pass
    if verdict is None:
        # not a verdict on the containment test - but the clauses below (what is normalised, compared and returned) are still decided
        ctx.shape('C18.S1', False, fs, guards[0], f'_resolve_path: containment test `{U(test)[:140]}` is not one of the enumerated idioms', func='RawFileSystem._resolve_path', text='containment test')
    else:
        ctx.check('C18.S1', verdict, fs, guards[0], f'containment test `{U(test)[:120]}`: {why}', func='RawFileSystem._resolve_path', text='containment test')
    # the comparison is on the exact spelling: on a case-sensitive file system `Root` and `ROOT` are different directories, so a test on folded
    # text accepts the sibling (os.path.normcase is the platform's own notion and is fine)
    folds_ = [n for n in ast.walk(test) if isinstance(n, ast.Call) and isinstance(n.func, ast.Attribute) and n.func.attr in ('casefold', 'lower', 'upper') and not n.args]
    ctx.check('C18.S1', not folds_, fs, guards[0], f'containment test `{U(test)[:140]}` compares case-folded text (`{U(folds_[0])[:50] if folds_ else ""}`): a sibling directory whose name differs from '
              "the root's only in letter case passes it and is then opened under its real spelling", func='RawFileSystem._resolve_path', text='containment test on exact spelling')
    # ---- S3 ------------------------------------------------------------------------------------------------
    ok = all(isinstance(r.exc, ast.Call) and dotted(r.exc.func) == 'RootEscapeError' for r in raises) and bool(raises)
    ctx.check('C18.S3', ok, fs, raises[0] if raises else rp, '_resolve_path must raise RootEscapeError', func='RawFileSystem._resolve_path', text='raises RootEscapeError')
    ctx.shape('C18.S3', 'self.constrain_path' in U(test), fs, guards[0], 'the escape check must be active whenever constrain_path is set (and only then)', func='RawFileSystem._resolve_path', text='gated by constrain_path')
    norm = [n for n in walk_no_nested(rp) if isinstance(n, ast.Assign) and isinstance(n.value, ast.Call) and dotted(n.value.func) in ('os.path.abspath', 'os.path.realpath', 'os.path.normpath')]       # the root is absolute: normpath(join(root, x)) is abspath(join(root, x))
    if len(norm) == 1 and isinstance(norm[0].value.args[0], ast.Name) and counts.get(norm[0].value.args[0].id) == 1:
        joined_expr = single[norm[0].value.args[0].id]        # `joined = os.path.join(...)` then abspath(joined)
    else:
        joined_expr = norm[0].value.args[0] if len(norm) == 1 else None
    ok = len(norm) == 1 and isinstance(joined_expr, ast.Call) and dotted(joined_expr.func) == 'os.path.join' and dotted(joined_expr.args[0]) == 'self.path'
    ctx.check('C18.S3', ok, fs, norm[0] if norm else rp, 'the candidate must be abspath(join(self.path, path)): normalised *before* it is compared and it is that normalised value that is returned',
              func='RawFileSystem._resolve_path', text='abspath(join(root, path))')
    if norm:
        var = norm[0].targets[0].id if isinstance(norm[0].targets[0], ast.Name) else None
        rets = [r for r in walk_no_nested(rp) if isinstance(r, ast.Return)]
        ctx.check('C18.S3', all(dotted(r.value) == var for r in rets) and bool(rets), fs, rets[0] if rets else rp, 'the value returned must be the normalised path that was checked', func='RawFileSystem._resolve_path', text='returns checked value')
        stores = [n for n in walk_no_nested(rp) if isinstance(n, (ast.Assign, ast.AugAssign, ast.AnnAssign)) and any(isinstance(t, ast.Name) and t.id == var and isinstance(t.ctx, ast.Store) for t in ast.walk(n))]
        # every value the checked variable can hold when the test runs is a normalised one, and nothing assigns it after the test
        NORMALISERS = ('os.path.abspath', 'os.path.realpath', 'os.path.normpath')
        late = [st for st in stores if st.lineno > guards[0].lineno]
        raw_st = [st for st in stores if st.lineno <= guards[0].lineno and not (isinstance(getattr(st, 'value', None), ast.Call) and dotted(st.value.func) in NORMALISERS)]
        ctx.check('C18.S3', not late, fs, late[0] if late else rp, f'`{var}` is assigned again after the containment test (`{U(late[0])[:60] if late else ""}`): the path handed to the OS must be exactly the normalised value the test saw '
                  '(a rewrite after the test, e.g. turning backslashes into separators, re-introduces ".." components)', func='RawFileSystem._resolve_path', text='checked value not rewritten')
        ctx.check('C18.S3', not raw_st, fs, raw_st[0] if raw_st else rp, f'on one path the candidate is `{U(raw_st[0])[:60] if raw_st else ""}`, not a normalised path: the prefix test then runs on the text as given, and a name that starts with the '
                  'root and climbs out of it with ".." components (`<root>/../secret`) passes', func='RawFileSystem._resolve_path', text='every candidate normalised before the test')
    # memoisation: the answer depends on the root AND on constrain_path (a public attribute).  FileSystem.__eq__/__hash__ look at type and
    # root only, so a cache keyed by (self, name) hands the path an unconstrained instance resolved to every constrained instance of that root.
    memo = [d for d in rp.decorator_list if 'cache' in U(d).lower()]
    other_dec = [d for d in rp.decorator_list if d not in memo]
    ctx.shape('C18.S3', not other_dec, fs, rp, f'_resolve_path carries decorators that are not modelled: {[U(d) for d in other_dec]}', func='RawFileSystem._resolve_path', text='not memoised')
    ctx.check('C18.S3', not memo, fs, memo[0] if memo else rp, f'_resolve_path is memoised (`@{U(memo[0])[:50] if memo else ""}`): the key is (self, name) and filesystems compare equal by type and root alone, so a path that an '
              'unconstrained RawFileSystem resolved (`../secret`) is returned from the cache to a constrained one on the same root without the containment test ever running', func='RawFileSystem._resolve_path', text='not memoised')
    dflt = {a.arg: d for a, d in zip(init.args.args[-len(init.args.defaults):], init.args.defaults)} if init.args.defaults else {}
    ok = isinstance(dflt.get('constrain_path'), ast.Constant) and dflt['constrain_path'].value is True and root_abs
    ctx.check('C18.S3', ok, fs, init, 'constrain_path must default to True and the root must be stored as an absolute path', func='RawFileSystem.__init__', text='constraint on by default, absolute root')
    # ---- S2 ------------------------------------------------------------------------------------------------
    for name, fn in raw.items():
        if name == '_resolve_path':
            continue
        # locals holding resolved paths
        resolved = set()
        for n in walk_no_nested(fn):
            if isinstance(n, ast.Assign) and isinstance(n.value, ast.Call) and dotted(n.value.func) == 'self._resolve_path':
                for t in n.targets:
                    if isinstance(t, ast.Name):
                        resolved.add(t.id)
        for c in walk_no_nested(fn):
            if isinstance(c, ast.Call) and dotted(c.func) in SINKS and c.args:
                a = c.args[0]
                ok = (isinstance(a, ast.Call) and dotted(a.func) == 'self._resolve_path') or (isinstance(a, ast.Name) and a.id in resolved)
                # a name produced by listing a resolved folder (os.walk / os.listdir / os.scandir / glob with root_dir) is inside it, and so is
                # its join with that folder
                if not ok and isinstance(a, ast.Call) and dotted(a.func) == 'os.path.join' and len(a.args) == 2 and isinstance(a.args[0], ast.Name) and a.args[0].id in resolved and isinstance(a.args[1], ast.Name):
                    for lp_ in walk_no_nested(fn):
                        if isinstance(lp_, ast.For) and any(isinstance(t_, ast.Name) and t_.id == a.args[1].id for t_ in ast.walk(lp_.target)) and isinstance(lp_.iter, ast.Call):
                            li_ = lp_.iter
                            roots_ = [x for x in li_.args[:1]] + [k.value for k in li_.keywords if k.arg in ('root_dir', 'top', 'path')]
                            if dotted(li_.func) in ('os.listdir', 'os.scandir', 'os.walk', 'glob.iglob', 'glob.glob') and any(isinstance(r_, ast.Name) and r_.id == a.args[0].id for r_ in roots_):
                                ok = True
                ctx.check('C18.S2', ok, fs, c, f'`{U(c)[:70]}` reaches the file system with a path that did not come from _resolve_path', func=f'RawFileSystem.{name}', text=f'{name}: {dotted(c.func)}')
        # values derived from os.walk(resolved) stay inside the walked tree; joins of dirpath + file are inside
    for name in ('open_str', 'open_bin'):
        fn = raw[name]
        src = U(fn)
        ok = 'if isinstance(name, File):' in src and 'name = self._get_data(name)' in src
        ctx.shape('C18.S2', ok, fs, fn, 'a File argument must be unwrapped to its stored relative path and then resolved like any other name', func=f'RawFileSystem.{name}', text=f'{name}: File unwrapped then resolved')
    # ---- S4 ------------------------------------------------------------------------------------------------
    chain = fs.methods('FileSystemChain')
    allowed = {'_get_file', 'walk_folder', 'open_str', 'open_bin', '_file_exists', 'cache_key', '_get_cache_key', 'path'}
    for name, fn in chain.items():
        # the member variable: first target of `for <member>, <prefix> in self.systems`, or what a File's .sys / stored member is bound to
        member_vars = {l.target.elts[0].id for l in walk_no_nested(fn) if isinstance(l, ast.For) and dotted(l.iter) == 'self.systems' and isinstance(l.target, ast.Tuple) and l.target.elts
                       and isinstance(l.target.elts[0], ast.Name)} | {'sys'}
        for c in walk_no_nested(fn):
            if isinstance(c, ast.Call) and isinstance(c.func, ast.Attribute) and isinstance(c.func.value, ast.Name) and c.func.value.id in member_vars:
                ctx.check('C18.S4', c.func.attr in allowed, fs, c, f'FileSystemChain.{name} calls sys.{c.func.attr}(): member filesystems may only be reached through lookup/walk/open', func=f'FileSystemChain.{name}',
                          text=f'{name}: sys.{c.func.attr}')
            if isinstance(c, ast.Call) and dotted(c.func) in SINKS:
                ctx.check('C18.S4', False, fs, c, f'FileSystemChain.{name} touches the OS directly', func=f'FileSystemChain.{name}', text=f'{name}: {dotted(c.func)}')
    # ... and nothing in filesys.py re-roots a directory filesystem: a `RawFileSystem(<something built from another filesystem's .path>)` is a new
    # root that was never checked against the old one - with a member prefix such as `../other` the "subfolder" lies outside the directory
    # the user constrained, and every later lookup is contained in the wrong place
    n_ctor = 0
    for q4, fl4 in fs.all_funcs().items():
        for f4 in fl4:
            for c in walk_no_nested(f4):
                if isinstance(c, ast.Call) and dotted(c.func) == 'RawFileSystem' and c.args:
                    n_ctor += 1
                    from_other = [x for x in ast.walk(c.args[0]) if isinstance(x, ast.Attribute) and x.attr == 'path' and isinstance(x.value, ast.Name) and x.value.id not in ('os',)]
                    ctx.check('C18.S4', not from_other, fs, c, f'{q4} builds `{U(c)[:70]}`: a directory filesystem rooted at a path derived from another filesystem\'s root and further text, which is not checked against that root - '
                              'a prefix containing `..` (or an absolute one) moves the new root outside the constrained directory', func=q4, text=f'{q4}: RawFileSystem root not derived from another root')
    ctx.check('C18.S4', True, fs, fs.tree, f'{n_ctor} RawFileSystem constructions in filesys.py examined', func='<module>', text='RawFileSystem constructions examined')

    # ---- S3 (the switch): the constraint the caller asked for is the constraint that is stored -------------------------------------------------
    # RawFileSystem(path, constrain_path=True) promises RootEscapeError for every name outside the root.  __init__ stores the flag as given:
    # switching it off for "roots that have nothing above them" (os.path.ismount is true for /proc, a second disk, any bind mount) removes
    # the check for directories that do have something above them.
    fsm_ = prog.module('filesys')
    init_ = fsm_.methods('RawFileSystem').get('__init__')
    if init_ is None:
        raise AnalysisError('anchor vanished: RawFileSystem.__init__')
    st_ = [a for a in ast.walk(init_) if isinstance(a, (ast.Assign, ast.AnnAssign)) for t in (a.targets if isinstance(a, ast.Assign) else [a.target]) if dotted(t) == 'self.constrain_path']
    ctx.shape('C18.S3', len(st_) >= 1, fsm_, init_, 'RawFileSystem.__init__ stores constrain_path', func='RawFileSystem.__init__', text='constrain_path stored as given')
    for a_ in st_:
        ctx.check('C18.S3', isinstance(a_.value, ast.Name) and a_.value.id == 'constrain_path', fsm_, a_, f'RawFileSystem.__init__ stores `{U(a_.value)[:60]}` as the constraint instead of the caller\'s `constrain_path`: for some '
                  'roots a filesystem created with constrain_path=True resolves `../x` and absolute names without RootEscapeError', func='RawFileSystem.__init__', text='constrain_path stored as given')


MUTANTS = [
    {'id': 'constraint_dropped_for_mount_points', 'file': 'filesys.py', 'find': "        self.constrain_path = constrain_path\n", 'replace': "        self.constrain_path = constrain_path and not os.path.ismount(self.path)\n", 'expect': 'C18.S3', 'note': 'round 13'},
    {'id': 'unify_path_fast_path_skips_the_test', 'file': 'packlist.py', 'find': "    path = os.path.normpath(path).casefold().replace('\\\\', '/')\n    if '../' in path:", 'replace': "    if path.islower() and '\\\\' not in path:\n        return path\n    path = os.path.normpath(path).casefold().replace('\\\\', '/')\n    if '../' in path:", 'expect': 'C18.S5', 'note': 'round 12'},
    {'id': 'absolute_names_checked_unnormalised', 'file': 'filesys.py', 'find': "        abs_path = os.path.abspath(os.path.join(self.path, path))\n", 'replace': "        if os.path.isabs(path):\n            abs_path = path\n        else:\n            abs_path = os.path.normpath(os.path.join(self.path, path))\n", 'expect': 'C18.S3'},
    {'id': 'chain_mounts_subfolder_as_new_root', 'file': 'filesys.py', 'find': "        if priority:\n            self.systems.insert(0, (sys, prefix))", 'replace': "        if prefix and isinstance(sys, RawFileSystem):\n            sys = RawFileSystem(os.path.join(sys.path, prefix), sys.constrain_path)\n            prefix = ''\n        if priority:\n            self.systems.insert(0, (sys, prefix))", 'expect': 'C18.S4'},
    {'id': 'containment_by_zipped_components', 'file': 'filesys.py', 'find': "        if self.constrain_path and abs_path != self.path and not abs_path.startswith(os.path.join(self.path, '')):\n            raise RootEscapeError(self.path, path)", 'replace': "        if self.constrain_path and any(ours != theirs for ours, theirs in zip(self.path.split(os.sep), abs_path.split(os.sep))):\n            raise RootEscapeError(self.path, path)", 'expect': 'C18.S1'},
    {'id': 'ok_containment_by_component_prefix', 'file': 'filesys.py', 'find': "        if self.constrain_path and abs_path != self.path and not abs_path.startswith(os.path.join(self.path, '')):\n            raise RootEscapeError(self.path, path)", 'replace': "        if self.constrain_path and abs_path.split(os.sep)[:len(self.path.split(os.sep))] != self.path.split(os.sep):\n            raise RootEscapeError(self.path, path)", 'expect': None, 'refuse_ok': True},
    {'id': 'ok_resolve_with_normpath_of_join', 'file': 'filesys.py', 'find': "        abs_path = os.path.abspath(os.path.join(self.path, path))\n", 'replace': "        abs_path = os.path.normpath(os.path.join(self.path, path))\n", 'expect': None},
    {'id': 'resolve_path_lru_cached', 'file': 'filesys.py', 'find': "    def _resolve_path(self, path: str) -> str:", 'replace': "    @__import__('functools').lru_cache(maxsize=8192)\n    def _resolve_path(self, path: str) -> str:", 'expect': 'C18.S3'},
    {'id': 'containment_on_relative_name', 'file': 'filesys.py', 'find': "        abs_path = os.path.abspath(os.path.join(self.path, path))\n        # Compare with a trailing separator, so sibling folders like \"root_other\" don't match \"root\".\n        if self.constrain_path and abs_path != self.path and not abs_path.startswith(os.path.join(self.path, '')):\n            raise RootEscapeError(self.path, path)\n        return abs_path", 'replace': "        rel_path = os.path.normpath(path)\n        if self.constrain_path and (rel_path == os.pardir or rel_path.startswith(os.pardir + os.sep)):\n            raise RootEscapeError(self.path, path)\n        return os.path.normpath(os.path.join(self.path, rel_path))", 'expect': 'C18.S3'},
    {'id': 'containment_on_folded_text', 'file': 'filesys.py', 'find': "        if self.constrain_path and abs_path != self.path and not abs_path.startswith(os.path.join(self.path, '')):", 'replace': "        if self.constrain_path and abs_path.lower() != self.path.lower() and not abs_path.lower().startswith(os.path.join(self.path.lower(), '')):", 'expect': 'C18.S1'},
    {'id': 'ok_containment_normcase', 'file': 'filesys.py', 'find': "        if self.constrain_path and abs_path != self.path and not abs_path.startswith(os.path.join(self.path, '')):", 'replace': "        if self.constrain_path and os.path.normcase(abs_path) != os.path.normcase(self.path) and not os.path.normcase(abs_path).startswith(os.path.join(os.path.normcase(self.path), '')):", 'expect': None},
    {'id': 'cached_prefix_from_raw_argument', 'file': 'filesys.py', 'find': "        self.constrain_path = constrain_path\n", 'replace': "        self.constrain_path = constrain_path\n        self._prefix = self.path if str(path).endswith((os.sep, '/')) else self.path + os.sep\n", 'extra': [{'file': 'filesys.py', 'find': "not abs_path.startswith(os.path.join(self.path, '')):", 'replace': "not abs_path.startswith(self._prefix):"}], 'expect': 'C18.S1'},
    {'id': 'ok_cached_prefix', 'file': 'filesys.py', 'find': "        self.constrain_path = constrain_path\n", 'replace': "        self.constrain_path = constrain_path\n        self._prefix = os.path.join(self.path, '')\n", 'extra': [{'file': 'filesys.py', 'find': "not abs_path.startswith(os.path.join(self.path, '')):", 'replace': "not abs_path.startswith(self._prefix):"}], 'expect': None},
    {'id': 'unify_path_prefix_test_only', 'file': 'packlist.py', 'find': "    if '../' in path:", 'replace': "    if path.startswith('../'):", 'expect': 'C18.S5'},
    {'id': 'relpath_misses_exact_parent', 'file': 'filesys.py', 'find': "        if self.constrain_path and abs_path != self.path and not abs_path.startswith(os.path.join(self.path, '')):", 'replace': "        if self.constrain_path and os.path.relpath(abs_path, self.path).startswith(os.pardir + os.sep):", 'expect': 'C18.S1'},
    {'id': 'relpath_sound_form', 'file': 'filesys.py', 'find': "        if self.constrain_path and abs_path != self.path and not abs_path.startswith(os.path.join(self.path, '')):", 'replace': "        if self.constrain_path and (os.path.relpath(abs_path, self.path) == os.pardir or os.path.relpath(abs_path, self.path).startswith(os.pardir + os.sep)):", 'expect': None},
    {'id': 'bare_prefix_test', 'file': 'filesys.py', 'find': "if self.constrain_path and abs_path != self.path and not abs_path.startswith(os.path.join(self.path, '')):", 'replace': "if self.constrain_path and not abs_path.startswith(self.path):", 'expect': 'C18.S1'},
    {'id': 'commonprefix', 'file': 'filesys.py', 'find': "if self.constrain_path and abs_path != self.path and not abs_path.startswith(os.path.join(self.path, '')):", 'replace': "if self.constrain_path and os.path.commonprefix([abs_path, self.path]) != self.path:", 'expect': 'C18.S1'},
    {'id': 'commonpath_ok', 'file': 'filesys.py', 'find': "if self.constrain_path and abs_path != self.path and not abs_path.startswith(os.path.join(self.path, '')):", 'replace': "if self.constrain_path and os.path.commonpath([abs_path, self.path]) != self.path:", 'expect': None, 'note': 'negative control: component-wise containment'},
    {'id': 'isfile_unresolved', 'file': 'filesys.py', 'find': "        if os.path.isfile(self._resolve_path(name)):\n            name = name.replace", 'replace': "        if os.path.isfile(os.path.join(self.path, name)):\n            name = name.replace", 'expect': 'C18.S2'},
    {'id': 'generic_error', 'file': 'filesys.py', 'find': "            raise RootEscapeError(self.path, path)\n        return abs_path", 'replace': "            raise FileNotFoundError(path)\n        return abs_path", 'expect': 'C18.S3'},
    {'id': 'unconstrained_default', 'file': 'filesys.py', 'find': "    def __init__(self, path: StringPath, constrain_path: bool = True) -> None:", 'replace': "    def __init__(self, path: StringPath, constrain_path: bool = False) -> None:", 'expect': 'C18.S3'},
    {'id': 'rewrite_after_check', 'file': 'filesys.py', 'find': "            raise RootEscapeError(self.path, path)\n        return abs_path", 'replace': "            raise RootEscapeError(self.path, path)\n        abs_path = abs_path.replace('\\\\', '/')\n        return abs_path", 'expect': 'C18.S3'},
    {'id': 'returns_unnormalised', 'file': 'filesys.py', 'find': "            raise RootEscapeError(self.path, path)\n        return abs_path", 'replace': "            raise RootEscapeError(self.path, path)\n        return os.path.join(self.path, path)", 'expect': 'C18.S3'},
]
