"""C17 - instance collapse leaves the template intact and composes transforms in the right order (DESIGN.md C17).

  N1  the template is read-only in collapse_one: no store, augmented assignment, del or mutating call has a receiver
      that may alias (part of) the `file` parameter (loop variables over file.vmf.*, proxy tables, ...); everything
      handed to the target map (add_brush, add_ent, vis_tree/child_groups.append, add_out) is the result of a .copy(...)
      or Output.combine(...).  Deepness of those copies is C09's job (cross-reference).
  N2  collapse_all: every instance entity is removed before it is collapsed; the outer loop is `for _ in
      range(recur_limit)` followed by `raise RecursionError` (termination on cyclic inclusion); templates are cached by file name.
  N3  transform composition: positions are `@ orient + origin` (rotate, then translate), directions/angles `@ orient`
      only - in Instance.fixup_key, collapse_one, Vec.localise, Side.localise and UVAxis.localise.
  N4  fixup_name handles all three FixupStyle members and leaves '@'/'!' names (and empty names) alone.
"""
from __future__ import annotations

import ast
from typing import Any, Dict, List, Optional, Set

from engine.srcmatch import U
from engine.effects import borrowed_names, mutations
from engine.fold import Folder
from engine.model import AnalysisError, Program, dotted, walk_no_nested

LEVEL = 'other'

TEMPLATE_MUTATORS = {'localise', 'translate', 'add_out', 'remove', 'make_unique', 'set_visible', 'add_brush', 'add_ent', 'add_ents', 'targ_ent',
                     'rotate_by_str', 'rotate', 'norm_mask'}
SINKS = {'add_brush', 'add_ent', 'add_ents', 'add_brushes', 'add_out'}


def _anc17(mod: Any, n: ast.AST, stop: Any) -> List[ast.AST]:
    out = []
    p = mod.parents.get(n)
    while p is not None and p is not stop:
        out.append(p)
        p = mod.parents.get(p)
    return out


def run(ctx: Any, prog: Program) -> None:
    ins = prog.module('instancing')
    vm = prog.module('vmf')
    mt = prog.module('math')
    ctx.not_decided += ['the geometric law numerically', 'FGD-driven type dispatch correctness (which keyvalue has which ValueTypes)',
                        'InstanceFile.parse() normalising the freshly parsed template once at load time (before any collapse)']
    ctx.assumptions += ['C09 (copies are deep) for the objects produced by .copy()', 'C04 for the rotation algebra behind `@`']
    ctx.rule('C17.N1', 'collapse_one never mutates the template and only adds copies to the target map', floor=6)
    # per-object state that methods change in place must not be a class-level container shared by every instance (see engine.model)
    from engine.model import shared_mutable_class_attrs as _smca
    for _m in (ins,):
        _hits = _smca(_m.tree, [c.name for c in _m.tree.body if isinstance(c, ast.ClassDef)])
        for _cn, _attr, _st in _hits:
            ctx.check('C17.N1', False, _m, _st, f'{_cn}.{_attr} is a class-level container (`{U(_st.value)[:30]}`) that methods change in place and no __init__ assigns: all {_cn} objects share it, so one collapse changes what the next one does',
                      func=_cn, text=f'{_cn}.{_attr} is per-object state')
        ctx.check('C17.N1', True, _m, _m.tree, f'{len(_hits)} shared class-level containers in {_m.relpath}', func='<module>', text=f'{_m.relpath}: class-level containers examined')
    ctx.rule('C17.N2', 'collapse_all removes each instance entity before collapsing it and is bounded by recur_limit', floor=4)
    ctx.rule('C17.N3', 'positions are rotated then translated; directions and angles are only rotated', floor=12)
    ctx.rule('C17.N5', 'exactly the visible template objects are collapsed: skipped iff hidden or not vis_shown (when visgroups are stripped)', floor=4)
    ctx.rule('C17.N4', 'fixup_name covers every FixupStyle and leaves @/! names unchanged', floor=4)
    ctx.rule('C17.N6', '$variable substitution: the variable pattern has no empty alternative whatever the fixup table holds, longer names first', floor=3)
    n6_substitute(ctx, vm)

    co = ins.func('collapse_one')
    # ---- N1 --------------------------------------------------------------------------------------------
    muts = mutations(co, {'file'}, extra_mutators=TEMPLATE_MUTATORS)
    b = borrowed_names(co, {'file'})
    ctx.note(f'collapse_one: names that may alias the template: {sorted(b)}')
    seen = set()
    for m in muts:
        if m.kind == 'for-target':
            continue
        key = (m.kind, m.target)
        if key in seen:
            continue
        seen.add(key)
        ctx.check('C17.N1', False, ins, m.node, f'collapse_one mutates the instance template: {m.kind} on `{m.target}` (root `{m.root}` may alias the `file` parameter); '
                  'a later collapse of the same cached file would see the change', text=f'{m.kind} {m.target}')
    ctx.check('C17.N1', True, ins, co, f'{len(b)} template-aliasing names examined', text='template alias set computed')
    # sinks: arguments must be fresh copies
    defs = {}
    for n in walk_no_nested(co):
        if isinstance(n, ast.Assign) and len(n.targets) == 1 and isinstance(n.targets[0], ast.Name):
            defs.setdefault(n.targets[0].id, []).append(n.value)

    def is_copy(e: ast.AST) -> bool:
        if isinstance(e, ast.Call):
            if isinstance(e.func, ast.Attribute) and e.func.attr == 'copy':
                return True
            if dotted(e.func) in ('Output.combine',):
                return True
        if isinstance(e, ast.Name) and e.id in defs:
            return all(is_copy(v) for v in defs[e.id])
        return False
    n_sinks = 0
    for c in walk_no_nested(co):
        if isinstance(c, ast.Call) and isinstance(c.func, ast.Attribute):
            recv = dotted(c.func.value) or ''
            is_sink = c.func.attr in SINKS or (c.func.attr == 'append' and recv.split('.')[-1] in ('vis_tree', 'child_groups', 'entities', 'brushes'))
            if not is_sink or not c.args:
                continue
            if root(c.func.value) in b and c.func.attr in SINKS:
                continue  # would already be a template mutation (reported above)
            n_sinks += 1
            ctx.check('C17.N1', is_copy(c.args[0]), ins, c, f'`{U(c)[:70]}` hands an object to the target map that is not the result of .copy()/Output.combine(): '
                      'template objects would be shared with (and later edited through) the map', text=f'sink {c.func.attr}({U(c.args[0])[:30]})')
    if n_sinks < 4:
        raise AnalysisError(f'collapse_one: only {n_sinks} sinks into the target map found; expected add_brush/add_ent/visgroup append/add_out')
    # the cached template is what is passed in: collapse_all passes file_cache entries
    # ---- N5: visibility filter (truth table of the skip predicate) ------------------------------------------------
    import itertools

    def bool_eval(e: ast.AST, var: str, env: dict, depth: int = 0) -> bool:
        if depth > 4:
            raise AnalysisError('visibility predicate too deep')
        if isinstance(e, ast.BoolOp):
            vals = [bool_eval(v, var, env, depth) for v in e.values]
            return all(vals) if isinstance(e.op, ast.And) else any(vals)
        if isinstance(e, ast.UnaryOp) and isinstance(e.op, ast.Not):
            return not bool_eval(e.operand, var, env, depth)
        if isinstance(e, ast.Attribute) and dotted(e.value) == var and e.attr in env:
            return env[e.attr]
        if isinstance(e, ast.Compare) and U(e) in ('visgroup is False', 'visgroup is not False'):
            v = env['visgroup_is_false']
            return v if U(e) == 'visgroup is False' else not v
        if isinstance(e, ast.Call) and isinstance(e.func, ast.Name) and ins.has_func(e.func.id) and len(e.args) == 1 and dotted(e.args[0]) == var:
            hf = ins.func(e.func.id)
            rets = [r for r in walk_no_nested(hf) if isinstance(r, ast.Return) and r.value is not None]
            if len(rets) != 1:
                raise AnalysisError(f'visibility helper {e.func.id} is not a single-expression predicate')
            return bool_eval(rets[0].value, hf.args.args[0].arg, env, depth + 1)
        if isinstance(e, ast.Name):
            # a local assigned once at function level (e.g. a hoisted `visgroup is not False`) stands for its definition
            defs_ = [a_ for a_ in walk_no_nested(co) if isinstance(a_, ast.Assign) and len(a_.targets) == 1 and isinstance(a_.targets[0], ast.Name) and a_.targets[0].id == e.id]
            if len(defs_) == 1 and defs_[0] in co.body:
                return bool_eval(defs_[0].value, var, env, depth + 1)
        raise AnalysisError(f'collapse_one: visibility predicate contains `{U(e)}` which is not modelled')
    for lp in [n for n in walk_no_nested(co) if isinstance(n, ast.For) and U(n.iter) in ('file.vmf.brushes', 'file.vmf.entities')]:
        var = lp.target.id
        first = lp.body[0]
        if not (isinstance(first, ast.If) and len(first.body) == 1 and isinstance(first.body[0], ast.Continue)):
            raise AnalysisError(f'collapse_one: loop over {U(lp.iter)} does not start with a skip test')
        for hidden, shown, auto in itertools.product((False, True), repeat=3):
            env = {'hidden': hidden, 'vis_shown': shown, 'vis_auto_shown': auto, 'visgroup_is_false': True}
            skipped = bool_eval(first.test, var, env)
            if hidden or not shown:
                want = True
            elif auto:
                want = False
            else:
                continue      # auto-visgroup hidden only: not specified
            ctx.check('C17.N5', skipped == want, ins, first, f'{U(lp.iter)}: an object with hidden={hidden}, vis_shown={shown}, vis_auto_shown={auto} is '
                      f'{"skipped" if skipped else "collapsed"} but must be {"skipped" if want else "collapsed"} (visible = not hidden and shown in its visgroups)',
                      text=f'{U(lp.iter)} hidden={hidden} shown={shown} auto={auto}')
    # brushes tied to an entity are not filtered by collapse_one: their own hidden state has to survive Entity.copy, whatever the entity-level
    # keep_vis says (keep_vis=False only strips the entity's visgroup membership)
    ec = vm.func('Entity.copy')
    ent_filters_solids = any(isinstance(n, ast.Attribute) and n.attr == 'solids' and isinstance(n.ctx, (ast.Store, ast.Del)) for n in ast.walk(co))
    for lp_ in [n for n in ast.walk(co) if isinstance(n, ast.For) and '.solids' in U(n.iter)]:
        svars = {n.id for n in ast.walk(lp_.target) if isinstance(n, ast.Name)}
        ent_filters_solids |= any(isinstance(n, ast.Attribute) and n.attr in ('hidden', 'vis_shown') and isinstance(n.value, ast.Name) and n.value.id in svars
                                  for st in lp_.body for n in ast.walk(st))
    scopies = [c for c in ast.walk(ec) if isinstance(c, ast.Call) and isinstance(c.func, ast.Attribute) and c.func.attr == 'copy'
               and any(k.arg == 'side_mapping' for k in c.keywords)]
    ctx.shape('C17.N5', len(scopies) == 1 and not ent_filters_solids, vm, ec, 'Entity.copy duplicates its solids through one Solid.copy(side_mapping=...) call and collapse_one leaves entity solids to it',
              func='Entity.copy', text='solid copies keep their hidden state')
    for c in scopies:
        kv_ = [k.value for k in c.keywords if k.arg == 'keep_vis']
        if len(c.args) >= 3:
            kv_.append(c.args[2])
        strips = [v for v in kv_ if not (isinstance(v, ast.Constant) and v.value is True)]
        named = [v for v in strips if isinstance(v, ast.Constant) or (isinstance(v, ast.Name) and v.id in {a.arg for a in ec.args.args + ec.args.kwonlyargs})]
        ctx.shape('C17.N5', len(named) == len(strips), vm, c, f'keep_vis argument `{U(strips[0]) if strips else ""}` of the per-solid copy is not a constant or a parameter',
                  func='Entity.copy', text='solid copies keep their hidden state')
        ctx.check('C17.N5', not strips, vm, c, f'Entity.copy passes keep_vis={U(strips[0]) if strips else ""} to the copies of its solids: collapse_one copies visible entities with keep_vis=False and '
                  'does not look at their solids, so an individually hidden brush of a visible brush entity would be added to the map as a visible one', func='Entity.copy', text='solid copies keep their hidden state')
    # which definition an entity gets: EntityDef.engine_def() matches the classname case-insensitively and raises KeyError for an unknown
    # class.  Letting the lookup decide (try/except KeyError) is exact; a pre-check against the set of known names is only the same thing
    # if it folds the name as well - the set holds lowercase names, so `Path_Track` would silently get the base-entity fallback and none of
    # its class-specific keyvalues (names, positions, $variables) would be fixed up.
    defs_calls = [c for c in ast.walk(co) if isinstance(c, ast.Call) and dotted(c.func) == 'EntityDef.engine_def' and c.args and isinstance(c.args[0], ast.Name)]
    ctx.shape('C17.N4', len(defs_calls) >= 1, ins, co, 'collapse_one looks the entity class up with EntityDef.engine_def(<classname>)', func='collapse_one', text='class definition lookup')
    for c in defs_calls:
        cls_var = c.args[0].id
        p_: Optional[ast.AST] = ins.parents.get(c)
        child_: ast.AST = c
        verdict_: Optional[bool] = None
        why_ = ''
        while p_ is not None and p_ is not co and verdict_ is None:
            if isinstance(p_, ast.Try) and any(child_ is st or any(child_ is x for x in ast.walk(st)) for st in p_.body) and any(h.type is None or 'KeyError' in U(h.type) or 'LookupError' in U(h.type) for h in p_.handlers):
                verdict_ = True
            elif isinstance(p_, ast.If) and any(child_ is st or any(child_ is x for x in ast.walk(st)) for st in p_.body):
                t_ = p_.test
                if isinstance(t_, ast.Compare) and len(t_.ops) == 1 and isinstance(t_.ops[0], ast.In) and any(isinstance(x, ast.Name) and x.id == cls_var for x in ast.walk(t_.left)):
                    folded_ = isinstance(t_.left, ast.Call) and isinstance(t_.left.func, ast.Attribute) and t_.left.func.attr in ('casefold', 'lower')
                    verdict_ = folded_
                    why_ = U(t_)
            child_, p_ = p_, ins.parents.get(p_)
        ctx.shape('C17.N4', verdict_ is not None, ins, c, 'the class lookup is decided by try/except KeyError or by a membership pre-check on the classname', func='collapse_one', text='class definition lookup')
        if verdict_ is not None:
            ctx.check('C17.N4', verdict_, ins, c, f'collapse_one only asks EntityDef.engine_def({cls_var}) when `{why_}`: engine_def() matches case-insensitively, this membership test does not (the known names are lowercase), so an entity '
                      'spelled `Path_Track` is treated as an unknown class and its class-specific keyvalues are neither renamed, moved nor substituted', func='collapse_one', text='class definition lookup')
    # ---- N2 --------------------------------------------------------------------------------------------
    ca = ins.func('collapse_all')
    outer = [s for s in ca.body if isinstance(s, ast.For)]
    ok = len(outer) == 1 and isinstance(outer[0].iter, ast.Call) and dotted(outer[0].iter.func) == 'range' and dotted(outer[0].iter.args[0]) == 'recur_limit'
    ctx.check('C17.N2', ok, ins, outer[0] if outer else ca, 'collapse_all must iterate `for _ in range(recur_limit)` (bounded number of passes)', text='bounded outer loop')
    whiles = [n for n in walk_no_nested(ca) if isinstance(n, ast.While)]
    ctx.check('C17.N2', not whiles, ins, whiles[0] if whiles else ca, 'collapse_all must not contain an unbounded while loop', text='no while loop')
    last = ca.body[-1]
    ok = isinstance(last, ast.Raise) and isinstance(last.exc, ast.Call) and dotted(last.exc.func) == 'RecursionError'
    ctx.check('C17.N2', ok, ins, last, 'after exhausting recur_limit passes collapse_all must raise RecursionError', text='RecursionError after the loop')
    # names made up for unnamed instances are unique over the whole run: the number in `InstanceAuto<n>` comes from a counter that starts
    # before the pass loop and only grows.  Numbering inside a pass (enumerate over this pass's unnamed instances) starts at 1 again in the
    # next pass, so an unnamed instance nested in a template gets the name of an unnamed top-level one and their entities share names.
    autos = [js for js in ast.walk(ca) if isinstance(js, ast.JoinedStr) and any(isinstance(v, ast.Constant) and 'InstanceAuto' in str(v.value) for v in js.values)]
    ctx.shape('C17.N2', len(autos) == 1, ins, ca, f'{len(autos)} `InstanceAuto<n>` name templates in collapse_all (1 confirmed by hand)', text='auto name template')
    for js in autos:
        nums = [v.value.id for v in js.values if isinstance(v, ast.FormattedValue) and isinstance(v.value, ast.Name)]
        for nm_ in nums:
            init_outside = any(isinstance(st_, (ast.Assign, ast.AnnAssign)) and any(dotted(t) == nm_ for t in (st_.targets if isinstance(st_, ast.Assign) else [st_.target])) for st_ in ca.body)
            per_pass = any(isinstance(l_, ast.For) and any(isinstance(x, ast.Name) and x.id == nm_ for x in ast.walk(l_.target)) for l_ in ast.walk(ca))
            ctx.check('C17.N2', init_outside and not per_pass, ins, js, f'the number in `{U(js)}` is `{nm_}`, ' + ('a loop variable that starts again in every pass' if per_pass else 'not a counter initialised before the pass loop')
                      + ': an unnamed instance inside a template (collapsed in a later pass) gets the same generated name as an unnamed top-level instance, and the entities of the two collide', text='auto names numbered over the whole run')
    if outer:
        inner = [n for n in ast.walk(outer[0]) if isinstance(n, ast.For) and n is not outer[0] and any(isinstance(c, ast.Call) and dotted(c.func) == 'collapse_one' for c in ast.walk(n))]
        if len(inner) != 1:
            raise AnalysisError('collapse_all: expected one inner loop over the instance entities')
        il = inner[0]
        var = il.target.id if isinstance(il.target, ast.Name) else None
        rm_line = None
        col_line = None
        for n in ast.walk(il):
            if isinstance(n, ast.Call) and isinstance(n.func, ast.Attribute) and n.func.attr == 'remove' and dotted(n.func.value) == var:
                p = ins.parents.get(ins.parents.get(n))
                if p is il:     # unconditional statement of the loop body
                    rm_line = n.lineno
            if isinstance(n, ast.Call) and dotted(n.func) == 'collapse_one':
                col_line = n.lineno
        ctx.check('C17.N2', rm_line is not None and col_line is not None and rm_line < col_line, ins, il,
                  'each func_instance entity must be removed unconditionally before collapse_one is called for it (otherwise it is collapsed again on the next pass)',
                  text='instance removed before collapse')
        # the work list is re-read from by_class['func_instance'] each pass and the function returns when it is empty
        src = U(outer[0])
        byc = [n for n in ast.walk(outer[0]) if isinstance(n, ast.Subscript) and (dotted(n.value) or '').endswith('by_class')]
        ctx.shape('C17.N2', all(isinstance(n.slice, ast.Constant) and n.slice.value == 'func_instance' for n in byc), ins, outer[0], "the class index is read under the literal 'func_instance'", text='worklist re-read, early return')
        ok = bool(byc) and any(isinstance(n, ast.Return) for n in ast.walk(outer[0]))
        ctx.check('C17.N2', ok, ins, outer[0], 'each pass must re-read the remaining func_instance entities and return when none are left', text='worklist re-read, early return')
        # every return inside the pass loop is taken only when the work list just read from by_class['func_instance'] is empty: instances
        # added by this pass (nested instances of templates, including cached ones) are otherwise left uncollapsed
        work = {t.id for st in outer[0].body if isinstance(st, ast.Assign) and "by_class['func_instance']" in U(st.value) for t in st.targets if isinstance(t, ast.Name)}
        for r in [n for n in ast.walk(outer[0]) if isinstance(n, ast.Return)]:
            par = ins.parents.get(r)
            guarded = False
            if isinstance(par, ast.If) and r in par.body and ins.parents.get(par) is outer[0]:
                t = par.test
                if isinstance(t, ast.UnaryOp) and isinstance(t.op, ast.Not) and (dotted(t.operand) in work or "by_class['func_instance']" in U(t.operand)):
                    guarded = True
                if isinstance(t, ast.Compare) and len(t.ops) == 1 and isinstance(t.ops[0], ast.Eq) and U(t.left) in {f'len({w})' for w in work} and U(t.comparators[0]) == '0':
                    guarded = True
            ctx.check('C17.N2', guarded, ins, r, 'collapse_all returns from inside the pass loop although func_instance entities may remain (the only sound early exit is an empty '
                      "by_class['func_instance'] at the start of a pass); instances nested in a template would stay uncollapsed", text='early return only on empty work list')
        # cache keyed by file name
        # the cache: a local subscript-assigned an InstanceFile(...); read and written under <instance>.filename, <instance> = Instance.from_entity(...)
        inst_vars = {t.id for n in ast.walk(outer[0]) if isinstance(n, ast.Assign) and isinstance(n.value, ast.Call) and dotted(n.value.func) == 'Instance.from_entity' for t in n.targets if isinstance(t, ast.Name)}
        cache_stores = [t for n in ast.walk(outer[0]) if isinstance(n, ast.Assign) and isinstance(n.value, ast.Call) and dotted(n.value.func) == 'InstanceFile' for t in n.targets if isinstance(t, ast.Subscript)]
        if not cache_stores or not inst_vars:
            ctx.shape('C17.N2', False, ins, outer[0], 'template cache (`<dict>[key] = InstanceFile(...)`) / `Instance.from_entity` not found', text='template cache key')
        else:
            cache = dotted(cache_stores[0].value)
            uses = [n for n in ast.walk(outer[0]) if isinstance(n, ast.Subscript) and dotted(n.value) == cache]
            ok = all(isinstance(n.slice, ast.Attribute) and n.slice.attr == 'filename' and dotted(n.slice.value) in inst_vars for n in uses)
            ctx.check('C17.N2', ok, ins, uses[0], f'parsed templates must be looked up and cached under the file name of the instance being collapsed; found keys {sorted({U(n.slice) for n in uses})}', text='template cache key')
    # ---- N3 --------------------------------------------------------------------------------------------
    fk = ins.func('Instance.fixup_key')

    def shape(e: ast.AST, rot: str, pos: Optional[str]) -> str:
        """classify an expression: 'rot+pos' if it contains (X @ rot) + pos, 'rot' if X @ rot without adding pos, else '?'"""
        has_rot_pos = False
        has_rot = False
        wrong_order = False
        for n in ast.walk(e):
            if isinstance(n, ast.BinOp) and isinstance(n.op, ast.MatMult) and dotted(n.right) == rot:
                has_rot = True
                # translation applied before the rotation: (X + pos) @ rot
                if pos and any(isinstance(m, ast.BinOp) and isinstance(m.op, ast.Add) and dotted(m.right) == pos for m in ast.walk(n.left)):
                    wrong_order = True
            if isinstance(n, ast.BinOp) and isinstance(n.op, ast.Add) and pos and dotted(n.right) == pos \
                    and isinstance(n.left, ast.BinOp) and isinstance(n.left.op, ast.MatMult) and dotted(n.left.right) == rot:
                has_rot_pos = True
        if wrong_order:
            return 'pos-then-rot'
        if has_rot_pos:
            return 'rot+pos'
        if has_rot:
            if pos and any(isinstance(m, ast.BinOp) and isinstance(m.op, ast.Add) and dotted(m.right) == pos for m in ast.walk(e)):
                return 'rot+pos?'
            return 'rot'
        return '?'
    # what is done with a value is decided by its *type* alone: a return placed in front of the type dispatch (`if not value: return value`)
    # takes blank values out of every arm - a blank vector is the local origin and has to be moved like "0 0 0"
    fk_body = [b for b in fk.body if not (isinstance(b, ast.Expr) and isinstance(b.value, ast.Constant))]
    first_dispatch = next((i for i, b in enumerate(fk_body) if isinstance(b, ast.If) and any(isinstance(x, ast.Attribute) and dotted(x.value) == 'ValueTypes' for x in ast.walk(b.test))), None)
    ctx.shape('C17.N3', first_dispatch is not None, ins, fk, 'fixup_key dispatches on ValueTypes members', func='Instance.fixup_key', text='fixup_key type dispatch')
    if first_dispatch is not None:
        early_ = [r for b in fk_body[:first_dispatch] for r in ast.walk(b) if isinstance(r, ast.Return)]
        ctx.check('C17.N3', not early_, ins, early_[0] if early_ else fk, f'fixup_key returns (`{U(early_[0])[:40] if early_ else ""}`) before looking at the type of the keyvalue: values caught by that test are not rotated, moved or '
                  'renamed whatever their type (a blank position keeps pointing at the world origin instead of the instance origin)', func='Instance.fixup_key', text='fixup_key: no return before the type dispatch')
    arms = {}
    for n in walk_no_nested(fk):
        if isinstance(n, ast.If):
            t = U(n.test)
            arms[t] = n
    want = {'ValueTypes.VEC ': 'rot+pos', 'ValueTypes.ANGLES': 'rot', 'ValueTypes.EXT_VEC_DIRECTION': 'rot', 'ValueTypes.VEC_AXIS': 'rot+pos'}
    for frag, expect in want.items():
        hit = [(t, n) for t, n in arms.items() if (frag.strip() in t and (frag != 'ValueTypes.VEC ' or 'ValueTypes.VEC or' in t or t.endswith('ValueTypes.VEC') or 'ValueTypes.VEC_ORIGIN' in t))]
        hit = [(t, n) for t, n in hit if not (frag == 'ValueTypes.VEC ' and 'VEC_AXIS' in t and 'VEC_ORIGIN' not in t)]
        if not hit:
            raise AnalysisError(f'Instance.fixup_key: arm for {frag.strip()} not found')
        t, n = hit[0]
        got = {shape(s, 'self.orient', 'self.pos') for s in n.body for s in [s] if isinstance(s, (ast.Return, ast.Assign))}
        got.discard('?')
        ctx.check('C17.N3', got == {expect}, ins, n, f'fixup_key arm `{t[:60]}`: expected {"rotate then translate (@ orient + pos)" if expect == "rot+pos" else "rotation only (@ orient)"}, found {sorted(got)}',
                  func='Instance.fixup_key', text=f'fixup_key {frag.strip()}: {expect}')
    # collapse_one: origin keyvalue and angles.  The two locals are found by what they hold: the instance's .orient and its .pos
    def _local_from_attr(fn_: ast.AST, attrs: tuple, default: str) -> str:
        c_ = sorted({t.id for a in walk_no_nested(fn_) if isinstance(a, ast.Assign) and isinstance(a.value, ast.Attribute) and a.value.attr in attrs for t in a.targets if isinstance(t, ast.Name)})
        return c_[0] if len(c_) == 1 else default
    co_orient, co_origin = _local_from_attr(co, ('orient',), 'orient'), _local_from_attr(co, ('pos',), 'origin')
    got_origin = None
    for n in walk_no_nested(co):
        if isinstance(n, ast.Assign) and isinstance(n.targets[0], ast.Subscript) and isinstance(n.targets[0].slice, ast.Constant) and n.targets[0].slice.value == 'origin' and isinstance(n.targets[0].value, ast.Name):
            v_ = n.value
            # `str(<local>)`: the local's own definition is what is written
            inner_ = v_.args[0] if isinstance(v_, ast.Call) and dotted(v_.func) == 'str' and len(v_.args) == 1 else v_
            if isinstance(inner_, ast.Name):
                defs_ = [a.value for a in walk_no_nested(co) if isinstance(a, ast.Assign) and any(isinstance(t, ast.Name) and t.id == inner_.id for t in a.targets)]
                if len(defs_) == 1:
                    v_ = defs_[0]
            got_origin = shape(v_, co_orient, co_origin)
    if got_origin in (None, '?'):
        ctx.shape('C17.N3', False, ins, co, 'the value stored under "origin" is not recognisably `<vector> @ orient + origin`', text='collapse_one origin')
    else:
        ctx.check('C17.N3', got_origin == 'rot+pos', ins, co, f'collapse_one must set origin = value @ orient + origin; found shape {got_origin}', text='collapse_one origin')
    ok = any(isinstance(n, ast.AugAssign) and isinstance(n.op, ast.MatMult) and isinstance(n.target, ast.Name) and dotted(n.value) == co_orient for n in walk_no_nested(co))
    ctx.check('C17.N3', ok, ins, co, 'collapse_one must rotate the entity angles by the instance orientation (angles @= orient)', text='collapse_one angles')
    # brushes are localised with (origin, orient)
    # (the calls may sit in private module-level helpers that collapse_one hands its work to)
    mod_fns17 = {q: fl[0] for q, fl in ins.all_funcs().items() if '.' not in q}
    scope17: List[ast.AST] = [co]
    for _ in range(2):
        for f_ in list(scope17):
            for c in walk_no_nested(f_):
                if isinstance(c, ast.Call) and isinstance(c.func, ast.Name) and c.func.id.startswith('_') and c.func.id in mod_fns17 and mod_fns17[c.func.id] not in scope17:
                    scope17.append(mod_fns17[c.func.id])
    loc_calls = [c for f_ in scope17 for c in walk_no_nested(f_) if isinstance(c, ast.Call) and isinstance(c.func, ast.Attribute) and c.func.attr == 'localise']

    def loc_role(a: ast.AST) -> str:
        if isinstance(a, ast.Name):
            return 'pos' if a.id == co_origin else ('orient' if a.id == co_orient else '?')
        if isinstance(a, ast.Attribute) and isinstance(a.value, ast.Name):
            return 'pos' if a.attr == 'pos' else ('orient' if a.attr == 'orient' else '?')
        return '?'
    ctx.shape('C17.N3', len(loc_calls) >= 2, ins, co, f'{len(loc_calls)} localise() calls found in collapse_one and its helpers (world brushes and entity brushes expected)', text='brushes localised: call sites')
    for c in loc_calls:
        roles17 = [loc_role(a) for a in c.args]
        if '?' in roles17 or len(roles17) != 2:
            ctx.shape('C17.N3', False, ins, c, f'arguments of `{U(c)[:60]}` are not recognisably the instance position and orientation', text='brushes localised')
        else:
            ctx.check('C17.N3', roles17 == ['pos', 'orient'], ins, c, f'every copied brush must be localised with (origin, orient); `{U(c)[:60]}` passes {roles17}', text='brushes localised')
    # ---- N8: every text taken from the copied entity goes through the fixup substitution before it is used ------------------------------------
    # "whose $variables are substituted": the per-entity part of collapse_one may read a keyvalue of the copy only inside
    # `<fixup>.substitute(...)`, and in the loop over the keyvalues the substituted text is what every arm works with - also the arm for keys
    # the FGD does not know, which has to store it (the type is unknown, the variables are not).
    ctx.rule('C17.N8', 'keyvalues of a copied entity are read through fixup.substitute(), and the unknown-key arm stores the substituted text', floor=3)
    kv_loops = [n for n in walk_no_nested(co) if isinstance(n, ast.For) and isinstance(n.iter, ast.Call) and isinstance(n.iter.func, ast.Attribute) and n.iter.func.attr == 'items'
                and isinstance(n.iter.func.value, ast.Name) and isinstance(n.target, ast.Tuple) and len(n.target.elts) == 2
                and any(isinstance(c, ast.Call) and isinstance(c.func, ast.Attribute) and c.func.attr == 'fixup_key' for b in n.body for c in ast.walk(b))]
    ctx.shape('C17.N8', len(kv_loops) == 1, ins, co, f'{len(kv_loops)} key-value loops with fixup_key() found in collapse_one (1 expected)', text='key-value loop')
    for kl in kv_loops:
        ent_var = kl.iter.func.value.id
        key_var, val_var = (e.id if isinstance(e, ast.Name) else '?' for e in kl.target.elts)
        outer = ins.parents.get(kl)
        scope_body = getattr(outer, 'body', [])
        # a pre-pass `for k, v in <copy>.items(): <copy>[k] = <fixup>.substitute(v, ...)` in front of everything else substitutes every keyvalue
        # in place; what follows then works on substituted text - and must not substitute it again (the table is applied ONCE: a fixup value
        # that itself contains `$word` would have that word replaced or blanked by the second pass)
        prepass = None
        for st in scope_body:
            if st is kl:
                break
            if isinstance(st, ast.For) and isinstance(st.iter, ast.Call) and isinstance(st.iter.func, ast.Attribute) and st.iter.func.attr == 'items' and dotted(st.iter.func.value) == ent_var \
                    and isinstance(st.target, ast.Tuple) and len(st.target.elts) == 2 and all(isinstance(e, ast.Name) for e in st.target.elts):
                pk, pv = st.target.elts[0].id, st.target.elts[1].id
                if any(isinstance(a, ast.Assign) and any(isinstance(t, ast.Subscript) and dotted(t.value) == ent_var and dotted(t.slice) == pk for t in a.targets) and isinstance(a.value, ast.Call)
                       and isinstance(a.value.func, ast.Attribute) and a.value.func.attr == 'substitute' and a.value.args and dotted(a.value.args[0]) == pv for b in st.body for a in ast.walk(b)):
                    prepass = st
        if prepass is not None:
            again = [c for st in scope_body if st is not prepass and getattr(st, 'lineno', 0) > prepass.lineno for c in ast.walk(st)
                     if isinstance(c, ast.Call) and isinstance(c.func, ast.Attribute) and c.func.attr == 'substitute' and c.args
                     and (dotted(c.args[0]) == val_var or (isinstance(c.args[0], ast.Subscript) and dotted(c.args[0].value) == ent_var))]
            ctx.check('C17.N8', not again, ins, again[0] if again else prepass, f'the keyvalues of the copy are substituted in place by the loop at line {prepass.lineno} and then once more by `{U(again[0])[:60] if again else ""}`: '
                      'the fixup table is applied a single time - a fixup value that itself contains `$word` loses or changes that word in a second pass', text='keyvalues substituted once')
        # (a) reads of the copy's keyvalues in the same per-entity block
        for st in scope_body:
            for r in ast.walk(st):
                if isinstance(r, ast.Subscript) and isinstance(r.ctx, ast.Load) and isinstance(r.value, ast.Name) and r.value.id == ent_var and isinstance(r.slice, ast.Constant) and isinstance(r.slice.value, str):
                    if r.slice.value.casefold() in ('classname',):
                        continue            # decides which definition is used, before any fix-up
                    if prepass is not None and r.lineno > prepass.lineno:
                        continue            # already substituted in place
                    wrapped = any(isinstance(a, ast.Call) and isinstance(a.func, ast.Attribute) and a.func.attr == 'substitute' for a in _anc17(ins, r, outer))
                    ctx.check('C17.N8', wrapped, ins, r, f'collapse_one computes with the raw template text `{U(r)}`: a $variable in that keyvalue is never replaced (an unparsable text silently becomes the default - '
                              f'`"{r.slice.value}" "$var"` ends up as zero)', text=f'`{U(r)}` read through substitute()')
        # (b) the loop variable holding the text is replaced by its substitution before anything else looks at it
        first_sub = next((i for i, b in enumerate(kl.body) if isinstance(b, ast.Assign) and isinstance(b.value, ast.Call) and isinstance(b.value.func, ast.Attribute) and b.value.func.attr == 'substitute'
                          and any(isinstance(t, ast.Name) and t.id == val_var for t in b.targets) and any(isinstance(x, ast.Name) and x.id == val_var for a in b.value.args for x in ast.walk(a))), None)
        early_use = first_sub is None or any(isinstance(x, ast.Name) and x.id == val_var for b in kl.body[:first_sub] for x in ast.walk(b))
        if prepass is None:
            ctx.check('C17.N8', not early_use, ins, kl, f'the key-value loop uses `{val_var}` before (or without) replacing it by `substitute({val_var})`', text='loop value substituted first')
        # (c) the arm for keys unknown to the FGD
        for tr in [t for b in kl.body for t in ast.walk(b) if isinstance(t, ast.Try)]:
            if not any(isinstance(x, ast.Subscript) and isinstance(x.value, ast.Attribute) and x.value.attr == 'kv' for b in tr.body for x in ast.walk(b)):
                continue
            for h in tr.handlers:
                if dotted(h.type) != 'KeyError':
                    continue
                stores = [a for hb in h.body for a in ast.walk(hb) if isinstance(a, ast.Assign) and any(isinstance(t, ast.Subscript) and isinstance(t.value, ast.Name) and t.value.id == ent_var and dotted(t.slice) == key_var for t in a.targets)
                          and dotted(a.value) == val_var]

                def is_pseudo(t_: ast.AST) -> bool:
                    # the `$`-prefixed pseudo keys Hammer adds to func_instance (the one documented way past the store)
                    return any(isinstance(c_, ast.Call) and isinstance(c_.func, ast.Attribute) and c_.func.attr == 'startswith' and c_.args and isinstance(c_.args[0], ast.Constant) and c_.args[0].value == '$' for c_ in ast.walk(t_))
                # ... on every path: every test that decides whether the store runs is that pseudo-key test - tests enclosing the store, and
                # tests under which the arm is left before it
                if stores:
                    st0 = stores[0]
                    deciding: List[Tuple[ast.AST, ast.AST]] = [(a_.test, a_) for a_ in _anc17(ins, st0, h) if isinstance(a_, ast.If)]
                    top0 = next(hb for hb in h.body if st0 is hb or any(st0 is x for x in ast.walk(hb)))
                    for pre in h.body[:h.body.index(top0)]:
                        for leave in [x for x in ast.walk(pre) if isinstance(x, (ast.Continue, ast.Return, ast.Break))]:
                            guard_ = next((a_ for a_ in _anc17(ins, leave, h) if isinstance(a_, ast.If)), None)
                            deciding.append((guard_.test if guard_ is not None else ast.Constant(value=True), leave))
                    for t_, at_ in deciding:
                        ctx.check('C17.N8', is_pseudo(t_), ins, at_, f'whether the arm for keys unknown to the FGD stores the substituted text depends on `{U(t_)[:60]}`: with the warn-once set that is whether the same '
                                  '(class, key) was seen earlier in the process, so a `$variable` in such a key is replaced the first time only', text='unknown keys: stored on every path')
                ctx.check('C17.N8', bool(stores), ins, h, f'a keyvalue the entity definition does not list is skipped without storing the substituted text: `"{{key}}" "$var"` keeps the literal `$var` in the collapsed map',
                          text='unknown keys keep the substituted text')

    # ---- N9: the classname table that decides "name or class" keyvalues is independent of the maps involved -----------------------------------
    # "collapsing ... in any order and at any placement gives results that differ only by that placement": fixup_key leaves a
    # TARGET_NAME_OR_CLASS value alone iff it is in the table it is given.  A table read from the target map (or the template) makes
    # that depend on what was collapsed or placed there before.
    ctx.rule('C17.N9', 'the classname table collapse_one hands to fixup_key is not derived from the target map, the instance or the template', floor=1)
    map_params = [a.arg for a in co.args.args[:3]]
    fk_calls = [c for c in ast.walk(co) if isinstance(c, ast.Call) and isinstance(c.func, ast.Attribute) and c.func.attr == 'fixup_key']
    ctx.shape('C17.N9', bool(fk_calls) and len(map_params) == 3, ins, co, 'no fixup_key() call in collapse_one', text='fixup_key call')
    local_defs: Dict[str, List[ast.AST]] = {}
    for n in ast.walk(co):
        if isinstance(n, ast.Assign):
            for t in n.targets:
                if isinstance(t, ast.Name):
                    local_defs.setdefault(t.id, []).append(n.value)
        elif isinstance(n, (ast.AnnAssign, ast.NamedExpr)) and isinstance(n.target, ast.Name) and n.value is not None:
            local_defs.setdefault(n.target.id, []).append(n.value)

    def _reads_maps(e: ast.AST, seen: Set[str]) -> Optional[str]:
        for x in ast.walk(e):
            if isinstance(x, ast.Name) and isinstance(x.ctx, ast.Load):
                if x.id in map_params:
                    return U(e)[:60]
                if x.id in local_defs and x.id not in seen:
                    for d in local_defs[x.id]:
                        r_ = _reads_maps(d, seen | {x.id})
                        if r_:
                            return f'{x.id} = {r_}'
        return None
    for c in fk_calls:
        arg = c.args[1] if len(c.args) >= 2 else next((k.value for k in c.keywords if k.arg == 'classnames'), None)
        if arg is None or any(isinstance(a, ast.Starred) for a in c.args):
            ctx.shape('C17.N9', False, ins, c, f'classnames argument of `{U(c)[:60]}` not found', text='fixup_key classnames argument')
            continue
        src_ = _reads_maps(arg, set())
        ctx.check('C17.N9', src_ is None, ins, c, f'the table of known classnames given to fixup_key (`{U(arg)[:50]}`) is computed from collapse_one\'s own maps (`{src_}`): whether a name-or-class value is renamed '
                  'then depends on which entities the map already holds, i.e. on earlier collapses and their order', text='classname table independent of the maps')

    # ---- N10: $variables are looked up by their casefolded name ---------------------------------------------------------------------------------
    # EntityFixup stores its table under casefolded names and the variable pattern is compiled with IGNORECASE: what the pattern matched keeps
    # the template's own capitals.  Every lookup in the table made by substitute() (and its replacer) therefore folds the name first.
    ctx.rule('C17.N10', 'EntityFixup.substitute looks a matched variable up under its casefolded name', floor=1)
    vm17 = prog.module('vmf')
    sub17 = vm17.func('EntityFixup.substitute')
    tabs17 = {'self._fixup'} | {t.id for a in ast.walk(sub17) if isinstance(a, ast.Assign) and dotted(a.value) == 'self._fixup' for t in a.targets if isinstance(t, ast.Name)}
    defs17: Dict[str, List[ast.AST]] = {}
    for a in ast.walk(sub17):
        if isinstance(a, ast.Assign):
            for t in a.targets:
                if isinstance(t, ast.Name):
                    defs17.setdefault(t.id, []).append(a.value)
    def _folded17(e: ast.AST, depth: int = 0) -> bool:
        if isinstance(e, ast.Call) and isinstance(e.func, ast.Attribute) and e.func.attr == 'casefold':
            return True
        if isinstance(e, ast.Name) and e.id in defs17 and depth < 3:
            return all(_folded17(d, depth + 1) for d in defs17[e.id])
        return False
    n_look = 0
    for x in ast.walk(sub17):
        key = None
        if isinstance(x, ast.Subscript) and (dotted(x.value) or '') in tabs17 and isinstance(x.ctx, ast.Load):
            key = x.slice
        elif isinstance(x, ast.Call) and isinstance(x.func, ast.Attribute) and x.func.attr in ('get', 'pop') and (dotted(x.func.value) or '') in tabs17 and x.args:
            key = x.args[0]
        elif isinstance(x, ast.Compare) and len(x.ops) == 1 and isinstance(x.ops[0], (ast.In, ast.NotIn)) and (dotted(x.comparators[0]) or '') in tabs17:
            key = x.left
        if key is None:
            continue
        n_look += 1
        if not _folded17(key):
            # only what demonstrably is the matched text (or a literal-free expression of it) is a violation; a name of unknown origin
            # (a parameter, a loop variable) is not judged
            raw17 = {e.id for a in ast.walk(sub17) if isinstance(a, ast.Assign) and isinstance(a.value, (ast.Call, ast.Subscript)) and
                     ((isinstance(a.value, ast.Call) and isinstance(a.value.func, ast.Attribute) and a.value.func.attr in ('groups', 'group')) or isinstance(a.value, ast.Subscript))
                     for t in a.targets for e in ast.walk(t) if isinstance(e, ast.Name)}
            roots17 = {y.id for y in ast.walk(key) if isinstance(y, ast.Name)}
            if not (roots17 and roots17 <= raw17 | set(defs17)):
                ctx.shape('C17.N10', False, vm17, x, f'where the key `{U(key)[:30]}` of the lookup `{U(x)[:40]}` comes from was not recognised', func='EntityFixup.substitute', text=f'lookup `{U(x)[:40]}` by casefolded name')
                continue
        ctx.check('C17.N10', _folded17(key), vm17, x, f'EntityFixup.substitute looks `{U(key)[:30]}` up in the fixup table as matched: the table is keyed by casefolded names and the pattern ignores case, so `$Skin` in a template '
                  'finds nothing for the variable `skin` and is replaced by the default (or raises)', func='EntityFixup.substitute', text=f'lookup `{U(x)[:40]}` by casefolded name')
    ctx.shape('C17.N10', n_look >= 1, vm17, sub17, 'no lookup in the fixup table found in EntityFixup.substitute', func='EntityFixup.substitute', text='table lookups in substitute()')
    # ---- N11: replace values of a nested instance are renamed only when they can be names ---------------------------------------------------------
    # collapse_one renames the $replace values of a func_instance inside the instance ("Valve's logic": anything that does not look like a
    # number is taken for an entity name).  A value starting with a digit, `-` or `.` is a number or a vector: renaming it (`outer--64 0 16`)
    # hands garbage to the nested instance.  The guard is evaluated for each of those first characters.
    ctx.rule('C17.N11', 'nested-instance fixup values starting with a digit, "-" or "." are not renamed', floor=12)
    ren = [a for a in walk_no_nested(co) if isinstance(a, ast.Assign) and isinstance(a.targets[0], ast.Subscript) and (dotted(a.targets[0].value) or '').endswith('.fixup')
           and isinstance(a.value, ast.Call) and isinstance(a.value.func, ast.Attribute) and a.value.func.attr == 'fixup_name']
    ctx.shape('C17.N11', len(ren) == 1 and len(ren[0].value.args) == 1 and isinstance(ren[0].value.args[0], ast.Name), ins, co, 'the renaming of nested-instance fixup values (`<ent>.fixup[key] = inst.fixup_name(value)`) was not found once',
              func='collapse_one', text='nested fixup renaming')
    if len(ren) == 1 and len(ren[0].value.args) == 1 and isinstance(ren[0].value.args[0], ast.Name):
        vname = ren[0].value.args[0].id
        guards = [a for a in _anc17(ins, ren[0], co) if isinstance(a, ast.If)]
        class _Unknown(Exception):
            pass
        def _ev(t: ast.AST, ch: str) -> Any:
            """Value of a guard expression when `value` is a string starting with `ch` (only the first character is inspected)."""
            if isinstance(t, ast.Name) and t.id == vname:
                return ch + ' 0 0'
            if isinstance(t, ast.Constant):
                return t.value
            if isinstance(t, ast.Name) and t.id != vname:
                # a module-level constant of instancing.py (`_NON_NAME_PREFIXES = '@!-.0123456789'`)
                try:
                    g_ = ins.global_assign(t.id)
                except Exception:
                    g_ = None
                if isinstance(g_, (ast.Constant, ast.Tuple, ast.Call)) and not any(isinstance(a_, (ast.Assign, ast.AugAssign)) and any(isinstance(x_, ast.Name) and x_.id == t.id and isinstance(x_.ctx, ast.Store) for x_ in ast.walk(a_)) for a_ in ast.walk(co)):
                    return _ev(g_, ch)
                raise _Unknown(U(t))
            if isinstance(t, ast.Subscript) and isinstance(t.value, ast.Name) and t.value.id == vname:
                if isinstance(t.slice, ast.Constant) and t.slice.value == 0:
                    return ch
                if isinstance(t.slice, ast.Slice) and t.slice.lower is None and isinstance(t.slice.upper, ast.Constant) and t.slice.upper.value == 1 and t.slice.step is None:
                    return ch
                raise _Unknown(U(t))
            if isinstance(t, ast.UnaryOp) and isinstance(t.op, ast.Not):
                return not _ev(t.operand, ch)
            if isinstance(t, ast.BoolOp):
                vals = [_ev(v, ch) for v in t.values]
                return all(vals) if isinstance(t.op, ast.And) else any(vals)
            if isinstance(t, ast.Compare) and len(t.ops) == 1:
                l_, r_ = _ev(t.left, ch), _ev(t.comparators[0], ch)
                op = t.ops[0]
                if isinstance(op, ast.In):
                    return l_ in r_
                if isinstance(op, ast.NotIn):
                    return l_ not in r_
                if isinstance(op, ast.Eq):
                    return l_ == r_
                if isinstance(op, ast.NotEq):
                    return l_ != r_
                raise _Unknown(U(t))
            if isinstance(t, (ast.Tuple, ast.List, ast.Set)):
                return tuple(_ev(e, ch) for e in t.elts)
            if isinstance(t, ast.Call) and isinstance(t.func, ast.Name) and t.func.id in ('tuple', 'frozenset', 'set', 'list') and len(t.args) == 1 and not t.keywords:
                inner_ = _ev(t.args[0], ch)
                if isinstance(inner_, (str, tuple)):
                    return tuple(inner_)
                raise _Unknown(U(t))
            if isinstance(t, ast.Call) and isinstance(t.func, ast.Attribute) and not t.keywords:
                recv = _ev(t.func.value, ch)
                args = [_ev(a_, ch) for a_ in t.args]
                if isinstance(recv, str) and t.func.attr in ('isdigit', 'isdecimal', 'isnumeric', 'isalpha', 'isalnum', 'isidentifier') and not args and len(recv) == 1:
                    return getattr(recv, t.func.attr)()
                if isinstance(recv, str) and t.func.attr == 'startswith' and len(args) == 1 and (isinstance(args[0], str) and len(args[0]) == 1 or isinstance(args[0], tuple) and all(isinstance(a_, str) and len(a_) == 1 for a_ in args[0])):
                    return recv.startswith(args[0])
                if isinstance(recv, str) and t.func.attr in ('casefold', 'lower') and not args and len(recv) == 1:
                    return recv.lower()
            raise _Unknown(U(t))
        for ch in '-.0123456789':
            try:
                renamed = all(_ev(g.test, ch) if any(ren[0] is y for b in g.body for y in ast.walk(b)) else not _ev(g.test, ch) for g in guards)
            except _Unknown as exc:
                ctx.shape('C17.N11', False, ins, guards[0] if guards else ren[0], f'the guard of the nested fixup renaming contains `{str(exc)[:50]}`, which is not one of the first-character tests understood here', func='collapse_one',
                          text='nested fixup renaming guard')
                break
            ctx.check('C17.N11', not renamed, ins, guards[0] if guards else ren[0], f'collapse_one renames a nested instance\'s replace value that starts with {ch!r} (guard `{" and ".join(U(g.test)[:60] for g in guards)}`): '
                      f'`{ch} 0 0`-like numbers and vectors become `<prefix>-{ch} 0 0`, and the nested instance substitutes that text into positions and angles', func='collapse_one', text=f'value starting with {ch!r} is left alone')

    # ---- N12: the face-id map handed over to be filled is told from "no map" by identity -----------------------------------------------------
    # collapse_one passes `inst.face_ids` - empty until the first brush has been copied - as side_mapping to every copy() and reads it back to
    # remap side lists.  A copy method that tests the parameter's truth value (`if not side_mapping:`) swaps the still-empty dict for the
    # discard-all default: in a template without world brushes every face id of the brush entities is lost.
    ctx.rule('C17.N12', 'copy methods never test the truth value of their side_mapping parameter', floor=3)
    n12 = 0
    for q12, fl12 in vm17.all_funcs().items():
        for f12 in fl12:
            if 'side_mapping' not in {a.arg for a in f12.args.args + f12.args.kwonlyargs}:
                continue
            n12 += 1
            truthy = []
            for x in walk_no_nested(f12):
                if isinstance(x, (ast.If, ast.IfExp, ast.While)) and (dotted(x.test) == 'side_mapping' or (isinstance(x.test, ast.UnaryOp) and isinstance(x.test.op, ast.Not) and dotted(x.test.operand) == 'side_mapping')):
                    truthy.append(x)
                if isinstance(x, ast.BoolOp) and any(dotted(v) == 'side_mapping' for v in x.values[:-1] if True):
                    truthy.append(x)
                if isinstance(x, ast.UnaryOp) and isinstance(x.op, ast.Not) and dotted(x.operand) == 'side_mapping' and not any(x is getattr(t_, 'test', None) for t_ in walk_no_nested(f12)):
                    truthy.append(x)
            ctx.check('C17.N12', not truthy, vm17, truthy[0] if truthy else f12, f'{q12} decides on the truth value of side_mapping (`{U(truthy[0])[:50] if truthy else ""}`): the map collapse_one hands over is empty until something '
                      'has been copied into it, so it is replaced by the discarding default and the old -> new face ids of this copy are lost (overlay / cubemap side lists come out blank)', func=q12,
                      text=f'{q12}: side_mapping compared with None only')
    ctx.shape('C17.N12', n12 >= 3, vm17, vm17.tree, f'{n12} functions of vmf.py take a side_mapping parameter (Entity.copy, Solid.copy, Side.copy confirmed by hand)', text='side_mapping parameters')
    # ---- N4 (every name is renamed): apart from blank, @global and !special names - and the NONE style - no name comes back unchanged ------------
    fn_n4 = ins.func('Instance.fixup_name')
    prm_n4 = fn_n4.args.args[1].arg
    def _allowed_guard(t: ast.AST) -> bool:
        parts = t.values if isinstance(t, ast.BoolOp) else [t]
        for p_ in parts:
            if isinstance(p_, ast.UnaryOp) and isinstance(p_.op, ast.Not) and dotted(p_.operand) == prm_n4:
                continue
            if isinstance(p_, ast.Call) and isinstance(p_.func, ast.Attribute) and p_.func.attr == 'startswith' and dotted(p_.func.value) == prm_n4 and p_.args and \
                    all(isinstance(e, ast.Constant) for e in (p_.args[0].elts if isinstance(p_.args[0], ast.Tuple) else [p_.args[0]])):
                continue
            if isinstance(p_, ast.Compare) and len(p_.ops) == 1 and isinstance(p_.ops[0], (ast.Is, ast.Eq)) and (dotted(p_.comparators[0]) or '').endswith('FixupStyle.NONE'):
                continue
            return False
        return True
    for r_ in [x for x in walk_no_nested(fn_n4) if isinstance(x, ast.Return) and x.value is not None]:
        alts_ = [r_.value.body, r_.value.orelse] if isinstance(r_.value, ast.IfExp) else [r_.value]
        if not any(dotted(a_) == prm_n4 for a_ in alts_):
            continue
        if isinstance(r_.value, ast.IfExp):
            ok_ = False
            cond_ = U(r_.value.test)
        else:
            guards_ = [a for a in _anc17(ins, r_, fn_n4) if isinstance(a, ast.If)]
            ok_ = bool(guards_) and all(_allowed_guard(g.test) for g in guards_)
            cond_ = ' and '.join(U(g.test)[:40] for g in guards_)
        ctx.check('C17.N4', ok_, ins, r_, f'fixup_name hands the name back unchanged when `{cond_[:70]}`: only blank, @global and !special names (and the NONE style) are exempt from the naming style - a local name that '
                  'happens to carry the instance name already ("lift-door" inside "lift") then collides with the renamed "door"', func='Instance.fixup_name', text=f'unchanged name only for exempt names: `{cond_[:40]}`')
    # ---- N3 (overrides): a `pitch` / `yaw` keyvalue replaces that component of the angles ------------------------------------------------------
    # Hammer's separate pitch and yaw keys override the component in `angles`; collapse_one assigns them (`angles.pitch = ...`) before rotating.
    # An augmented assignment (`angles.yaw += value`) adds the override to the value it is meant to replace.
    ov_ = [a for a in walk_no_nested(co) if isinstance(a, (ast.Assign, ast.AugAssign)) for t in (a.targets if isinstance(a, ast.Assign) else [a.target])
           if isinstance(t, ast.Attribute) and t.attr in ('pitch', 'yaw') and isinstance(t.value, ast.Name)]
    ctx.shape('C17.N3', len(ov_) >= 2, ins, co, f'{len(ov_)} stores into .pitch / .yaw of the entity angles found in collapse_one (one each confirmed by hand)', func='collapse_one', text='pitch / yaw overrides')
    for a in ov_:
        ctx.check('C17.N3', isinstance(a, ast.Assign), ins, a, f'collapse_one applies the override with `{U(a)[:50]}`: the separate key replaces that component of `angles`, an augmented assignment adds it on top - an entity '
                  'with angles "0 35 0" and yaw "40" is rotated from yaw 75 instead of 40', func='collapse_one', text=f'`{U(a)[:30]}` replaces the component')
    # ---- N7: keyvalues are fixed up only after every entity (and so every face) has been copied -------------------------------------------
    # side lists (`sides`) are remapped through inst.face_ids, which the copies fill: the collection the fix-up loop walks has to be complete
    # before the loop starts.  A generator that copies on demand interleaves the two, and an overlay placed before the brush it refers to
    # loses that face.
    ctx.rule('C17.N7', 'the key-value fix-up loop runs over a completed list of copies (no lazy copying)', floor=1)
    copy_loops = [(f_, n) for f_ in scope17 for n in walk_no_nested(f_) if isinstance(n, ast.For) and any(isinstance(c, ast.Call) and isinstance(c.func, ast.Attribute) and c.func.attr == 'copy'
                                                                                                       and any(k.arg == 'side_mapping' for k in c.keywords) for b in n.body for c in ast.walk(b))
                  and (dotted(n.iter) or '').endswith('.entities')]
    ctx.shape('C17.N7', len(copy_loops) == 1, ins, co, f'{len(copy_loops)} entity copy loops found (1 expected)', text='entity copy loop')
    for f_, cl in copy_loops:
        lazy = f_ is not co and any(isinstance(y, (ast.Yield, ast.YieldFrom)) for y in walk_no_nested(f_))
        if f_ is co:
            ctx.check('C17.N7', True, ins, cl, 'the copy loop is a statement of collapse_one: it has finished before the next loop starts', text='copies complete before fix-up')
            continue
        callers = [c for c in walk_no_nested(co) if isinstance(c, ast.Call) and isinstance(c.func, ast.Name) and mod_fns17.get(c.func.id) is f_]
        for c in callers:
            par = ins.parents.get(c)
            materialised = isinstance(par, ast.Call) and dotted(par.func) in ('list', 'tuple', 'sorted') or isinstance(par, ast.Starred)
            ctx.check('C17.N7', not lazy or materialised, ins, c, f'`{U(c)[:60]}` is a generator ({f_.name} yields each copy) and is walked directly by the fix-up loop: entity n is fixed up before entity n+1 has been copied, so '
                      'inst.face_ids / ent_ids are incomplete when side lists and entity references are remapped', text='copies complete before fix-up')
        ctx.shape('C17.N7', bool(callers), ins, cl, f'call of {f_.name} from collapse_one not found', text='copy helper call')
    # a copied brush moved by anything but localise(): the other mover must shift everything localise() shifts by the origin.
    def _moved_by(fn: ast.AST, param: str) -> Set[str]:
        """attributes of self whose update in `fn` depends on `param` (directly, through elements of a loop over them, or a call on them)"""
        out: Set[str] = set()
        loopvar: Dict[str, str] = {}
        for n in ast.walk(fn):
            if isinstance(n, ast.For) and isinstance(n.target, ast.Name) and isinstance(n.iter, ast.Attribute) and dotted(n.iter.value) == 'self':
                loopvar[n.target.id] = n.iter.attr
        def base_attr(e: ast.AST) -> Optional[str]:
            while isinstance(e, (ast.Attribute, ast.Subscript)):
                if isinstance(e, ast.Attribute) and dotted(e.value) == 'self':
                    return e.attr
                e = e.value
            if isinstance(e, ast.Name) and e.id in loopvar:
                return loopvar[e.id]
            return None
        def uses(e: Optional[ast.AST]) -> bool:
            return e is not None and any(isinstance(x, ast.Name) and x.id == param for x in ast.walk(e))
        for n in ast.walk(fn):
            if isinstance(n, ast.Assign) and uses(n.value):
                for t in n.targets:
                    b = base_attr(t)
                    if b:
                        out.add(b)
            elif isinstance(n, ast.AugAssign) and uses(n.value):
                b = base_attr(n.target)
                if b:
                    out.add(b)
            elif isinstance(n, ast.Expr) and isinstance(n.value, ast.Call) and isinstance(n.value.func, ast.Attribute) and any(uses(a) for a in n.value.args):
                b = base_attr(n.value.func.value)
                if b:
                    out.add(b)
        return out
    side_loc = vm.func('Side.localise')
    need = _moved_by(side_loc, side_loc.args.args[1].arg)
    ctx.shape('C17.N3', {'planes', 'uaxis', 'vaxis', 'disp_pos'} <= need, vm, side_loc, f'Side.localise shifts planes, both texture axes and the displacement start position by the origin (found {sorted(need)})', text='Side.localise shifted fields')
    brush_vars = {t.id for n in ast.walk(co) if isinstance(n, ast.Assign) and isinstance(n.value, ast.Call) and isinstance(n.value.func, ast.Attribute) and n.value.func.attr == 'copy' for t in n.targets if isinstance(t, ast.Name)}
    brush_vars |= {e.id for n in ast.walk(co) if isinstance(n, ast.For) and 'solids' in U(n.iter) for e in ast.walk(n.target) if isinstance(e, ast.Name)}
    for c in walk_no_nested(co):
        if isinstance(c, ast.Call) and isinstance(c.func, ast.Attribute) and isinstance(c.func.value, ast.Name) and c.func.value.id in brush_vars and c.func.attr not in ('localise', 'copy', 'add', 'append') \
                and vm.has_func('Solid.' + c.func.attr) and vm.has_func('Side.' + c.func.attr) and any(dotted(a) == 'origin' for a in c.args):
            other = vm.func('Side.' + c.func.attr)
            got = _moved_by(other, other.args.args[1].arg)
            missing = sorted(need - got)
            ctx.check('C17.N3', not missing, ins, c, f'collapse_one moves a copied brush with {c.func.attr}() instead of localise(): Side.{c.func.attr} shifts {sorted(got)} but not {missing}, which Side.localise moves by the '
                      'origin - a displacement keeps the template\'s start position while its face moves', text=f'brush moved by {c.func.attr}(): same fields as localise')
    # Vec.localise: rotate (mat._vec_rot(self)) then translate (self += origin)
    vl = mt.func('VecBase.localise') if mt.has_func('VecBase.localise') else mt.func('Vec.localise')
    rot_line = add_line = None
    for n in walk_no_nested(vl):
        if isinstance(n, ast.Call) and isinstance(n.func, ast.Attribute) and n.func.attr == '_vec_rot' and n.args and dotted(n.args[0]) == 'self':
            rot_line = n.lineno
        if isinstance(n, ast.Call) and dotted(n.func) == 'self.__iadd__' and n.args and dotted(n.args[0]) == 'origin':
            add_line = n.lineno
        if isinstance(n, ast.AugAssign) and isinstance(n.op, ast.Add) and dotted(n.target) == 'self' and dotted(n.value) == 'origin':
            add_line = n.lineno
    ctx.check('C17.N3', rot_line is not None and add_line is not None and rot_line < add_line, mt, vl, 'Vec.localise must rotate first and then add the origin', text='Vec.localise order')
    sl = vm.func('Side.localise')
    src = U(sl)
    # what happens to each transformed member: (attribute, operation)
    ops: Dict[str, Set[str]] = {}
    for n in ast.walk(sl):
        if isinstance(n, ast.Call) and isinstance(n.func, ast.Attribute) and n.func.attr == 'localise':
            tgt = n.func.value
            nm = tgt.attr if isinstance(tgt, ast.Attribute) else ('planes' if isinstance(tgt, ast.Name) else U(tgt))
            ops.setdefault(nm, set()).add('localise(' + ', '.join(dotted(a) or '?' for a in n.args) + ')')
        if isinstance(n, ast.AugAssign) and isinstance(n.target, ast.Attribute):
            recv = n.target.value
            if isinstance(recv, ast.Attribute) and dotted(recv.value) == 'self' and recv.attr in ('uaxis', 'vaxis'):
                continue          # a texture axis updated in place: the inline form, examined below
            ops.setdefault(n.target.attr, set()).add({ast.MatMult: '@=', ast.Add: '+=', ast.Sub: '-='}.get(type(n.op), '?=') + ' ' + (dotted(n.value) or '?'))
    # the rotation local of Side.localise: assigned from to_matrix(<angles parameter>)
    sl_or = sorted({t.id for a in walk_no_nested(sl) if isinstance(a, ast.Assign) and isinstance(a.value, ast.Call) and dotted(a.value.func) == 'to_matrix' for t in a.targets if isinstance(t, ast.Name)})
    sl_orient = sl_or[0] if len(sl_or) == 1 else 'orient'
    sl_origin = sl.args.args[1].arg if len(sl.args.args) > 1 else 'origin'
    expect = {'planes': f'localise({sl_origin}, {sl_orient})', 'uaxis': f'localise({sl_origin}, {sl_orient})', 'vaxis': f'localise({sl_origin}, {sl_orient})', 'disp_pos': f'localise({sl_origin}, {sl_orient})',
              'offset': f'@= {sl_orient}', 'normal': f'@= {sl_orient}', 'offset_norm': f'@= {sl_orient}'}
    expect_axis = f'localise({sl_origin}, {sl_orient})'
    # the inline form of the axis update (what UVAxis.localise does, written out on the axis object): per axis A
    #     <r> = self.A.vec() @ <orient>;  self.A.x, self.A.y, self.A.z = <r>;  self.A.offset -= <r>.dot(origin) / self.A.scale
    # every quantity in the shift of A belongs to A - the sibling's scale or rotated vector slides the texture by a placement-dependent amount
    for ax in ('uaxis', 'vaxis'):
        if ops.get(ax):
            continue
        shifts = [n for n in ast.walk(sl) if isinstance(n, ast.AugAssign) and isinstance(n.op, ast.Sub) and dotted(n.target) == f'self.{ax}.offset']
        rots = {t.id: a for a in walk_no_nested(sl) if isinstance(a, ast.Assign) and isinstance(a.value, ast.BinOp) and isinstance(a.value.op, ast.MatMult) and U(a.value.left) == f'self.{ax}.vec()'
                and dotted(a.value.right) == sl_orient for t in a.targets if isinstance(t, ast.Name)}
        comp = [a for a in walk_no_nested(sl) if isinstance(a, ast.Assign) and isinstance(a.targets[0], ast.Tuple) and [dotted(t) for t in a.targets[0].elts] == [f'self.{ax}.x', f'self.{ax}.y', f'self.{ax}.z']
                and isinstance(a.value, ast.Name) and a.value.id in rots]
        if len(shifts) != 1 or len(rots) != 1 or len(comp) != 1:
            continue          # not the inline form either: the shape report below declines
        sh, rv_ = shifts[0], next(iter(rots))
        other = 'vaxis' if ax == 'uaxis' else 'uaxis'
        other_rots = {t.id for a in walk_no_nested(sl) if isinstance(a, ast.Assign) and isinstance(a.value, ast.BinOp) and U(a.value.left) == f'self.{other}.vec()' for t in a.targets if isinstance(t, ast.Name)}
        foreign = [x for x in ast.walk(sh.value) if (isinstance(x, ast.Attribute) and dotted(x.value) == f'self.{other}') or (isinstance(x, ast.Name) and x.id in other_rots)]
        well_formed = isinstance(sh.value, ast.BinOp) and isinstance(sh.value.op, ast.Div) and any(isinstance(x, ast.Name) and x.id == rv_ for x in ast.walk(sh.value.left)) \
            and any(isinstance(x, ast.Name) and x.id == sl_origin for x in ast.walk(sh.value.left))
        if foreign:
            ctx.check('C17.N3', False, vm, sh, f'Side.localise shifts the offset of {ax} by `{U(sh.value)[:70]}`, which uses `{U(foreign[0])}` - a quantity of the other texture axis: on a face whose two scales differ the texture slides '
                      'along this axis by an amount that depends on where the instance is placed', text=f'Side.localise {ax}')
        elif well_formed and dotted(sh.value.right) == f'self.{ax}.scale':
            ctx.check('C17.N3', True, vm, sh, 'inline axis update', text=f'Side.localise {ax}')
            ops[ax] = {expect_axis}
        else:
            ctx.shape('C17.N3', False, vm, sh, f'inline update of {ax} (`{U(sh)[:60]}`) not recognised', text=f'Side.localise {ax}')
            ops[ax] = {expect_axis}
        if foreign:
            ops[ax] = {expect_axis}
    for nm, want in expect.items():
        got = ops.get(nm, set())
        kind = 'by rotation only (it is a direction)' if want.startswith('@=') else 'with rotation and translation'
        if nm in ('uaxis', 'vaxis') and got == {expect_axis} and want == expect_axis:
            if not any(isinstance(n, ast.Call) and isinstance(n.func, ast.Attribute) and n.func.attr == 'localise' and U(n.func.value) == f'self.{nm}' for n in ast.walk(sl)):
                continue          # inline form, already judged above
        if not got:
            ctx.shape('C17.N3', False, vm, sl, f'no transformation of {nm} found in Side.localise', text=f'Side.localise {nm}')
        else:
            ctx.check('C17.N3', got == {want}, vm, sl, f'Side.localise applies {sorted(got)} to {nm}; it must be transformed {kind}: `{want}`', text=f'Side.localise {nm}')
    ul = vm.func('UVAxis.localise')
    src = U(ul)
    rot_vars = {t.id for n in walk_no_nested(ul) if isinstance(n, ast.Assign) and isinstance(n.value, ast.BinOp) and isinstance(n.value.op, ast.MatMult) and 'self.vec()' in U(n.value.left)
                and dotted(n.value.right) == 'angles' for t in n.targets if isinstance(t, ast.Name)}
    ctors = [c for c in walk_no_nested(ul) if isinstance(c, ast.Call) and dotted(c.func) == 'UVAxis' and len(c.args) >= 4]
    ctx.shape('C17.N3', len(rot_vars) == 1 and len(ctors) >= 1, vm, ul, 'UVAxis.localise: `<v> = self.vec() @ angles` and `UVAxis(x, y, z, offset, scale)` found', text='UVAxis.localise')
    if len(rot_vars) == 1 and ctors:
        rv = next(iter(rot_vars))

        def is_shift(e: ast.AST) -> bool:
            # self.offset - <rv>.dot(origin) / self.scale
            return (isinstance(e, ast.BinOp) and isinstance(e.op, ast.Sub) and dotted(e.left) == 'self.offset' and isinstance(e.right, ast.BinOp) and isinstance(e.right.op, ast.Div)
                    and dotted(e.right.right) == 'self.scale' and isinstance(e.right.left, ast.Call) and dotted(e.right.left.func) == f'{rv}.dot' and [dotted(a) for a in e.right.left.args] == ['origin'])

        def zero_scale_only(node: ast.AST) -> bool:
            """the statement runs only when self.scale == 0 (the one case where the shift cannot be computed)"""
            par = vm.parents.get(node)
            if not isinstance(par, ast.If):
                return False
            t = par.test
            in_body = any(node is b for b in par.body)
            ts = U(t)
            if in_body:
                return ts in ('self.scale == 0', 'self.scale == 0.0', 'not self.scale')
            return ts in ('self.scale != 0', 'self.scale != 0.0', 'self.scale')
        for c in ctors:
            off = c.args[3]
            vals = [(off, c)]
            if isinstance(off, ast.Name):
                vals = [(n.value, n) for n in walk_no_nested(ul) if isinstance(n, ast.Assign) and any(isinstance(t, ast.Name) and t.id == off.id for t in n.targets)]
            ctx.shape('C17.N3', bool(vals), vm, c, 'offset argument of the new UVAxis has a definition', text='UVAxis.localise offset defined')
            for v, st in vals:
                loc_origin = {t.id for n in walk_no_nested(ul) if isinstance(n, ast.Assign) and any(isinstance(x, ast.Name) and x.id == 'origin' for x in ast.walk(n.value)) for t in n.targets if isinstance(t, ast.Name)}
                uses_origin = any(isinstance(x, ast.Name) and (x.id == 'origin' or x.id in loc_origin) for x in ast.walk(v))
                if uses_origin and not is_shift(v):
                    ctx.shape('C17.N3', False, vm, v, f'offset formula `{U(v)[:70]}` is not the enumerated `self.offset - <axis>.dot(origin) / self.scale`', text='UVAxis.localise offset shift')
                    continue
                ok = is_shift(v) or zero_scale_only(st)
                ctx.check('C17.N3', ok, vm, v, f'UVAxis.localise: the new offset is `{U(v)[:70]}`' + (f' under `{U(vm.parents[st].test)}`' if isinstance(vm.parents.get(st), ast.If) else '')
                          + '; texture lock needs offset - (rotated axis . origin) / scale for every non-zero scale (negative scales are mirrored textures, not errors)', text='UVAxis.localise offset shift')
            ctx.check('C17.N3', U(c.args[0]) == f'{rv}.x' and U(c.args[1]) == f'{rv}.y' and U(c.args[2]) == f'{rv}.z' and len(c.args) >= 5 and dotted(c.args[4]) == 'self.scale', vm, c,
                      'the localised UVAxis must take the rotated axis and keep the scale', text='UVAxis.localise axis and scale')
    so = vm.func('Solid.localise')
    ok = any(isinstance(c, ast.Call) and isinstance(c.func, ast.Attribute) and c.func.attr == 'localise' and [dotted(a) for a in c.args] == ['origin', 'angles'] for c in walk_no_nested(so))
    ctx.check('C17.N3', ok, vm, so, 'Solid.localise must localise every side with the same origin and orientation', text='Solid.localise')
    # ---- N4 (order): $variables are expanded first, the naming style is decided on the expanded text ----------------------------
    # fixup_name exempts '@' / '!' / empty names; a target written as `$target` only shows which of these it is after substitution.
    n_sub = 0
    for c in ast.walk(co):
        if isinstance(c, ast.Call) and isinstance(c.func, ast.Attribute) and c.func.attr == 'substitute':
            n_sub += 1
            inner = [x for a in c.args for x in ast.walk(a) if isinstance(x, ast.Call) and isinstance(x.func, ast.Attribute) and x.func.attr in ('fixup_name', 'fixup_key')]
            ctx.check('C17.N4', not inner, ins, c, f'`{U(c)[:90]}` expands $variables in a name that already went through {inner[0].func.attr if inner else "fixup_name"}(): whether the name is global (@), '
                      'special (!) or empty is then decided on the literal `$var` text, so `$target` = `@door` becomes `inst-@door`', func='collapse_one', text='substitute before the naming style')
    for a in ast.walk(co):
        if isinstance(a, ast.Assign) and any(isinstance(t, ast.Attribute) and t.attr == 'target' for t in a.targets):
            v = a.value
            outer_is_name = isinstance(v, ast.Call) and isinstance(v.func, ast.Attribute) and v.func.attr == 'fixup_name'
            has_sub = any(isinstance(x, ast.Call) and isinstance(x.func, ast.Attribute) and x.func.attr == 'substitute' for x in ast.walk(v))
            if has_sub or outer_is_name:
                ctx.check('C17.N4', outer_is_name and has_sub, ins, a, f'output targets must be `fixup_name(substitute(target))`; found `{U(v)[:80]}`', func='collapse_one', text='output target: substitute, then style')
    if n_sub < 2:
        raise AnalysisError(f'collapse_one: only {n_sub} substitute() calls found (keyvalues and output targets confirmed by hand)')
    # ---- N4 --------------------------------------------------------------------------------------------
    fn = ins.func('Instance.fixup_name')
    tbl = Folder(prog, ins).enum_table('FixupStyle')
    members = {m.name for m in tbl}
    handled = set()
    style_names = {'self.fixup_type'} | {t.id for a in walk_no_nested(fn) if isinstance(a, ast.Assign) and dotted(a.value) == 'self.fixup_type' for t in a.targets if isinstance(t, ast.Name)}
    for n in walk_no_nested(fn):
        if isinstance(n, ast.Compare) and dotted(n.left) in style_names and isinstance(n.ops[0], (ast.Is, ast.Eq)):
            d = dotted(n.comparators[0]) or ''
            if d.startswith('FixupStyle.'):
                handled.add(d.split('.')[-1])
    for m in sorted(members):
        ctx.check('C17.N4', m in handled, ins, fn, f'fixup_name has no branch for FixupStyle.{m}', text=f'FixupStyle.{m} handled')
    first = [s for s in fn.body if not (isinstance(s, ast.Expr) and isinstance(s.value, ast.Constant))][0]
    guards = [st for st in fn.body if isinstance(st, ast.If) and isinstance(st.body[0], ast.Return) and dotted(st.body[0].value) == 'name']
    prefixes: Set[str] = set()
    for g in guards:
        for c in ast.walk(g.test):
            if isinstance(c, ast.Call) and isinstance(c.func, ast.Attribute) and c.func.attr == 'startswith' and c.args:
                a = c.args[0]
                prefixes |= {e.value for e in (a.elts if isinstance(a, ast.Tuple) else [a]) if isinstance(e, ast.Constant)}
    if not guards:
        ctx.check('C17.N4', False, ins, fn, "fixup_name has no early return for names that must stay unchanged ('@' and '!' names are global)", text='global names untouched')
    else:
        ctx.check('C17.N4', {'@', '!'} <= prefixes, ins, guards[0], f"fixup_name returns names unchanged only for the prefixes {sorted(prefixes)}: both '@' (global) and '!' (special target) names must be left alone", text='global names untouched')

def root(node: ast.AST) -> Optional[str]:
    while isinstance(node, (ast.Attribute, ast.Subscript)):
        node = node.value
    return node.id if isinstance(node, ast.Name) else None


def n6_substitute(ctx: Any, vm: Any) -> None:
    """Build the regex EntityFixup.substitute compiles for an empty, a one-key and a two-key table (string evaluation of the
    f-string only) and inspect its parse tree: an empty branch matches before the identifier default and eats only the `$`."""
    import re._parser as sre          # type: ignore[import-not-found]
    fn = vm.func('EntityFixup.substitute')
    comp = [c for c in ast.walk(fn) if isinstance(c, ast.Call) and dotted(c.func) == 're.compile' and c.args]
    if len(comp) != 1:
        raise AnalysisError('EntityFixup.substitute: re.compile(<pattern>) not found')
    js = comp[0].args[0]
    src = U(fn)
    defs6: Dict[str, List[ast.AST]] = {}
    for a_ in ast.walk(fn):
        if isinstance(a_, ast.Assign):
            for t_ in a_.targets:
                if isinstance(t_, ast.Name):
                    defs6.setdefault(t_.id, []).append(a_.value)

    def _appended(var: str) -> List[str]:
        # what the joined list contains besides the escaped keys (an appended default pattern)
        return [c.args[0].value for c in ast.walk(fn) if isinstance(c, ast.Call) and isinstance(c.func, ast.Attribute) and c.func.attr == 'append' and dotted(c.func.value) == var and c.args and isinstance(c.args[0], ast.Constant)]

    def _build(e: ast.AST, keys: List[str], depth: int = 0) -> str:
        """The pattern text for a table holding `keys`: literals, f-strings, `+`, single-assignment locals and `'<sep>'.join(<list of escaped keys>)`."""
        if depth > 6:
            raise AnalysisError('EntityFixup.substitute: pattern expression too deep')
        if isinstance(e, ast.Constant) and isinstance(e.value, str):
            return e.value
        if isinstance(e, ast.JoinedStr):
            return ''.join(_build(v.value if isinstance(v, ast.FormattedValue) else v, keys, depth + 1) for v in e.values)
        if isinstance(e, ast.BinOp) and isinstance(e.op, ast.Add):
            return _build(e.left, keys, depth + 1) + _build(e.right, keys, depth + 1)
        if isinstance(e, ast.Name) and len(defs6.get(e.id, [])) == 1:
            return _build(defs6[e.id][0], keys, depth + 1)
        if isinstance(e, ast.Call) and isinstance(e.func, ast.Attribute) and e.func.attr == 'join' and isinstance(e.func.value, ast.Constant) and e.args and isinstance(e.args[0], ast.Name):
            return e.func.value.value.join(list(keys) + _appended(e.args[0].id))
        raise AnalysisError(f'EntityFixup.substitute: pattern piece `{U(e)}` not recognised')
    for label, keys in (('empty table', []), ('one variable', ['x']), ('prefix pair', ['ab', 'a'])):
        pattern = _build(js, list(keys))
        try:
            tree = sre.parse(pattern)
        except Exception as exc:                                             # noqa: BLE001
            ctx.check('C17.N6', False, vm, comp[0], f'{label}: the pattern `{pattern}` does not compile ({exc})', func='EntityFixup.substitute', text=f'variable pattern {label}')
            continue
        empty_branch = False

        def walk(items: Any) -> None:
            nonlocal empty_branch
            for op, av in items:
                if str(op) == 'BRANCH':
                    for br in av[1]:
                        if len(br) == 0:
                            empty_branch = True
                        walk(br)
                elif str(op) == 'SUBPATTERN':
                    walk(av[3])
                elif str(op) in ('MAX_REPEAT', 'MIN_REPEAT'):
                    walk(av[2])
        walk(tree)
        ctx.check('C17.N6', not empty_branch, vm, comp[0], f'{label}: the variable pattern is `{pattern}`: its empty alternative matches first, so `$name` is replaced by the default followed by `name` '
                  '(an instance collapsed without fixups keeps the variable names as text)', func='EntityFixup.substitute', text=f'variable pattern {label}')
    # early outs: the text may be handed back untouched only when it contains no `$` at all - undefined variables still have to be
    # replaced by the default (collapse_one passes ''), also when the instance defines no variables
    prm_ = fn.args.args[1].arg
    n_early = 0
    for r_ in [x for x in ast.walk(fn) if isinstance(x, ast.Return) and isinstance(x.value, ast.Name) and x.value.id == prm_]:
        par_ = vm.parents.get(r_)
        if not isinstance(par_, ast.If) or r_ not in par_.body:
            ctx.shape('C17.N6', False, vm, r_, 'unguarded return of the untouched text', func='EntityFixup.substitute', text='early out only without $')
            continue
        n_early += 1
        t_ = U(par_.test)
        disj_ = par_.test.values if isinstance(par_.test, ast.BoolOp) and isinstance(par_.test.op, ast.Or) else [par_.test]
        def no_dollar(d):
            if isinstance(d, ast.Compare) and len(d.ops) == 1 and isinstance(d.ops[0], ast.NotIn):
                return isinstance(d.left, ast.Constant) and d.left.value == '$' and isinstance(d.comparators[0], ast.Name) and d.comparators[0].id == prm_
            if isinstance(d, ast.UnaryOp) and isinstance(d.op, ast.Not) and isinstance(d.operand, ast.Compare) and len(d.operand.ops) == 1 and isinstance(d.operand.ops[0], ast.In):
                c = d.operand
                return isinstance(c.left, ast.Constant) and c.left.value == '$' and isinstance(c.comparators[0], ast.Name) and c.comparators[0].id == prm_
            return False
        def empty_text(d):
            return isinstance(d, ast.UnaryOp) and isinstance(d.op, ast.Not) and isinstance(d.operand, ast.Name) and d.operand.id == prm_
        others_ = [d for d in disj_ if not no_dollar(d) and not empty_text(d)]
        uses_state = [d for d in others_ if any(isinstance(n, ast.Name) and n.id == 'self' for n in ast.walk(d))]
        ctx.shape('C17.N6', len(others_) == len(uses_state), vm, par_, f'early-out condition `{t_}` is neither the `$`-free test nor a test on the instance state', func='EntityFixup.substitute', text='early out only without $')
        only_dollar = not uses_state
        ctx.check('C17.N6', only_dollar, vm, par_, f'EntityFixup.substitute returns the text unchanged when `{t_}`: apart from "there is no $ in it" nothing justifies that - with an empty fixup table an undefined `$var` '
                  'must still be replaced by the default (collapse_one relies on `substitute(value, \'\')` to blank them)', func='EntityFixup.substitute', text='early out only without $')
    ctx.shape('C17.N6', n_early >= 1, vm, fn, 'the `$`-free early out exists', func='EntityFixup.substitute', text='early out present')
    ctx.shape('C17.N6', 'key=len, reverse=True' in src, vm, fn, 'longer variable names must be tried first (val$varval style references have no delimiter)', func='EntityFixup.substitute', text='longest variable first')


MUTANTS = [
    {'id': 'yaw_override_added', 'file': 'instancing.py', 'find': "            angles.yaw = srctools.conv_float(inst.fixup.substitute(new_ent['yaw'], ''))", 'replace': "            angles.yaw += srctools.conv_float(inst.fixup.substitute(new_ent['yaw'], ''))", 'expect': 'C17.N3', 'note': 'round 13'},
    {'id': 'entity_copy_side_mapping_by_truth', 'file': 'vmf.py', 'find': "        new_solids = [\n            solid.copy(vmf_file=vmf_file, side_mapping=side_mapping)", 'replace': "        side_mapping = side_mapping or EmptyMapping\n        new_solids = [\n            solid.copy(vmf_file=vmf_file, side_mapping=side_mapping)", 'expect': 'C17.N12', 'note': 'round 12'},
    {'id': 'fixup_name_skips_prefixed_names', 'file': 'instancing.py', 'find': "            return f'{self.name}-{name}'", 'replace': "            return name if name.startswith(self.name + '-') else f'{self.name}-{name}'", 'expect': 'C17.N4', 'note': 'round 12'},
    {'id': 'nested_fixup_negative_numbers_renamed', 'file': 'instancing.py', 'find': "            if value and value[0] not in '@!-.0123456789':", 'replace': "            if value and value[0] not in '@!0123456789':", 'expect': 'C17.N11', 'note': 'round 11'},
    {'id': 'substitute_lookup_not_folded', 'file': 'vmf.py', 'find': "                res = fixup[varname.casefold()].value", 'replace': "                res = fixup[varname.lower()].value", 'expect': 'C17.N10', 'note': 'round 11: lower() is not casefold()'},
    {'id': 'auto_instance_names_numbered_per_pass', 'file': 'instancing.py', 'find': "            if not inst.name:\n                auto_inst_count += 1\n                inst.name = f'InstanceAuto{auto_inst_count}'\n", 'replace': "", 'extra': [{'file': 'instancing.py', 'find': "        for inst_ent in instances:\n            inst = Instance.from_entity(inst_ent)", 'replace': "        for auto_ind, unnamed_ent in enumerate([e for e in instances if not e['targetname']], start=1):\n            unnamed_ent['targetname'] = f'InstanceAuto{auto_ind}'\n        for inst_ent in instances:\n            inst = Instance.from_entity(inst_ent)"}], 'expect': 'C17.N2'},
    {'id': 'side_localise_inline_v_offset_by_u_scale', 'file': 'vmf.py', 'find': "        self.uaxis = self.uaxis.localise(origin, orient)\n        self.vaxis = self.vaxis.localise(origin, orient)\n", 'replace': "        u_axis = self.uaxis.vec() @ orient\n        v_axis = self.vaxis.vec() @ orient\n        self.uaxis.x, self.uaxis.y, self.uaxis.z = u_axis\n        self.vaxis.x, self.vaxis.y, self.vaxis.z = v_axis\n        self.uaxis.offset -= Vec.dot(u_axis, origin) / self.uaxis.scale\n        self.vaxis.offset -= Vec.dot(v_axis, origin) / self.uaxis.scale\n", 'expect': 'C17.N3'},
    {'id': 'ok_side_localise_inline', 'file': 'vmf.py', 'find': "        self.uaxis = self.uaxis.localise(origin, orient)\n        self.vaxis = self.vaxis.localise(origin, orient)\n", 'replace': "        u_axis = self.uaxis.vec() @ orient\n        v_axis = self.vaxis.vec() @ orient\n        self.uaxis.x, self.uaxis.y, self.uaxis.z = u_axis\n        self.vaxis.x, self.vaxis.y, self.vaxis.z = v_axis\n        self.uaxis.offset -= Vec.dot(u_axis, origin) / self.uaxis.scale\n        self.vaxis.offset -= Vec.dot(v_axis, origin) / self.vaxis.scale\n", 'expect': None, 'refuse_ok': True, 'note': 'negative control: the axis update written out in place with the right scale'},
    {'id': 'variables_expanded_up_front_and_again', 'file': 'instancing.py', 'find': "        angles = Angle.from_str(inst.fixup.substitute(new_ent['angles'], ''))\n", 'replace': "        for key, value in new_ent.items():\n            if '$' in value and key.casefold() not in ('classname', 'hammerid', 'spawnflags'):\n                new_ent[key] = inst.fixup.substitute(value, '')\n        angles = Angle.from_str(new_ent['angles'])\n", 'extra': [{'file': 'instancing.py', 'find': "            angles.pitch = srctools.conv_float(inst.fixup.substitute(new_ent['pitch'], ''))", 'replace': "            angles.pitch = srctools.conv_float(new_ent['pitch'])"}, {'file': 'instancing.py', 'find': "            angles.yaw = srctools.conv_float(inst.fixup.substitute(new_ent['yaw'], ''))", 'replace': "            angles.yaw = srctools.conv_float(new_ent['yaw'])"}], 'expect': 'C17.N8'},
    {'id': 'ok_variables_expanded_up_front_only', 'file': 'instancing.py', 'find': "        angles = Angle.from_str(inst.fixup.substitute(new_ent['angles'], ''))\n", 'replace': "        for key, value in new_ent.items():\n            if '$' in value and key.casefold() not in ('classname', 'hammerid', 'spawnflags'):\n                new_ent[key] = inst.fixup.substitute(value, '')\n        angles = Angle.from_str(new_ent['angles'])\n", 'extra': [{'file': 'instancing.py', 'find': "            angles.pitch = srctools.conv_float(inst.fixup.substitute(new_ent['pitch'], ''))", 'replace': "            angles.pitch = srctools.conv_float(new_ent['pitch'])"}, {'file': 'instancing.py', 'find': "            angles.yaw = srctools.conv_float(inst.fixup.substitute(new_ent['yaw'], ''))", 'replace': "            angles.yaw = srctools.conv_float(new_ent['yaw'])"}, {'file': 'instancing.py', 'find': "            folded = key.casefold()\n            value = inst.fixup.substitute(value, '')\n", 'replace': "            folded = key.casefold()\n"}], 'expect': None, 'refuse_ok': True, 'note': 'negative control: one substitution pass, done up front'},
    {'id': 'classnames_from_target_map', 'file': 'instancing.py', 'find': "inst.fixup_key(vmf, EntityDef.engine_classes(), kv.type, value)", 'replace': "inst.fixup_key(vmf, vmf.by_class, kv.type, value)", 'expect': 'C17.N9'},
    {'id': 'ok_classnames_via_local', 'file': 'instancing.py', 'find': "    new_ents: list[Entity] = []\n", 'replace': "    new_ents: list[Entity] = []\n    known_classes = EntityDef.engine_classes()\n", 'extra': [{'file': 'instancing.py', 'find': "inst.fixup_key(vmf, EntityDef.engine_classes(), kv.type, value)", 'replace': "inst.fixup_key(vmf, known_classes, kv.type, value)"}], 'expect': None, 'note': 'negative control: the engine table hoisted into a local'},
    {'id': 'unknown_key_skipped_when_already_warned', 'file': 'instancing.py', 'find': "                if (classname, key) not in _UNKNOWN_KV:\n                    LOGGER.warning('Unknown keyvalue {}.{}', classname, key)\n                    _UNKNOWN_KV.add((classname, key))\n                # We don't know the type", 'replace': "                if (classname, key) in _UNKNOWN_KV:\n                    continue\n                LOGGER.warning('Unknown keyvalue {}.{}', classname, key)\n                _UNKNOWN_KV.add((classname, key))\n                # We don't know the type", 'expect': 'C17.N8'},
    {'id': 'fixup_key_blank_early_out', 'file': 'instancing.py', 'find': "        # All three of these types are absolute positions.\n        if type is ValueTypes.VEC or", 'replace': "        if not value:\n            return value\n        # All three of these types are absolute positions.\n        if type is ValueTypes.VEC or", 'expect': 'C17.N3'},
    {'id': 'angles_parsed_from_raw_text', 'file': 'instancing.py', 'find': "        angles = Angle.from_str(inst.fixup.substitute(new_ent['angles'], ''))", 'replace': "        angles = Angle.from_str(new_ent['angles'])", 'expect': 'C17.N8'},
    {'id': 'unknown_key_keeps_variable', 'file': 'instancing.py', 'find': "                # We don't know the type, but variables still need to be substituted.\n                new_ent[key] = value\n", 'replace': "", 'expect': 'C17.N8'},
    {'id': 'origin_computed_before_substitution', 'file': 'instancing.py', 'find': "        angles = Angle.from_str(inst.fixup.substitute(new_ent['angles'], ''))", 'replace': "        ent_pos = Vec.from_str(new_ent['origin']) @ orient + origin\n        angles = Angle.from_str(inst.fixup.substitute(new_ent['angles'], ''))", 'extra': [{'file': 'instancing.py', 'find': "                new_ent['origin'] = str(Vec.from_str(value) @ orient + origin)", 'replace': "                new_ent['origin'] = str(ent_pos)"}], 'expect': 'C17.N8'},
    {'id': 'ok_origin_from_substituted_local', 'file': 'instancing.py', 'find': "                new_ent['origin'] = str(Vec.from_str(value) @ orient + origin)", 'replace': "                ent_pos = Vec.from_str(value) @ orient + origin\n                new_ent['origin'] = str(ent_pos)", 'expect': None},
    {'id': 'class_lookup_prechecked_unfolded', 'file': 'instancing.py', 'find': "            try:\n                ent_type = EntityDef.engine_def(classname)\n            except KeyError:\n", 'replace': "            if classname in EntityDef.engine_classes():\n                ent_type = EntityDef.engine_def(classname)\n            else:\n", 'expect': 'C17.N4'},
    {'id': 'ok_class_lookup_prechecked_folded', 'file': 'instancing.py', 'find': "            try:\n                ent_type = EntityDef.engine_def(classname)\n            except KeyError:\n", 'replace': "            if classname.casefold() in EntityDef.engine_classes():\n                ent_type = EntityDef.engine_def(classname)\n            else:\n", 'expect': None},
    {'id': 'entity_copy_unhides_solids', 'file': 'vmf.py', 'find': "            solid.copy(vmf_file=vmf_file, side_mapping=side_mapping)\n", 'replace': "            solid.copy(vmf_file=vmf_file, side_mapping=side_mapping, keep_vis=keep_vis)\n", 'expect': 'C17.N5'},
    {'id': 'ok_entity_copy_keeps_vis_explicit', 'file': 'vmf.py', 'find': "            solid.copy(vmf_file=vmf_file, side_mapping=side_mapping)\n", 'replace': "            solid.copy(vmf_file=vmf_file, side_mapping=side_mapping, keep_vis=True)\n", 'expect': None},
    {'id': 'substitute_skips_empty_table', 'file': 'vmf.py', 'find': "        if '$' not in text:  # Early out, cannot substitute.", 'replace': "        if '$' not in text or not self._fixup:  # Early out, cannot substitute.", 'expect': 'C17.N6'},
    {'id': 'unrotated_brushes_translated', 'file': 'instancing.py', 'find': "        inst.brush_ids[old_brush.id] = new_brush.id\n        new_brush.localise(origin, orient)\n", 'replace': "        inst.brush_ids[old_brush.id] = new_brush.id\n        if orient == Matrix():\n            new_brush.translate(origin)\n        else:\n            new_brush.localise(origin, orient)\n", 'expect': 'C17.N3'},
    {'id': 'output_target_styled_before_substitution', 'file': 'instancing.py', 'find': "            out.target = inst.fixup_name(inst.fixup.substitute(out.target, ''))", 'replace': "            out.target = inst.fixup.substitute(inst.fixup_name(out.target), '')", 'expect': 'C17.N4'},
    {'id': 'uv_offset_only_for_positive_scale', 'file': 'vmf.py', 'find': "        offset = self.offset - vec.dot(origin) / self.scale\n", 'replace': "        offset = self.offset\n        if self.scale > 0:\n            offset = self.offset - vec.dot(origin) / self.scale\n", 'expect': 'C17.N3'},
    {'id': 'uv_offset_guard_zero_scale', 'file': 'vmf.py', 'find': "        offset = self.offset - vec.dot(origin) / self.scale\n", 'replace': "        if self.scale != 0:\n            offset = self.offset - vec.dot(origin) / self.scale\n        else:\n            offset = self.offset\n", 'expect': None},
    {'id': 'collapse_all_stops_without_nested', 'file': 'instancing.py', 'find': "            collapse_one(vmf, inst, file, engine_cache=fgd_cache)\n", 'replace': "            collapse_one(vmf, inst, file, engine_cache=fgd_cache)\n        if len(file_cache) > 64:\n            return\n", 'expect': 'C17.N2'},
    {'id': 'fixup_pattern_empty_branch', 'file': 'vmf.py', 'find': "            sections.append('[a-z_][a-z0-9_]*')\n            self._matcher = re.compile(\n                rf'(!)?\\$({\"|\".join(sections)})',", 'replace': "            self._matcher = re.compile(\n                rf'(!)?\\$({\"|\".join(sections)}|[a-z_][a-z0-9_]*)',", 'expect': 'C17.N6'},
    {'id': 'hidden_objects_collapsed', 'file': 'instancing.py', 'find': "        if old_brush.hidden or not old_brush.vis_shown:\n            continue", 'replace': "        if not old_brush.vis_shown:\n            continue", 'expect': 'C17.N5'},
    {'id': 'localise_template_brush', 'file': 'instancing.py', 'find': "        new_brush = old_brush.copy(vmf_file=vmf, side_mapping=inst.face_ids, keep_vis=visgroup is not False)\n        vmf.add_brush(new_brush)", 'replace': "        new_brush = old_brush.copy(vmf_file=vmf, side_mapping=inst.face_ids, keep_vis=visgroup is not False)\n        old_brush.localise(origin, orient)\n        vmf.add_brush(new_brush)", 'expect': 'C17.N1'},
    {'id': 'template_ent_added', 'file': 'instancing.py', 'find': "        vmf.add_ent(new_ent)\n        new_ents.append(new_ent)", 'replace': "        vmf.add_ent(old_ent)\n        new_ents.append(new_ent)", 'expect': 'C17.N1'},
    {'id': 'proxy_output_mutated', 'file': 'instancing.py', 'find': "        id_to_ent[ent_id].add_out(Output.combine(prox_out, out))", 'replace': "        prox_out.target = out.target\n        id_to_ent[ent_id].add_out(prox_out)", 'expect': 'C17.N1'},
    {'id': 'template_key_written', 'file': 'instancing.py', 'find': "        inst.ent_ids[old_ent.id] = new_ent.id\n", 'replace': "        inst.ent_ids[old_ent.id] = new_ent.id\n        old_ent['collapsed'] = '1'\n", 'expect': 'C17.N1'},
    {'id': 'instance_not_removed', 'file': 'instancing.py', 'find': "            inst = Instance.from_entity(inst_ent)\n            inst_ent.remove()\n", 'replace': "            inst = Instance.from_entity(inst_ent)\n", 'expect': 'C17.N2'},
    {'id': 'no_recursion_error', 'file': 'instancing.py', 'find': "    raise RecursionError('Loop in instances!')", 'replace': "    return None", 'expect': 'C17.N2'},
    {'id': 'vec_translate_before_rotate', 'file': 'instancing.py', 'find': "            return str(Vec.from_str(value) @ self.orient + self.pos)", 'replace': "            return str((Vec.from_str(value) + self.pos) @ self.orient)", 'expect': 'C17.N3'},
    {'id': 'direction_translated', 'file': 'instancing.py', 'find': "        elif type is ValueTypes.EXT_VEC_DIRECTION:\n            return str(Vec.from_str(value) @ self.orient)", 'replace': "        elif type is ValueTypes.EXT_VEC_DIRECTION:\n            return str(Vec.from_str(value) @ self.orient + self.pos)", 'expect': 'C17.N3'},
    {'id': 'origin_not_translated', 'file': 'instancing.py', 'find': "                new_ent['origin'] = str(Vec.from_str(value) @ orient + origin)", 'replace': "                new_ent['origin'] = str(Vec.from_str(value) @ orient)", 'expect': 'C17.N3'},
    {'id': 'vertex_normal_translated', 'file': 'vmf.py', 'find': "                vert.normal @= orient\n", 'replace': "                vert.normal.localise(origin, orient)\n", 'expect': 'C17.N3'},
    {'id': 'suffix_style_dropped', 'file': 'instancing.py', 'find': "        elif self.fixup_type is FixupStyle.SUFFIX:\n            return f'{name}-{self.name}'\n", 'replace': "", 'expect': 'C17.N4'},
    {'id': 'bang_names_fixed_up', 'file': 'instancing.py', 'find': "        if not name or name.startswith(('@', '!')):", 'replace': "        if not name or name.startswith('@'):", 'expect': 'C17.N4'},
]
