"""C05 - Angle range, frozen immutability, canonical text (DESIGN.md C05).

  G1  normalised writes: every store to an angle field (_pitch/_yaw/_roll in math.py; .val.x/.y/.z of angle-typed
      variables in _math.pyx) is `E % 360 % 360` / norm_ang(E), a literal in [0,360), or a copy of the same field of
      another angle.  A single modulo is rejected: -1e-14 % 360.0 == 360.0.
  G2  frozen objects are never mutated: (i) Frozen* classes (whole MRO, exec-template methods expanded) have no
      in-place operators/setters and store to self only inside __new__; (ii) the private in-place mutators
      (_mat_mul receiver, _vec_rot/_to_angle argument) are only applied to a target that is fresh in the caller or whose
      static class is mutable-only - `X.copy()` is fresh only if copy() of every class X may have constructs a new
      object; (iii) the operator-dispatch interpreter (engine.mathobj) observes no mutation of a frozen operand and no
      mutation of any operand by a non in-place operator, for every operand pair.
  G3  copy/__copy__/__deepcopy__/freeze/thaw of the mutable classes build a new object.
  G4  format_float cannot return '-0': sign normalisation happens after rounding (string-level fix, or rounding first).
  G5  str()/join()/__repr__ of vectors and angles format every component through format_float with the default places.
"""
from __future__ import annotations

import ast
import re
from typing import Any, Dict, List, Optional, Sequence, Set, Tuple

from engine.srcmatch import U
from engine.fold import Folder
from engine.mathobj import NeedAssume, NOTIMPL, Dispatcher, Obj, ang_input, mat_input, vec_input
from engine.model import resolve_method, AnalysisError, Program, base_names, dotted, mro, walk_no_nested
from engine.pyx import PyxFile
from rules.c04 import extract_forms

LEVEL = 'other'

ANGLE_FIELDS = ('_pitch', '_yaw', '_roll')
FROZEN = ('FrozenVec', 'FrozenAngle', 'FrozenMatrix')
MUTABLE = ('Vec', 'Angle', 'Matrix')
BASES = ('VecBase', 'AngleBase', 'MatrixBase')
MUTATORS = {'_mat_mul': 'recv', '_vec_rot': 'arg', '_to_angle': 'arg'}
PRIVATE_SLOTS = {'_x', '_y', '_z', '_pitch', '_yaw', '_roll', '_aa', '_ab', '_ac', '_ba', '_bb', '_bc', '_ca', '_cb', '_cc'}
seen_slot_stores: set = set()


def is_360(n: ast.AST) -> bool:
    return isinstance(n, ast.Constant) and isinstance(n.value, (int, float)) and float(n.value) == 360.0


def double_mod(n: ast.AST) -> bool:
    return (isinstance(n, ast.BinOp) and isinstance(n.op, ast.Mod) and is_360(n.right)
            and isinstance(n.left, ast.BinOp) and isinstance(n.left.op, ast.Mod) and is_360(n.left.right))


def single_mod(n: ast.AST) -> bool:
    return isinstance(n, ast.BinOp) and isinstance(n.op, ast.Mod) and is_360(n.right) and not double_mod(n)


def local_store_verdicts(fn: ast.AST) -> Dict[int, Tuple[bool, str]]:
    """For every `<obj>.<angle field> = <local name>`: is every definition of the local that reaches the store normalised?
    Forward analysis over the structured statements; a local is N(ormalised) after `x = e % 360 % 360`, a literal in [0, 360) or a copy of
    an N local; after `if <x escapes [0, 360)>: x = x % 360 % 360` the fall-through value is N as well - provided the escape test has the
    half-open form (`x < 0 or x >= 360`, or min()/max() over several locals); a test with `> 360` lets exactly 360.0 through."""
    verdicts: Dict[int, Tuple[bool, str]] = {}
    N = 'N'

    def form_of(e: ast.AST, env: Dict[str, Set[str]]) -> str:
        if double_mod(e):
            return N
        if isinstance(e, ast.Constant) and isinstance(e.value, (int, float)) and not isinstance(e.value, bool) and 0 <= e.value < 360:
            return N
        if isinstance(e, ast.Name) and e.id in env:
            fs = env[e.id]
            return N if fs == {N} else sorted(fs - {N})[0]
        if single_mod(e):
            return 'a single `% 360` (a tiny negative value wraps to exactly 360.0)'
        return f'`{U(e)[:50]}` is not normalised'

    def escape_test(t: ast.AST) -> Optional[Tuple[Set[str], bool]]:
        """(locals tested, upper bound is inclusive i.e. `>= 360`) for `lo < 0 or hi >= 360` shaped tests"""
        if not (isinstance(t, ast.BoolOp) and isinstance(t.op, ast.Or) and len(t.values) == 2):
            return None
        names: Set[str] = set()
        lower_ok = upper_ok = False
        inclusive = False
        for c in t.values:
            if not (isinstance(c, ast.Compare) and len(c.ops) == 1 and isinstance(c.comparators[0], ast.Constant)):
                return None
            lhs, op, k = c.left, c.ops[0], c.comparators[0].value
            if isinstance(lhs, ast.Name):
                vs = {lhs.id}
                agg = None
            elif isinstance(lhs, ast.Call) and dotted(lhs.func) in ('min', 'max') and all(isinstance(a, ast.Name) for a in lhs.args):
                vs = {a.id for a in lhs.args}
                agg = dotted(lhs.func)
            else:
                return None
            if isinstance(op, ast.Lt) and k == 0 and agg in (None, 'min'):
                lower_ok = True
                names |= vs
            elif isinstance(op, (ast.Gt, ast.GtE)) and k == 360 and agg in (None, 'max'):
                upper_ok = True
                inclusive = isinstance(op, ast.GtE)
                names |= vs
            else:
                return None
        return (names, inclusive) if lower_ok and upper_ok else None

    def block(stmts: Sequence[ast.stmt], env: Dict[str, Set[str]]) -> Dict[str, Set[str]]:
        for st in stmts:
            if isinstance(st, (ast.Assign, ast.AnnAssign)) and st.value is not None:
                tg = st.targets if isinstance(st, ast.Assign) else [st.target]
                for t in tg:
                    if isinstance(t, ast.Name):
                        env[t.id] = {form_of(st.value, env)}
                    elif isinstance(t, (ast.Tuple, ast.List)):
                        vals = st.value.elts if isinstance(st.value, (ast.Tuple, ast.List)) and len(st.value.elts) == len(t.elts) else [None] * len(t.elts)
                        for e, v in zip(t.elts, vals):
                            if isinstance(e, ast.Name):
                                env[e.id] = {form_of(v, env)} if v is not None else {'unpacked from an unknown value'}
                    elif isinstance(t, ast.Attribute) and t.attr in ANGLE_FIELDS and isinstance(st.value, ast.Name) and st.value.id in env:
                        fs = env[st.value.id]
                        verdicts[id(st)] = (fs == {N}, '' if fs == {N} else f'the local `{st.value.id}` can hold a value that is ' + sorted(fs - {N})[0])
            elif isinstance(st, ast.AugAssign) and isinstance(st.target, ast.Name):
                env[st.target.id] = {'changed by an augmented assignment'}
            elif isinstance(st, ast.If):
                esc = escape_test(st.test)
                e1 = block(st.body, {k: set(v) for k, v in env.items()})
                e2 = {k: set(v) for k, v in env.items()}
                if esc is not None and not st.orelse:
                    names, inclusive = esc
                    for nm in names:
                        if nm in e2 and e2[nm] != {N}:
                            e2[nm] = {N} if inclusive else {'let through by the range test `' + U(st.test)[:70] + '` when it is exactly 360.0 (the bound must be `>= 360`)'}
                e2 = block(st.orelse, e2)
                env = {k: e1.get(k, set()) | e2.get(k, set()) for k in set(e1) | set(e2)}
            elif isinstance(st, (ast.For, ast.While)):
                for _ in range(2):
                    e1 = block(st.body, {k: set(v) for k, v in env.items()})
                    env = {k: env.get(k, set()) | e1.get(k, set()) for k in set(env) | set(e1)}
            elif isinstance(st, ast.Try):
                env = block(st.body, env)
                for h in st.handlers:
                    e1 = block(h.body, {k: set(v) for k, v in env.items()})
                    env = {k: env.get(k, set()) | e1.get(k, set()) for k in set(env) | set(e1)}
                env = block(st.finalbody, block(st.orelse, env))
            elif isinstance(st, ast.With):
                env = block(st.body, env)
        return env
    block(list(getattr(fn, 'body', [])), {})
    return verdicts


def expand_templates(prog: Program, mod: Any, clsname: str) -> Dict[str, ast.AST]:
    """Methods generated by `for ... in <literal>: exec(TEMPLATE.format(...), globals(), locals())` in a class body."""
    fold = Folder(prog, mod)
    out: Dict[str, ast.AST] = {}
    c = mod.cls(clsname)
    for st in c.body:
        if not isinstance(st, ast.For):
            continue
        execs = [n for n in ast.walk(st) if isinstance(n, ast.Call) and dotted(n.func) == 'exec']
        if not execs:
            continue
        try:
            items = fold.fold(st.iter, {})
        except AnalysisError as exc:
            raise AnalysisError(f'{mod.relpath}:{st.lineno}: exec-template loop over a non-literal iterable ({exc})')
        for item in items:
            env: Dict[str, Any] = {}
            fold._bind(st.target, item, env)
            for ex in execs:
                src_expr = ex.args[0]
                if not (isinstance(src_expr, ast.Call) and isinstance(src_expr.func, ast.Attribute) and src_expr.func.attr == 'format'):
                    raise AnalysisError(f'{mod.relpath}:{ex.lineno}: unrecognised exec() argument')
                tmpl = fold.fold(src_expr.func.value, {})
                kwargs = {k.arg: fold.fold(k.value, env) for k in src_expr.keywords}
                code = tmpl.format(**kwargs)
                try:
                    tree = ast.parse(code)
                except SyntaxError as exc:
                    raise AnalysisError(f'{mod.relpath}:{ex.lineno}: expanded template does not parse: {exc}')
                for fn in tree.body:
                    if isinstance(fn, ast.FunctionDef):
                        for sub in ast.walk(fn):
                            if hasattr(sub, 'lineno'):
                                sub.lineno = ex.lineno  # type: ignore[attr-defined]
                        out[fn.name] = fn
    for st in c.body:
        if isinstance(st, ast.Expr) and isinstance(st.value, ast.Call) and dotted(st.value.func) == 'exec':
            raise AnalysisError(f'{mod.relpath}:{st.lineno}: exec() outside a literal for-loop is not an enumerated idiom')
    return out


def all_methods(prog: Program, mod: Any, clsname: str) -> Dict[str, Tuple[str, ast.AST]]:
    """name -> (defining class, def) over the MRO, exec templates expanded, nearest definition wins."""
    out: Dict[str, Tuple[str, ast.AST]] = {}
    for c in reversed(mro(mod, clsname)):
        for n, f in mod.methods(c).items():
            out[n] = (c, f)
        for n, f in expand_templates(prog, mod, c).items():
            out[n] = (c, f)
    return out


def self_stores(fn: ast.AST, selfname: str = 'self') -> List[ast.AST]:
    """Statements storing to an attribute/subscript of self (incl. augmented assignment and del)."""
    out: List[ast.AST] = []
    for n in walk_no_nested(fn):
        tgts: List[ast.AST] = []
        if isinstance(n, ast.Assign):
            tgts = list(n.targets)
        elif isinstance(n, (ast.AugAssign, ast.AnnAssign)):
            if isinstance(n, ast.AnnAssign) and n.value is None:
                continue
            tgts = [n.target]
        elif isinstance(n, ast.Delete):
            tgts = list(n.targets)
        flat: List[ast.AST] = []
        for t in tgts:
            flat.extend(t.elts if isinstance(t, (ast.Tuple, ast.List)) else [t])
        for t in flat:
            base = t
            while isinstance(base, (ast.Attribute, ast.Subscript)):
                base = base.value
            if isinstance(t, (ast.Attribute, ast.Subscript)) and isinstance(base, ast.Name) and base.id == selfname:
                out.append(n)
                break
        if isinstance(n, ast.Call) and dotted(n.func) in ('setattr', 'object.__setattr__') and n.args and dotted(n.args[0]) == selfname:
            out.append(n)
    return out


def _anc(mod: Any, n: ast.AST, stop: Any) -> List[ast.AST]:
    out = []
    p = mod.parents.get(n)
    while p is not None and p is not stop:
        out.append(p)
        p = mod.parents.get(p)
    return out


def run(ctx: Any, prog: Program) -> None:
    mt = prog.module('math')
    ctx.not_decided += ['"parses back within 5e-7" (an arithmetic consequence of 6 decimals, not a code-shape fact)',
                        'value-level behaviour of parse_vec_str', 'pickle round trips (reduce helpers are checked for freshness only)']
    ctx.assumptions += ['x % 360.0 % 360.0 lies in [0, 360) for every finite float x (IEEE-754 fmod semantics of Python floats)']
    seen_slot_stores.clear()
    ctx.rule('C05.G1', 'every store to an angle field is double-modulo normalised, a literal in [0,360) or a same-field copy', floor=40)
    ctx.rule('C05.G2', 'frozen vectors/angles/matrices are never mutated; in-place mutators only touch fresh or mutable-only targets', floor=40)
    ctx.rule('C05.G3', 'copy/__copy__/__deepcopy__/freeze/thaw of mutable classes construct a new object', floor=10)
    ctx.rule('C05.G4', "format_float cannot produce '-0' (sign fix after rounding) and uses fixed-point with `places` digits", floor=3)
    ctx.rule('C05.G5', 'str/join/repr of Vec and Angle format each component through format_float (default 6 places)', floor=8)

    # ---- G1 (Python) ---------------------------------------------------------------------------------
    for qual, fns in mt.all_funcs().items():
        for fn in fns:
            local_verdict = local_store_verdicts(fn)
            for n in walk_no_nested(fn):
                pairs: List[Tuple[ast.AST, Optional[ast.AST]]] = []
                if isinstance(n, ast.Assign):
                    for t in n.targets:
                        if isinstance(t, (ast.Tuple, ast.List)):
                            if isinstance(n.value, (ast.Tuple, ast.List)) and len(n.value.elts) == len(t.elts):
                                pairs += list(zip(t.elts, n.value.elts))
                            else:
                                pairs += [(e, None) for e in t.elts]
                        else:
                            pairs.append((t, n.value))
                elif isinstance(n, ast.AugAssign):
                    pairs.append((n.target, None))
                elif isinstance(n, ast.AnnAssign) and n.value is not None:
                    pairs.append((n.target, n.value))
                for t, v in pairs:
                    if not (isinstance(t, ast.Attribute) and t.attr in ANGLE_FIELDS):
                        continue
                    if v is None:
                        ctx.check('C05.G1', False, mt, n, f'angle field {t.attr} changed by augmented/unpacked assignment without normalisation', func=qual)
                        continue
                    ok = False
                    why = ''
                    if double_mod(v):
                        ok = True
                    elif isinstance(v, ast.Constant) and isinstance(v.value, (int, float)) and 0 <= v.value < 360:
                        ok = True
                    elif isinstance(v, ast.Attribute) and v.attr == t.attr:
                        ok = True   # same-field copy from another angle (itself covered by this rule)
                    elif single_mod(v):
                        why = 'single `% 360`: a tiny negative value wraps to exactly 360.0'
                    elif isinstance(v, ast.Name) and id(n) in local_verdict:
                        ok, why = local_verdict[id(n)]
                    elif isinstance(v, ast.Call) and dotted(v.func) == 'round':
                        why = 'round() after normalisation: a value in [359.9999995, 360) becomes exactly 360.0'
                    elif isinstance(v, ast.Call) and dotted(v.func) == 'float' and len(v.args) == 1 and (double_mod(v.args[0]) or single_mod(v.args[0])):
                        ok = double_mod(v.args[0])
                        why = '' if ok else 'single `% 360`: a tiny negative value wraps to exactly 360.0'
                    elif isinstance(v, ast.Call) and isinstance(v.func, ast.Name) and v.func.id in mt.all_funcs() and len(mt.all_funcs()[v.func.id]) == 1:
                        # a module-level helper: what it returns decides
                        hf = mt.all_funcs()[v.func.id][0]
                        hverd = local_store_verdicts(hf)
                        rets_ = [r for r in walk_no_nested(hf) if isinstance(r, ast.Return) and r.value is not None]
                        verdicts_: List[Optional[bool]] = []
                        for r in rets_:
                            rv = r.value
                            if isinstance(rv, ast.IfExp):
                                parts_ = [rv.body, rv.orelse]
                            else:
                                parts_ = [rv]
                            for pv in parts_:
                                if double_mod(pv) or (isinstance(pv, ast.Constant) and isinstance(pv.value, (int, float)) and 0 <= pv.value < 360):
                                    verdicts_.append(True)
                                elif single_mod(pv) or (isinstance(pv, ast.Call) and dotted(pv.func) == 'round'):
                                    verdicts_.append(False)
                                else:
                                    verdicts_.append(None)
                        if rets_ and all(x is True for x in verdicts_):
                            ok = True
                        elif any(x is False for x in verdicts_):
                            why = f'{v.func.id}() can return a value normalised by a single `% 360` / rounded after normalisation'
                        else:
                            ctx.shape('C05.G1', False, mt, n, f'store to {U(t)} through {v.func.id}(): what the helper returns (`{U(rets_[0].value)[:60] if rets_ else "nothing"}`) is not one of the enumerated normalised forms - '
                                      'range not decided', func=qual, text=f'{U(t)} = {U(v)[:80]}')
                            continue
                    elif isinstance(v, ast.IfExp) and isinstance(v.test, ast.Compare) and len(v.test.ops) == 1 and is_360(v.test.comparators[0]) and isinstance(v.test.ops[0], (ast.Gt, ast.GtE)):
                        # "take one turn off when the sum went past 360": with `>` the value 360.0 itself is stored; with `>=` the range is right
                        # only if the operand is known to lie in [0, 720), which is not established here
                        if isinstance(v.test.ops[0], ast.Gt):
                            why = f'`{U(v)[:60]}` keeps a value of exactly 360.0 (the test is `> 360.0`): e.g. 180 + 180'
                        else:
                            ctx.shape('C05.G1', False, mt, n, f'store to {U(t)}: `{U(v)[:60]}` takes one turn off conditionally - in range only if the operand is in [0, 720), not decided', func=qual, text=f'{U(t)} = {U(v)[:80]}')
                            continue
                    else:
                        why = 'not a recognised normalised form'
                    ctx.check('C05.G1', ok, mt, n, f'store to {U(t)}: {why or "normalised"}', func=qual,
                              text=f'{U(t)} = {U(v)[:80]}')
    # setattr-style writes on angle classes
    for cname in ('AngleBase', 'Angle', 'FrozenAngle'):
        for n, f in mt.methods(cname).items():
            for c in walk_no_nested(f):
                if isinstance(c, ast.Call) and dotted(c.func) in ('setattr', 'object.__setattr__'):
                    # what is stored: follow the value through its definitions in this function.  One `% 360.0` is not enough (a tiny negative
                    # float wraps to exactly 360.0); two are; a component read off another angle is in range already; anything else is not
                    # decided here
                    val_ = c.args[2] if len(c.args) == 3 else None
                    one_mod_ = dbl_mod_ = from_ang_ = other_ = False
                    if isinstance(val_, ast.Name):
                        for d_ in walk_no_nested(f):
                            if isinstance(d_, ast.AugAssign) and dotted(d_.target) == val_.id:
                                if isinstance(d_.op, ast.Mod) and isinstance(d_.value, ast.Constant) and float(d_.value.value) == 360.0:
                                    one_mod_ = True
                                else:
                                    other_ = True
                            elif isinstance(d_, ast.Assign) and any(dotted(t) == val_.id for t in d_.targets):
                                v2 = d_.value
                                if isinstance(v2, ast.BinOp) and isinstance(v2.op, ast.Mod) and isinstance(v2.left, ast.BinOp) and isinstance(v2.left.op, ast.Mod):
                                    dbl_mod_ = True
                                elif isinstance(v2, ast.Call) and dotted(v2.func) == 'getattr' and v2.args and any(isinstance(g, ast.Call) and dotted(g.func) == 'isinstance' and len(g.args) == 2 and dotted(g.args[0]) == dotted(v2.args[0])
                                                                                                     and 'Angle' in U(g.args[1]) for a_ in _anc(mt, d_, f) if isinstance(a_, ast.If) for g in ast.walk(a_.test)):
                                    from_ang_ = True
                                elif isinstance(v2, ast.Call) and dotted(v2.func) in ('_coerce_float', 'float'):
                                    pass          # the raw number: what happens to it next decides
                                else:
                                    other_ = True
                    else:
                        other_ = True
                    if one_mod_ and not other_:
                        ctx.check('C05.G1', False, mt, c, f'`{U(c)[:60]}` stores a value that went through a single `% 360.0`: for a tiny negative float (-1e-14, 0.3 - (0.1 + 0.2)) that is exactly 360.0, outside [0, 360)',
                                  func=f'{cname}.{n}', text=f'{cname}.{n}: setattr value normalised')
                    elif (dbl_mod_ or from_ang_) and not other_ and not one_mod_:
                        ctx.check('C05.G1', True, mt, c, 'normalised', func=f'{cname}.{n}', text=f'{cname}.{n}: setattr value normalised')
                    else:
                        ctx.shape('C05.G1', False, mt, c, f'angle field written through `{U(c)[:60]}`: whether the value is normalised is not established', func=f'{cname}.{n}', text=f'{cname}.{n}: setattr value normalised')

    # ---- G1 (Cython) -----------------------------------------------------------------------------------
    pyx = PyxFile(prog, '_math.pyx')
    ANG_T = {'Angle', 'FrozenAngle', 'AngleBase'}
    pat = re.compile(r'^(?P<recv>\(<\s*(?P<cast>\w+)\s*>\s*(?P<castn>\w+)\)|(?P<name>\w+))\.val\.(?P<ax>[xyz])\s*(?P<op>[-+*/%]?=)\s*(?P<rhs>.+)$')
    raw_ctors: Dict[str, List[int]] = {}     # cdef helper -> parameter positions stored unnormalised into an angle

    def norm_rhs(rhs: str, ax: str, types: Dict[str, str], fcls: Optional[str], text_all: List[str]) -> Tuple[bool, str]:
        rhs = rhs.strip()
        if re.match(r'^norm_ang\(.*\)$', rhs):
            return True, 'norm_ang'
        if re.fullmatch(r'-?\d+(\.\d*)?', rhs):
            return (0 <= float(rhs) < 360), 'literal'
        m5 = re.fullmatch(r'(?:\(<\s*(\w+)\s*>\s*(\w+)\)|(\w+))\.val\.([xyz])', rhs)
        if m5:
            styp = m5.group(1) or types.get(m5.group(3) or '', fcls if m5.group(3) == 'self' else None)
            return (styp in ANG_T and (ax == '*' or m5.group(4) == ax)), f'copy of .{m5.group(4)} from a value of type {styp}'
        if re.fullmatch(r'\w+', rhs):
            defs = [t for t in text_all if re.match(r'^(cdef\s+\w+\s+)?' + rhs + r'\s*=[^=]', t)]
            if defs and all(re.match(r'^(cdef\s+\w+\s+)?' + rhs + r'\s*=\s*norm_ang\(.*\)$', d) for d in defs):
                return True, 'normalised local'
            return False, f'local `{rhs}` is not always assigned from norm_ang(...)'
        return False, 'not a recognised normalised form'

    pending_sites: List[Tuple[Any, Any, str, str, str]] = []
    for q, f in pyx.funcs.items():
        types = f.local_types()
        if f.cls in ANG_T | {'AngleTransform'}:
            types.setdefault('self', f.cls)
        text_all = [ln.text for ln in f.body]
        params = [x.strip() for x in re.search(r'\((.*)\)', f.header.text, re.S).group(1).split(',')] if '(' in f.header.text else []
        pnames = [re.split(r'[\s\*]+', re.sub(r'=.*$', '', re.sub(r':.*$', '', x)).strip())[-1] for x in params if x]
        for ln in f.body:
            # split chained assignment  a = b = c = rhs
            parts = [x.strip() for x in re.split(r'(?<![=!<>+\-*/%])=(?!=)', ln.text)]
            if len(parts) < 2:
                continue
            rhs = parts[-1]
            for tgt in parts[:-1]:
                m = re.fullmatch(r'(?:\(<\s*(?P<cast>\w+)\s*>\s*(?P<castn>\w+)\)|(?P<name>\w+))\.val\.(?P<ax>[xyz])\s*(?P<op>[-+*/%]?)', tgt)
                if not m:
                    continue
                typ = m.group('cast') or types.get(m.group('name') or '', None)
                if m.group('name') == 'self' and f.cls in ANG_T:
                    typ = f.cls
                if typ not in ANG_T:
                    continue
                ax = m.group('ax')
                if m.group('op'):
                    ctx.check('C05.G1', False, None, None, 'augmented assignment to an angle component', file=pyx.relpath, func=q, text=ln.text[:100])
                    continue
                ok, why = norm_rhs(rhs, ax, types, f.cls, text_all)
                if not ok and f.cls is None and rhs in pnames and f.header.text.startswith('cdef'):
                    # raw constructor helper: the obligation moves to its call sites
                    raw_ctors.setdefault(f.name, [])
                    if pnames.index(rhs) not in raw_ctors[f.name]:
                        raw_ctors[f.name].append(pnames.index(rhs))
                    continue
                ctx.check('C05.G1', ok, None, None, f'Cython store to angle component .{ax}: `{rhs}` - {why}',
                          file=pyx.relpath, func=q, text=ln.text[:100])
    # call sites of raw angle constructors
    from engine.pyx import _split_top
    for q, f in pyx.funcs.items():
        types = f.local_types()
        text_all = [ln.text for ln in f.body]
        for idx, ln in enumerate(f.body):
            for cname, positions in raw_ctors.items():
                for mm in re.finditer(r'(?<![\w\.])' + re.escape(cname) + r'\(', ln.text):
                    depth, j = 0, mm.end() - 1
                    for j in range(mm.end() - 1, len(ln.text)):
                        if ln.text[j] == '(':
                            depth += 1
                        elif ln.text[j] == ')':
                            depth -= 1
                            if depth == 0:
                                break
                    args = [a.strip() for a in _split_top(ln.text[mm.end():j]) if a.strip()]
                    # result normalised afterwards on all three axes?
                    mres = re.match(r'^(?:cdef\s+\w+\s+)?(\w+)\s*=\s*' + re.escape(cname), ln.text)
                    later = ' '.join(text_all[idx + 1:])
                    renorm = bool(mres) and all(re.search(re.escape(mres.group(1)) + r'\.val\.' + a + r'\s*=\s*norm_ang\(', later) for a in 'xyz')
                    for pos in positions:
                        if pos >= len(args):
                            raise AnalysisError(f'{pyx.relpath}:{ln.lineno}: call of {cname} with too few arguments')
                        ok, why = norm_rhs(args[pos], '*', types if f.cls is None else dict(types, self=f.cls), f.cls, text_all)
                        ctx.check('C05.G1', ok or renorm, None, None, f'raw angle constructor {cname} called with `{args[pos]}`: {why}',
                                  file=pyx.relpath, func=q, text=f'{cname} arg{pos}: {args[pos][:60]}')
    for q, f in pyx.funcs.items():
        types = f.local_types()
        if f.cls in ANG_T | {'AngleTransform'}:
            types.setdefault('self', f.cls)
        text_all = [ln.text for ln in f.body]
        # pointer escapes of an angle's value as an output argument
        for idx, ln in enumerate(f.body):
            for m2 in re.finditer(r'(\w+)\(\s*&\s*(\(<\s*(\w+)\s*>\s*(\w+)\)|(\w+))\.val\b', ln.text):
                callee = m2.group(1)
                typ = m2.group(3) or types.get(m2.group(5) or '', f.cls if m2.group(5) == 'self' else None)
                if typ not in ANG_T:
                    continue
                if callee in ('_mat_to_angle',):
                    ctx.check('C05.G1', True, None, None, 'angle written by _mat_to_angle (normalising writer, checked below)', file=pyx.relpath, func=q, text=ln.text[:100])
                elif callee in ('_parse_vec_str',):
                    recv = m2.group(2)
                    later = ' '.join(text_all[idx + 1:])
                    ok = all(re.search(re.escape(recv) + r'\.val\.' + a + r'\s*=\s*norm_ang\(', later) for a in 'xyz')
                    ctx.check('C05.G1', ok, None, None, 'angle filled by _parse_vec_str must be normalised on all three axes afterwards', file=pyx.relpath, func=q, text=ln.text[:100])
                elif callee in ('_format_triple', '_format_vec_wspec', '_join_triple', '_mat_from_angle', 'memcpy', 'vec_rot'):
                    continue  # read-only use of the angle / not first-argument output
                else:
                    ctx.check('C05.G1', False, None, None, f'angle value passed by pointer to `{callee}`: not an enumerated writer', file=pyx.relpath, func=q, text=ln.text[:100])
    mta = pyx.func('_mat_to_angle')
    for ln in mta.body:
        m3 = re.match(r'^ang\.([xyz])\s*=\s*(.+)$', ln.text)
        if m3:
            rhs = m3.group(2).strip()
            ok = rhs.startswith('norm_ang(') or (re.fullmatch(r'-?\d+(\.\d*)?', rhs) is not None and 0 <= float(rhs) < 360)
            ctx.check('C05.G1', ok, None, None, f'_mat_to_angle writes `{rhs}` without norm_ang', file=pyx.relpath, func='_mat_to_angle', text=ln.text[:100])
    na = pyx.func('norm_ang')
    ok = any(re.search(r'%\s*360(\.0)?\s*%\s*360(\.0)?', ln.text) for ln in na.body)
    ctx.check('C05.G1', ok, None, None, 'norm_ang must apply the modulo twice', file=pyx.relpath, func='norm_ang', text='val % 360.0 % 360.0')

    # ---- G2 (i): frozen classes have no in-place API ----------------------------------------------------
    for fc in FROZEN:
        meths = all_methods(prog, mt, fc)
        for name, (owner, fn) in meths.items():
            if re.fullmatch(r'__i(add|sub|mul|truediv|floordiv|mod|matmul|pow|and|or|xor|lshift|rshift)__', name) or name in ('__setitem__', '__delitem__', '__setattr__', '__delattr__'):
                ctx.check('C05.G2', False, mt, fn, f'{fc} inherits/defines the in-place method {name} (from {owner})', func=f'{owner}.{name}', text=f'{fc} has {name}')
                continue
            decs = [dotted(d) or U(d) for d in getattr(fn, 'decorator_list', [])]
            if any(d.endswith('.setter') or d.endswith('.deleter') for d in decs):
                ctx.check('C05.G2', False, mt, fn, f'{fc} has a property setter {name} (from {owner})', func=f'{owner}.{name}', text=f'{fc} setter {name}')
                continue
            if name in ('__new__', '__init__') and owner == fc:
                continue
            if name in MUTATORS:
                continue  # private in-place mutators: their call sites are checked by G2(ii)
            rebinds_self = any(isinstance(n2, ast.Assign) and any(isinstance(t2, ast.Name) and t2.id == 'self' for t2 in n2.targets)
                               and isinstance(n2.value, ast.Call) and (dotted(n2.value.func) or '').endswith('__new__') for n2 in walk_no_nested(fn))
            is_cm = any((dotted(d) or '') in ('classmethod', 'staticmethod') for d in getattr(fn, 'decorator_list', []))
            if is_cm and rebinds_self:
                continue  # `self = cls.__new__(cls)` in a classmethod: a fresh object
            stores = self_stores(fn)
            ctx.check('C05.G2', not stores, mt, stores[0] if stores else fn,
                      f'method {owner}.{name}, reachable on a {fc}, stores to self' if stores else 'no store to self', func=f'{owner}.{name}',
                      text=f'{fc}: {owner}.{name} ' + (U(stores[0])[:60] if stores else 'read-only'))
    # ---- G2 (ii): in-place mutators only on fresh / mutable-only targets --------------------------------------
    subclasses: Dict[str, Set[str]] = {}
    for cn in mt.all_classes():
        for b in mro(mt, cn):
            subclasses.setdefault(b, set()).add(cn)
    def copy_is_fresh(cn: str) -> Optional[bool]:
        from engine.model import resolve_method
        r = resolve_method(mt, cn, 'copy')
        if r is None:
            return None
        body = [s for s in r[1].body if not (isinstance(s, ast.Expr) and isinstance(s.value, ast.Constant))]
        if len(body) == 1 and isinstance(body[0], ast.Raise):
            return None  # abstract
        rets = [s for s in ast.walk(r[1]) if isinstance(s, ast.Return)]
        return not any(isinstance(s.value, ast.Name) and s.value.id == 'self' for s in rets)

    def possible_classes(fn: ast.AST, owner: Optional[str], name: str, at: Optional[ast.AST] = None) -> Set[str]:
        if name in ('self',) and owner:
            return {c for c in subclasses.get(owner, {owner}) if c not in BASES}
        out: Set[str] = set()
        # narrowed by the nearest enclosing `if isinstance(name, K)` arm that contains the use
        if at is not None:
            p = mt.parents.get(at)
            child = at
            while p is not None and p is not fn:
                if isinstance(p, ast.If) and child in p.body:
                    t = p.test
                    if isinstance(t, ast.Call) and dotted(t.func) == 'isinstance' and len(t.args) == 2 and dotted(t.args[0]) == name:
                        spec = t.args[1]
                        for k in (spec.elts if isinstance(spec, ast.Tuple) else [spec]):
                            kn = (dotted(k) or '').replace('Py_', '').replace('Cy_', '')
                            out |= {c for c in subclasses.get(kn, set()) if c not in BASES}
                        if out:
                            return out
                child = p
                p = mt.parents.get(p)
        # else: narrowed by isinstance(name, K) anywhere in the function
        for n in ast.walk(fn):
            if isinstance(n, ast.Call) and dotted(n.func) == 'isinstance' and len(n.args) == 2 and dotted(n.args[0]) == name:
                spec = n.args[1]
                for k in (spec.elts if isinstance(spec, ast.Tuple) else [spec]):
                    kn = (dotted(k) or '').replace('Py_', '').replace('Cy_', '')
                    out |= {c for c in subclasses.get(kn, set()) if c not in BASES}
        return out or {c for c in mt.all_classes() if c in FROZEN + MUTABLE}

    def fresh_expr(fn: ast.AST, owner: Optional[str], e: ast.AST, depth: int = 0, self_ok: bool = True) -> Tuple[bool, str]:
        if isinstance(e, ast.Call):
            d = dotted(e.func) or ''
            short = e.func.attr if isinstance(e.func, ast.Attribute) else d.split('.')[-1]
            if short == '__new__':
                return True, 'new object'
            if short in ('from_angle', 'from_basis', 'from_yaw', 'from_pitch', 'from_roll', 'axis_angle', '_from_raw', 'from_angstr', 'from_str'):
                return True, 'constructed by a classmethod'
            if isinstance(e.func, ast.Call) and dotted(e.func.func) == 'type':
                return (len(e.args) == 3), 'type(x)(a, b, c) builds a new object' if len(e.args) == 3 else 'type(x)(y) may return y itself for frozen classes'
            base = d.replace('Py_', '').replace('Cy_', '')
            if base in MUTABLE:
                return True, f'{base}(...) always constructs'
            if base in FROZEN:
                return (len(e.args) == 3), f'{base}(a, b, c) constructs' if len(e.args) == 3 else f'{base}(x) returns x itself when x is already frozen'
            if short == 'copy' and isinstance(e.func, ast.Attribute):
                recv = dotted(e.func.value)
                if recv is None:
                    return False, 'copy() of a complex expression'
                classes = possible_classes(fn, owner, recv, e)
                bad = sorted(c for c in classes if copy_is_fresh(c) is False)
                if bad:
                    return False, f'{recv}.copy() returns {recv} itself when it is a {"/".join(bad)}'
                return True, f'{recv}.copy() constructs for every possible class {sorted(classes)}'
            if short in ('cls', 'type'):
                return False, 'unknown constructor'
            if isinstance(e.func, ast.Attribute) and dotted(e.func.value) is not None and depth < 3:
                recv = dotted(e.func.value)
                from engine.model import resolve_method as _res
                classes = possible_classes(fn, owner, recv, e)
                verdicts = []
                for cn in sorted(classes):
                    r = _res(mt, cn, short)
                    if r is None:
                        continue
                    rets = [x for x in walk_no_nested(r[1]) if isinstance(x, ast.Return)]
                    good = bool(rets) and all(x.value is not None and fresh_expr(r[1], r[0], x.value, depth + 1, False)[0] for x in rets)
                    verdicts.append((cn, good))
                if verdicts and all(g for _, g in verdicts):
                    return True, f'{recv}.{short}() constructs a new object for every possible class'
                if verdicts:
                    return False, f'{recv}.{short}() may return an existing object for {[c for c, g in verdicts if not g]}'
            return False, f'call `{U(e)[:40]}` is not a known constructor'
        if isinstance(e, ast.Name) and depth < 4:
            if e.id == 'self' and not self_ok:
                return False, 'returns self itself, not a new object'
            if e.id == 'self':
                classes = possible_classes(fn, owner, 'self')
                frozen = sorted(c for c in classes if c in FROZEN)
                return (not frozen), ('self may be a ' + '/'.join(frozen)) if frozen else f'self is one of the mutable classes {sorted(classes)}'
            defs = []
            for n in walk_no_nested(fn):
                if isinstance(n, ast.Assign) and any(isinstance(t, ast.Name) and t.id == e.id for t in n.targets):
                    defs.append(n.value)
                elif isinstance(n, ast.AnnAssign) and n.value is not None and isinstance(n.target, ast.Name) and n.target.id == e.id:
                    defs.append(n.value)
                elif isinstance(n, ast.AugAssign) and isinstance(n.target, ast.Name) and n.target.id == e.id:
                    continue
            params = {a.arg for a in fn.args.args + fn.args.kwonlyargs}  # type: ignore[attr-defined]
            if e.id in params and not defs:
                return False, f'parameter `{e.id}` is caller-owned'
            if not defs:
                return False, f'`{e.id}` has no visible definition'
            for dv in defs:
                ok, why = fresh_expr(fn, owner, dv, depth + 1, self_ok)
                if not ok:
                    return False, why
            return True, 'all definitions fresh'
        return False, f'`{U(e)[:40]}` is not a fresh object'

    for qual, fns in mt.all_funcs().items():
        owner = qual.split('.')[0] if '.' in qual and mt.has_class(qual.split('.')[0]) else None
        for fn in fns:
            mname = qual.split('.')[-1]
            for c in walk_no_nested(fn):
                if isinstance(c, ast.Call) and isinstance(c.func, ast.Attribute) and c.func.attr in MUTATORS:
                    tgt = c.func.value if MUTATORS[c.func.attr] == 'recv' else (c.args[0] if c.args else None)
                    if tgt is None:
                        raise AnalysisError(f'{mt.relpath}:{c.lineno}: mutator call without target')
                    if mname in MUTATORS and isinstance(tgt, ast.Name) and tgt.id in {a.arg for a in fn.args.args}:
                        continue  # the mutator's own body forwarding its parameter
                    ok, why = fresh_expr(fn, owner, tgt)
                    ctx.check('C05.G2', ok, mt, c, f'in-place mutator {c.func.attr} applied to `{U(tgt)}`: {why}', func=qual,
                              text=f'{c.func.attr} on {U(tgt)[:50]}')
            # a store to a private slot of an object other than self (`axis._x = ...`): the object must be one this function made - an
            # argument (or an element of a tuple of arguments) may be a frozen object of the caller
            for n in walk_no_nested(fn):
                tgts_ = (n.targets if isinstance(n, ast.Assign) else [n.target]) if isinstance(n, (ast.Assign, ast.AugAssign, ast.AnnAssign)) else []
                for t_ in [e_ for t0 in tgts_ for e_ in (t0.elts if isinstance(t0, (ast.Tuple, ast.List)) else [t0])]:
                    if isinstance(t_, ast.Attribute) and t_.attr in PRIVATE_SLOTS and isinstance(t_.value, ast.Name) and t_.value.id not in ('self', 'cls'):
                        nm_ = t_.value.id
                        if mname in MUTATORS and nm_ in {a.arg for a in fn.args.args}:
                            continue            # the designated output parameter of a private mutator (its call sites are checked above)
                        # a loop variable stands for the elements of what it ranges over
                        lp_ = next((l for l in walk_no_nested(fn) if isinstance(l, ast.For) and isinstance(l.target, ast.Name) and l.target.id == nm_ and any(n is x for x in ast.walk(l))), None)
                        if lp_ is not None and isinstance(lp_.iter, (ast.Tuple, ast.List)):
                            res_ = [fresh_expr(fn, owner, e_) for e_ in lp_.iter.elts]
                            ok, why = all(r[0] for r in res_), '; '.join(r[1] for r in res_ if not r[0])
                        else:
                            ok, why = fresh_expr(fn, owner, ast.Name(id=nm_, ctx=ast.Load()))
                        key_ = (qual, nm_)
                        if key_ in seen_slot_stores:
                            continue
                        seen_slot_stores.add(key_)
                        ctx.check('C05.G2', ok, mt, n, f'{qual} stores into `{nm_}.{t_.attr}` directly: {why} - when the caller passed a FrozenVec / FrozenAngle / FrozenMatrix the private slots are written all the same, '
                                  'and the frozen value (its hash, its place in a dict) changes under the caller', func=qual, text=f'slot store on `{nm_}` only if this function made it')
            # `x @= y` on a local matrix: target must be fresh too
            for n in walk_no_nested(fn):
                if isinstance(n, ast.AugAssign) and isinstance(n.op, ast.MatMult) and isinstance(n.target, ast.Name) and n.target.id != 'self':
                    ok, why = fresh_expr(fn, owner, ast.Name(id=n.target.id, ctx=ast.Load()))
                    ctx.check('C05.G2', ok, mt, n, f'`{U(n)}` mutates `{n.target.id}` in place when it is mutable: {why}', func=qual,
                              text=U(n)[:60])
    # ---- G3 (base classes): a method shared by the mutable and the frozen class hands back `self` only when self is frozen -------------------
    # `clamped()`, `norm()` ... return a value "equal to but independent of" their source.  In VecBase / AngleBase / MatrixBase a `return self`
    # is therefore guarded by a test of the *type* (directly, or through a flag that starts as such a test and is only ever cleared): a test on
    # the values ("nothing changed") returns a mutable Vec itself, and an in-place change of the result changes the source.
    n_rs = 0
    for bc in ('VecBase', 'AngleBase', 'MatrixBase'):
        for mname, fn in mt.methods(bc).items():
            me_ = fn.args.args[0].arg if fn.args.args else 'self'
            fresh_self = any(isinstance(a, ast.Assign) and any(isinstance(t, ast.Name) and t.id == me_ for t in a.targets) for a in walk_no_nested(fn))
            if fresh_self:
                continue            # `self = cls.__new__(cls)`: a classmethod building a new object
            for r in [x for x in walk_no_nested(fn) if isinstance(x, ast.Return) and isinstance(x.value, ast.Name) and x.value.id == me_]:
                n_rs += 1
                guards_ = [a for a in _anc(mt, r, fn) if isinstance(a, ast.If)]
                def _type_test(t: ast.AST, depth: int = 0) -> bool:
                    if isinstance(t, ast.Compare) and len(t.ops) == 1 and isinstance(t.ops[0], (ast.Is, ast.Eq)) and isinstance(t.left, ast.Call) and dotted(t.left.func) == 'type' and 'Frozen' in (dotted(t.comparators[0]) or ''):
                        return True
                    if isinstance(t, ast.Call) and dotted(t.func) == 'isinstance' and len(t.args) == 2 and 'Frozen' in U(t.args[1]):
                        return True
                    if isinstance(t, ast.Name) and depth < 2:
                        defs_ = [a.value for a in walk_no_nested(fn) if isinstance(a, ast.Assign) and any(isinstance(x, ast.Name) and x.id == t.id for x in a.targets)]
                        inits = [d for d in defs_ if not (isinstance(d, ast.Constant) and d.value is False)]
                        return len(inits) == 1 and _type_test(inits[0], depth + 1)
                    return False
                ok_ = any(_type_test(g.test) and any(r is y for b in g.body for y in ast.walk(b)) for g in guards_)
                ctx.check('C05.G3', ok_, mt, r, f'{bc}.{mname} returns self under `{" and ".join(U(g.test)[:40] for g in guards_) or "no condition"}`, which does not establish that self is frozen: a mutable '
                          f'{bc[:-4]} gets itself back instead of a new object, so an in-place change of the result changes the source', func=f'{bc}.{mname}', text=f'{bc}.{mname}: `return self` only for frozen objects')
    ctx.shape('C05.G3', n_rs >= 1, mt, mt.tree, 'no `return self` found in the base classes (VecBase.clamped confirmed by hand)', text='base-class return self')
    # ---- G5 (parsing): the text form is read back with float() and nothing else -------------------------------------------------------------
    # "the str form parses back to within 5e-7 per component": str() writes six places, float() reads them back exactly.  parse_vec_str
    # therefore hands each piece of the text to float() - directly, or through a helper every return of which is float(<its argument>) -
    # and does no arithmetic or rounding on the result (snapping 0.000004 to 0 is off by eight times the allowed error).
    pvs = mt.func('parse_vec_str')
    conv_rets = [r for r in walk_no_nested(pvs) if isinstance(r, ast.Return) and isinstance(r.value, ast.Tuple) and len(r.value.elts) == 3 and all(isinstance(e, ast.Call) for e in r.value.elts)]
    ctx.shape('C05.G5', len(conv_rets) >= 1, mt, pvs, 'the return of parse_vec_str that converts the three text pieces was not found', func='parse_vec_str', text='components parsed with float()')
    for r in conv_rets:
        for e in r.value.elts:
            fnm = dotted(e.func) or ''
            if fnm == 'float':
                ctx.check('C05.G5', len(e.args) == 1 and isinstance(e.args[0], ast.Name), mt, e, 'float(<piece of the text>)', func='parse_vec_str', text=f'component `{U(e)[:30]}` parsed with float()')
                continue
            try:
                hf = mt.func(fnm)
            except AnalysisError:
                ctx.shape('C05.G5', False, mt, e, f'parse_vec_str converts a component with `{U(e)[:40]}`, which is not float() nor a module-level helper', func='parse_vec_str', text=f'component `{U(e)[:30]}` parsed with float()')
                continue
            hp = hf.args.args[0].arg if hf.args.args else ''
            exact = {t.id for a in walk_no_nested(hf) if isinstance(a, ast.Assign) and isinstance(a.value, ast.Call) and dotted(a.value.func) == 'float' and len(a.value.args) == 1 and dotted(a.value.args[0]) == hp
                     for t in a.targets if isinstance(t, ast.Name)}
            bad_r = [x for x in walk_no_nested(hf) if isinstance(x, ast.Return) and not ((isinstance(x.value, ast.Call) and dotted(x.value.func) == 'float' and len(x.value.args) == 1 and dotted(x.value.args[0]) == hp)
                                                                                     or (isinstance(x.value, ast.Name) and x.value.id in exact))]
            ctx.check('C05.G5', not bad_r, mt, bad_r[0] if bad_r else e, f'parse_vec_str converts components through {fnm}(), which returns `{U(bad_r[0].value)[:40] if bad_r else ""}` on some path instead of float() of the text: '
                      'a value the text spells exactly (0.000004) is read back as another number, further away than the 5e-7 the text form guarantees', func=fnm, text=f'component `{U(e)[:30]}` parsed with float()')
    # ---- G2 (iii): operator dispatch leaves frozen operands alone; `@` leaves both operands alone -----------------
    form, vform = extract_forms(prog)
    disp = Dispatcher(mt, form, vform)

    def mk(cls: str, name: str) -> Obj:
        if cls in ('Vec', 'FrozenVec', 'tuple'):
            return vec_input(name, cls)
        if cls in ('Angle', 'FrozenAngle'):
            return ang_input(name, cls)
        return mat_input(name, cls)
    lefts = ['Vec', 'FrozenVec', 'tuple', 'Angle', 'FrozenAngle', 'Matrix', 'FrozenMatrix']
    rights = ['Angle', 'FrozenAngle', 'Matrix', 'FrozenMatrix']
    from engine.model import resolve_method as _rm
    for lc in lefts:
        for rc in rights:
            for inplace in (False, True):
                if lc == 'tuple' and inplace:
                    continue
                # arms that test an angle component against zero (value-dependent fast paths) are run once per answer
                todo_as: List[Dict[Any, bool]] = [{}]
                while todo_as:
                    assume = todo_as.pop()
                    if len(assume) > 6:
                        raise AnalysisError(f'{lc} @ {rc}: more than 6 value tests on angle components along one path')
                    L, R = mk(lc, 'L'), mk(rc, 'R')
                    l0, r0 = repr(L.data), repr(R.data)
                    disp.assume, disp.used_trig = assume, False
                    try:
                        res, tried = disp.binop(L, R, inplace)
                    except NeedAssume as na:
                        todo_as += [{**assume, na.key: True}, {**assume, na.key: False}]
                        continue
                    label = f'{lc} {"@=" if inplace else "@"} {rc}' + ''.join(f' [{"L" if "L" in k[0] else "R"}.{k[1]} {"==" if z else "!="} 0]' for k, z in sorted(assume.items()))
                    if res is NOTIMPL:
                        continue
                    anchor = _rm(mt, lc if lc != 'tuple' else rc, '__matmul__' if lc != 'tuple' else '__rmatmul__')
                    anode = anchor[1] if anchor else None
                    lmut = repr(L.data) != l0 or bool(L.mutations)
                    rmut = repr(R.data) != r0 or bool(R.mutations)
                    if lc in FROZEN or not inplace:
                        ctx.check('C05.G2', not lmut, mt, anode, f'{label}: the left operand ({lc}) is mutated in place ({L.mutations}) via {tried}',
                                  func='operator dispatch', text=label + ' left operand intact')
                    ctx.check('C05.G2', not rmut, mt, anode, f'{label}: the right operand ({rc}) is mutated ({R.mutations}) via {tried}',
                              func='operator dispatch', text=label + ' right operand intact')
                    if inplace and lc in MUTABLE and isinstance(res, Obj) and res is not L:
                        ctx.note(f'{label}: falls back to a new object (via {tried}); value semantics only')
    disp.assume, disp.used_trig = {}, False

    # ---- G3 -----------------------------------------------------------------------------------------
    for cname in MUTABLE:
        meths = all_methods(prog, mt, cname)
        for mname in ('copy', '__copy__', '__deepcopy__', 'freeze', 'thaw'):
            if mname not in meths:
                continue
            owner, fn = meths[mname]
            rets = [s for s in walk_no_nested(fn) if isinstance(s, ast.Return)]
            ok = bool(rets)
            why = ''
            for r in rets:
                good, why = fresh_expr(fn, owner, r.value, 0, False) if r.value is not None else (False, 'returns None')
                if not good:
                    ok = False
                    break
            ctx.check('C05.G3', ok, mt, fn, f'{cname}.{mname} must build a new object: {why}', func=f'{owner}.{mname}', text=f'{cname}.{mname} fresh')
        # class-level alias `__copy__ = copy`
        for st in mt.cls(cname).body:
            if isinstance(st, ast.Assign) and any(isinstance(t, ast.Name) and t.id in ('__copy__', '__deepcopy__') for t in st.targets):
                ctx.check('C05.G3', isinstance(st.value, ast.Name) and st.value.id == 'copy', mt, st, 'alias must point at copy()', func=cname, text=U(st))

    # memoisation: a function whose results are remembered hands the *same* object to every caller with equal arguments - harmless for
    # numbers, tuples and frozen objects, an alias between "independent" results when the object is a mutable Vec/Angle/Matrix
    MEMO = ('lru_cache', 'cache', 'cached_property', 'memoize', 'memoise')
    n_memo = 0
    for qual, fns in mt.all_funcs().items():
        for fn in fns:
            decs = [d.func if isinstance(d, ast.Call) else d for d in fn.decorator_list]
            if not any((d.attr if isinstance(d, ast.Attribute) else (d.id if isinstance(d, ast.Name) else '')) in MEMO for d in decs):
                continue
            n_memo += 1
            params = {a.arg for a in fn.args.posonlyargs + fn.args.args + fn.args.kwonlyargs}
            for r in [x for x in walk_no_nested(fn) if isinstance(x, ast.Return) and x.value is not None]:
                built = [c for c in ast.walk(r.value) if isinstance(c, ast.Call)]
                hazard = None
                for c in built:
                    f_ = c.func
                    nm = (dotted(f_) or '').split('.')[0] if not isinstance(f_, ast.Call) else 'type(...)'
                    base_nm = (dotted(f_) or '')
                    if isinstance(f_, ast.Call) or (isinstance(f_, ast.Name) and (f_.id in params or f_.id.replace('Py_', '').replace('Cy_', '') in MUTABLE + ('VecBase', 'AngleBase', 'MatrixBase'))) \
                            or (isinstance(f_, ast.Attribute) and isinstance(f_.value, ast.Name) and (f_.value.id in params or f_.value.id.replace('Py_', '') in MUTABLE) and f_.attr not in ('join', 'format')) \
                            or (isinstance(f_, ast.Attribute) and f_.attr in ('copy', 'thaw')):
                        hazard = c
                        break
                if hazard is not None and isinstance(hazard.func, ast.Name) and hazard.func.id in params:
                    # the class comes from the caller: harmless when every call site passes a frozen class by name
                    pos = [a.arg for a in fn.args.posonlyargs + fn.args.args].index(hazard.func.id) if hazard.func.id in [a.arg for a in fn.args.posonlyargs + fn.args.args] else None
                    sites = [c for c in ast.walk(mt.tree) if isinstance(c, ast.Call) and (dotted(c.func) or '').split('.')[-1] == fn.name]
                    passed = [(c.args[pos] if pos is not None and pos < len(c.args) else next((k.value for k in c.keywords if k.arg == hazard.func.id), None)) for c in sites]
                    if sites and all(isinstance(a, ast.Name) and a.id.replace('Py_', '') in FROZEN for a in passed):
                        hazard = None
                ctx.check('C05.G3', hazard is None, mt, r, f'{qual} is memoised ({", ".join(U(d) for d in fn.decorator_list)}) and returns `{U(hazard) if hazard is not None else ""}`, which can be a mutable '
                          'Vec/Angle/Matrix: every caller with equal arguments gets the same object, so changing one result changes the others', func=qual, text=f'{qual}: memoised result is not a mutable object')
    ctx.check('C05.G3', True, mt, mt.tree, f'{n_memo} memoised function(s) in math.py examined', func='<module>', text='memoised functions examined')
    # the converting constructors shared by the mutable and the frozen class (`VecBase.from_str`, `AngleBase.from_str`, ...): documented to
    # return a copy when they are handed an object of the class already.  `return <parameter>` hands a mutable caller-owned object back as
    # "the result" - unless the path is restricted to the frozen classes
    n_conv = 0
    for base_ in ('VecBase', 'AngleBase', 'MatrixBase'):
        for mname, fn in mt.methods(base_).items():
            if not any(dotted(d) == 'classmethod' for d in fn.decorator_list):
                continue
            params_ = [a.arg for a in fn.args.args[1:]]
            n_conv += 1
            for r in [x for x in walk_no_nested(fn) if isinstance(x, ast.Return) and isinstance(x.value, ast.Name) and x.value.id in params_]:
                tests_ = [a_.test for a_ in _anc(mt, r, fn) if isinstance(a_, ast.If) and any(r is y for b in a_.body for y in ast.walk(b))]
                frozen_only = any('Frozen' in U(t_) for t_ in tests_)
                ctx.check('C05.G3', frozen_only, mt, r, f'{base_}.{mname} returns its argument `{r.value.id}` itself' + (f' when `{U(tests_[0])[:50]}`' if tests_ else '') + ': for the mutable class the "converted copy" is the '
                          'caller\'s own object, and changing one changes the other', func=f'{base_}.{mname}', text=f'{base_}.{mname}: result is not the argument itself')
    ctx.shape('C05.G3', n_conv >= 3, mt, mt.tree, f'{n_conv} converting classmethods of the base classes examined', func='<module>', text='converting constructors examined')

    # ---- G4 -----------------------------------------------------------------------------------------
    ff = mt.func('format_float')
    check_format_float(ctx, mt, ff, prog)
    # Cython sibling
    cf = pyx.func('_format_float')
    lines = [ln.text for ln in cf.body]
    conv = [t for t in lines if 'PyOS_double_to_string' in t]
    if len(conv) != 1:
        raise AnalysisError(f'{pyx.relpath}: _format_float: expected one PyOS_double_to_string call')
    m4 = re.search(r"PyOS_double_to_string\(\s*(.+?)\s*,\s*b'(\w)'\s*,\s*(\w+)", conv[0])
    if not m4:
        raise AnalysisError(f'{pyx.relpath}: _format_float: unrecognised conversion call')
    arg, code, prec = m4.groups()
    ctx.check('C05.G4', code == 'f' and prec == 'places', None, None, 'Cython _format_float must use fixed-point with `places` digits', file=pyx.relpath,
              func='_format_float', text='fixed-point conversion')
    rounded_first = bool(re.match(r'^round\(', arg))
    string_fix = any(re.search(r"b'-'", t) for t in lines[lines.index(conv[0]) + 1:])
    ctx.check('C05.G4', rounded_first or string_fix, None, None,
              f"Cython _format_float formats `{arg}`: adding 0.0 before formatting only removes an exact -0.0; a tiny negative still rounds to '-0' "
              "(no sign fix after the conversion)", file=pyx.relpath, func='_format_float', text="no '-0' after rounding")

    # ---- G5 -----------------------------------------------------------------------------------------
    targets = [('VecBase', '__str__', ('_x', '_y', '_z')), ('VecBase', 'join', ('_x', '_y', '_z')), ('Vec', '__repr__', ('_x', '_y', '_z')),
               ('FrozenVec', '__repr__', ('_x', '_y', '_z')), ('AngleBase', '__str__', ANGLE_FIELDS), ('AngleBase', 'join', ANGLE_FIELDS),
               ('Angle', '__repr__', ANGLE_FIELDS), ('FrozenAngle', '__repr__', ANGLE_FIELDS)]
    for cname, mname, fields in targets:
        fn = mt.func(f'{cname}.{mname}')
        rets = [s for s in walk_no_nested(fn) if isinstance(s, ast.Return) and isinstance(s.value, ast.JoinedStr)]
        if len(rets) != 1:
            # delegation (`return self.__format__('')`): look at what the delegate does with the components
            dels = [r for r in walk_no_nested(fn) if isinstance(r, ast.Return) and isinstance(r.value, ast.Call) and isinstance(r.value.func, ast.Attribute) and dotted(r.value.func.value) == 'self']
            if len(dels) == 1:
                target = resolve_method(mt, cname, dels[0].value.func.attr)
                if target is not None:
                    tfn = target[1]
                    via_ff = {a.attr for c in ast.walk(tfn) if isinstance(c, ast.Call) and (dotted(c.func) or '').endswith('format_float') for a in ast.walk(c) if isinstance(a, ast.Attribute) and a.attr in fields}
                    via_builtin = {a.attr for c in ast.walk(tfn) if isinstance(c, ast.Call) and dotted(c.func) == 'format' for a in ast.walk(c) if isinstance(a, ast.Attribute) and a.attr in fields} | \
                                  {a.attr for v in ast.walk(tfn) if isinstance(v, ast.FormattedValue) and v.format_spec is not None for a in ast.walk(v.value) if isinstance(a, ast.Attribute) and a.attr in fields}
                    if via_builtin - via_ff:
                        ctx.check('C05.G5', False, mt, dels[0], f'{cname}.{mname} delegates to {target[0]}.{dels[0].value.func.attr}, which formats {sorted(via_builtin - via_ff)} with format()/a format spec instead of format_float(): '
                                  "the '-0' correction (and the fixed 6 places) of format_float is bypassed, str(Vec(-1e-9, 0, 0)) becomes '-0 0 0'", func=f'{cname}.{mname}', text=f'{cname}.{mname} components')
                        continue
            raise AnalysisError(f'{cname}.{mname}: expected a single f-string return')
        seen = []
        ok = True
        for v in rets[0].value.values:
            if isinstance(v, ast.FormattedValue):
                inner = v.value
                uses_field = [a.attr for a in ast.walk(inner) if isinstance(a, ast.Attribute) and a.attr in fields]
                if uses_field:
                    good = isinstance(inner, ast.Call) and (dotted(inner.func) or '').endswith('format_float') and len(inner.args) == 1 and not inner.keywords \
                        and not v.format_spec
                    ok = ok and good
                    seen += uses_field
        ok = ok and tuple(seen) == tuple(fields)
        ctx.check('C05.G5', ok, mt, rets[0], f'{cname}.{mname} must format {fields} in order, each as format_float(<field>) with default places; saw {seen}',
                  func=f'{cname}.{mname}', text=f'{cname}.{mname} components')


def check_format_float(ctx: Any, mod: Any, ff: Any, prog: Any) -> None:
    """G4 on the Python format_float."""
    fmt_exprs = []
    for n in walk_no_nested(ff):
        if isinstance(n, ast.FormattedValue) and n.format_spec is not None:
            spec = U(n.format_spec)
            fmt_exprs.append((n, spec))
    # `format(x, spec)` / `x.__format__(spec)` with a spec that is (a local holding) an f-string or constant is the same conversion
    fmt_calls: List[ast.AST] = []
    for n in walk_no_nested(ff):
        if isinstance(n, ast.Call) and ((dotted(n.func) == 'format' and len(n.args) == 2) or (isinstance(n.func, ast.Attribute) and n.func.attr == '__format__' and len(n.args) == 1)):
            val_, sp_ = (n.args[0], n.args[1]) if dotted(n.func) == 'format' else (n.func.value, n.args[0])
            if isinstance(sp_, ast.Name):
                d_ = [a.value for a in walk_no_nested(ff) if isinstance(a, ast.Assign) and any(isinstance(t, ast.Name) and t.id == sp_.id for t in a.targets)]
                sp_ = d_[0] if len(d_) == 1 else sp_
            if isinstance(sp_, (ast.JoinedStr, ast.Constant)):
                pseudo = ast.FormattedValue(value=val_, conversion=-1, format_spec=sp_ if isinstance(sp_, ast.JoinedStr) else ast.JoinedStr(values=[sp_]))
                ast.copy_location(pseudo, n)
                fmt_exprs.append((pseudo, U(pseudo.format_spec)))
                fmt_calls.append(n)
    if len(fmt_exprs) != 1:
        raise AnalysisError('format_float: expected exactly one formatted value with a format spec')
    fv, spec = fmt_exprs[0]
    places = ff.args.args[1].arg if len(ff.args.args) > 1 else None
    spec_ok = bool(re.search(r"\.\{" + re.escape(places or '') + r"\}f", spec)) if places else False
    ctx.check('C05.G4', spec_ok, mod, fv, f'format spec {spec} must be fixed-point `.{{{places}}}f` (no exponent, at most `places` digits)', func='format_float', text='fixed-point spec')
    default = ff.args.defaults[-1] if ff.args.defaults else None
    ctx.check('C05.G4', isinstance(default, ast.Constant) and default.value == 6, mod, ff, 'default places must be 6', func='format_float', text='places default 6')
    e = fv.value
    rounded_first = False
    for n in ast.walk(e):
        if isinstance(n, ast.Call) and dotted(n.func) == 'round' and len(n.args) == 2 and dotted(n.args[1]) == places:
            # round(x, places) + 0.0 : rounding happens before the sign fix
            rounded_first = isinstance(e, ast.BinOp) and isinstance(e.op, ast.Add)
    # string-level fix: some test compares a value against the literal '-0' and yields '0'
    string_fix = False
    for n in walk_no_nested(ff):
        if isinstance(n, ast.Compare) and any(isinstance(c, ast.Constant) and c.value == '-0' for c in [n.left] + list(n.comparators)):
            string_fix = True
        if isinstance(n, ast.Call) and isinstance(n.func, ast.Attribute) and n.func.attr in ('removeprefix', 'lstrip') and n.args \
                and isinstance(n.args[0], ast.Constant) and n.args[0].value == '-':
            pass
    ctx.check('C05.G4', rounded_first or string_fix, mod, fv,
              f"format_float formats `{U(e)}`: a negative value that rounds to zero (e.g. -1e-9) is rendered '-0.000000' -> '-0'; "
              "adding 0.0 before formatting only removes an exact -0.0 and there is no sign fix after the conversion", func='format_float', text="no '-0' after rounding")
    # single conversion discipline: every returned text derives from the fixed-point conversion above, except
    # alternative paths guarded by an *exact* test, or by a tolerance no larger than half a unit in the last place
    xname = ff.args.args[0].arg
    defs: Dict[str, List[ast.AST]] = {}
    for n in walk_no_nested(ff):
        if isinstance(n, ast.Assign):
            for t in n.targets:
                if isinstance(t, ast.Name):
                    defs.setdefault(t.id, []).append(n.value)

    visiting: Set[str] = set()
    def_stmt: Dict[int, ast.AST] = {}
    for n in walk_no_nested(ff):
        if isinstance(n, ast.Assign):
            def_stmt[id(n.value)] = n

    def reaches(d: ast.AST, use: Optional[ast.AST]) -> bool:
        """False when the definition sits in a branch that always leaves the function and the use is outside that branch"""
        st = def_stmt.get(id(d))
        if st is None or use is None:
            return True
        child: ast.AST = st
        par = mod.parents.get(st)
        while par is not None and par is not ff:
            if isinstance(par, ast.If):
                blk = par.body if child in par.body else par.orelse
                if blk and isinstance(blk[-1], (ast.Return, ast.Raise)):
                    inside = any(x is use for b in blk for x in ast.walk(b))
                    if not inside:
                        return False
            child = par
            par = mod.parents.get(par)
        return True
    use_at: List[Optional[ast.AST]] = [None]

    def derives(v: ast.AST, depth: int = 0) -> bool:
        if depth > 12:
            return False
        if fmt_calls and v is fmt_calls[0]:
            return True
        if isinstance(v, ast.JoinedStr):
            return any(x is fv for x in v.values) and all(isinstance(x, ast.Constant) or x is fv for x in v.values)
        if isinstance(v, ast.Constant) and isinstance(v.value, str):
            return True
        if isinstance(v, ast.Name):
            if v.id in visiting:
                return True      # self-referential update (result = result.rstrip(..)): decided by the other definitions
            if v.id not in defs:
                return False
            visiting.add(v.id)
            try:
                return all(derives(d, depth + 1) for d in defs[v.id] if reaches(d, use_at[0]))
            finally:
                visiting.discard(v.id)
        if isinstance(v, ast.Call) and isinstance(v.func, ast.Attribute) and v.func.attr in ('rstrip', 'lstrip', 'strip', 'replace', 'removesuffix'):
            return derives(v.func.value, depth + 1)
        if isinstance(v, ast.IfExp):
            return derives(v.body, depth + 1) and derives(v.orelse, depth + 1)
        return False

    def shortest_repr(v: Optional[ast.AST], depth: int = 0) -> Optional[ast.AST]:
        """the repr()/str()/{x!r}/{x} conversion of the number that the returned text derives from, if any"""
        if v is None or depth > 8:
            return None
        for n in ast.walk(v):
            if isinstance(n, ast.Call) and dotted(n.func) in ('repr', 'str') and len(n.args) == 1:
                a = n.args[0]
                if any(isinstance(x, ast.Name) and x.id == xname for x in ast.walk(a)) and not (isinstance(a, ast.Call) and dotted(a.func) in ('round', 'int', 'math.floor', 'math.trunc', 'math.ceil') and len(a.args) == 1):
                    return n
            if isinstance(n, ast.FormattedValue) and n.format_spec is None and dotted(n.value) == xname:
                return n
            if isinstance(n, ast.Name) and n.id != xname and n.id not in visiting:
                visiting.add(n.id)
                try:
                    for d in defs.get(n.id, []):
                        h = shortest_repr(d, depth + 1)
                        if h is not None:
                            return h
                finally:
                    visiting.discard(n.id)
        return None

    from engine.fold import Folder, FoldError
    for r in [n for n in walk_no_nested(ff) if isinstance(n, ast.Return)]:
        use_at[0] = r
        if r.value is not None and derives(r.value):
            ctx.check('C05.G4', True, mod, r, 'returned text derives from the fixed-point conversion', func='format_float', text='return ' + U(r.value)[:50])
            continue
        # alternative numeric->text path: look at its guards
        guards = []
        p = mod.parents.get(r)
        child: ast.AST = r
        while p is not None and p is not ff:
            if isinstance(p, ast.If) and child in p.body:
                if isinstance(p.test, ast.BoolOp) and isinstance(p.test.op, ast.And):
                    guards.extend(p.test.values)       # each conjunct holds on this path
                else:
                    guards.append(p.test)
            child = p
            p = mod.parents.get(p)
        verdict: Optional[bool] = None
        why = 'unguarded second conversion of the number to text'
        for g in guards:
            if isinstance(g, ast.Compare) and len(g.ops) == 1 and isinstance(g.ops[0], ast.Eq) and xname in [x.id for x in ast.walk(g) if isinstance(x, ast.Name)]:
                verdict, why = True, 'exact equality guard'
            elif isinstance(g, ast.Call) and isinstance(g.func, ast.Attribute) and g.func.attr == 'is_integer':
                verdict, why = True, 'exact integer guard'
            elif isinstance(g, ast.UnaryOp) and isinstance(g.op, ast.Not) and dotted(g.operand) == xname:
                verdict, why = True, 'exact zero guard'
            elif isinstance(g, ast.Compare) and len(g.ops) == 1 and isinstance(g.ops[0], (ast.Lt, ast.LtE)) and isinstance(g.left, ast.Call) and dotted(g.left.func) == 'abs' \
                    and g.left.args and isinstance(g.left.args[0], ast.BinOp) and isinstance(g.left.args[0].op, ast.Sub):
                # tolerance test abs(x - w) < T : T must not exceed half a unit in the last place for any places
                tol = g.comparators[0]
                okall = True
                for pl in range(0, 10):
                    try:
                        val = eval(compile(ast.Expression(body=tol), '<tol>', 'eval'), {'__builtins__': {}}, {places: pl})  # constant arithmetic in `places` only
                    except Exception:
                        raise AnalysisError(f'format_float: tolerance `{U(tol)}` is not constant arithmetic in `{places}`')
                    limit = 0.5 * 10.0 ** -pl
                    if val > limit or (isinstance(g.ops[0], ast.LtE) and val >= limit):
                        okall = False
                verdict = okall if verdict is None else verdict and okall
                why = (f'tolerance `{U(tol)}` exceeds half a unit in the last place: distinct values up to that far from the shortcut value '
                       'are written identically, so the text no longer parses back within 0.5e-places') if not okall else 'tolerance within half a unit in the last place'
        if not guards:
            verdict = False
        if verdict is None and shortest_repr(r.value) is not None:
            # repr()/str() of a float is its shortest round-trip form: exponent notation from 1e16 up (and below 1e-4).  A path that hands this
            # out is only plain decimal when its guards bound |x| from above.
            bounded = False
            for g in guards:
                if isinstance(g, ast.Compare) and len(g.ops) == 1 and isinstance(g.ops[0], (ast.Lt, ast.LtE)) and isinstance(g.left, ast.Call) and dotted(g.left.func) == 'abs' \
                        and g.left.args and dotted(g.left.args[0]) == xname:
                    try:
                        lim = Folder(prog, mod).fold(g.comparators[0], {})
                    except FoldError:
                        continue
                    if isinstance(lim, (int, float)) and lim <= 1e16:
                        bounded = True
            if not bounded:
                sr = shortest_repr(r.value)
                verdict, why = False, (f'the text comes from `{U(sr)}`, the shortest round-trip form of a float, which is exponent notation for |x| >= 1e16 (`1e+16`); the guards '
                                       f'({", ".join("`" + U(g) + "`" for g in guards)}) do not bound |x| from above, so huge components are not written as plain decimals')
        if verdict is None:
            raise AnalysisError(f'format_float: return `{U(r.value) if r.value else None}` does not derive from the fixed-point conversion and its guard is not an enumerated idiom')
        ctx.check('C05.G4', verdict, mod, r, f'alternative text path `return {U(r.value) if r.value else None}`: {why}', func='format_float',
                  text='alt return ' + (U(r.value)[:50] if r.value else 'None'))



MUTANTS = [
    {'id': 'parse_vec_str_rounds_components', 'file': 'math.py', 'find': "            float(str_x),\n            float(str_y),\n            float(str_z),", 'replace': "            round(float(str_x), 4),\n            round(float(str_y), 4),\n            round(float(str_z), 4),", 'expect': 'C05.G5', 'refuse_ok': True, 'note': 'round 13'},
    {'id': 'clamped_returns_self_when_unchanged', 'file': 'math.py', 'find': "        if return_self:  # Unchanged FrozenVec, return it.", 'replace': "        if x == self._x and y == self._y and z == self._z:", 'expect': 'C05.G3', 'note': 'round 13'},
    {'id': 'from_basis_rescales_arguments', 'file': 'math.py', 'find': "        mat = cls.__new__(cls)\n        mat._aa, mat._ab, mat._ac = x.norm()", 'replace': "        for axis in (x, y, z):\n            axis._x = axis._x + 0\n        mat = cls.__new__(cls)\n        mat._aa, mat._ab, mat._ac = x.norm()", 'expect': 'C05.G2', 'note': 'round 12'},
    {'id': 'from_str_returns_its_argument', 'file': 'math.py', 'find': "        pitch, yaw, roll = Py_parse_vec_str(val, pitch, yaw, roll)\n        return cls(pitch, yaw, roll)", 'replace': "        if isinstance(val, cls):\n            return val\n        pitch, yaw, roll = Py_parse_vec_str(val, pitch, yaw, roll)\n        return cls(pitch, yaw, roll)", 'expect': 'C05.G3'},
    {'id': 'with_axes_single_modulo_setattr', 'file': 'math.py', 'find': "    def join(self, delim: str = ', ') -> str:\n        \"\"\"Return a string with all numbers joined by the passed delimiter.\n\n        This strips off the .0 if no decimal portion exists.\n        \"\"\"\n        return f'{format_float(self._pitch)}", 'replace': "    def _set_axis(self, slot: str, val: float) -> None:\n        value = _coerce_float(val)\n        if not 0.0 <= value < 360.0:\n            value %= 360.0\n        setattr(self, slot, value)\n\n    def join(self, delim: str = ', ') -> str:\n        \"\"\"Return a string with all numbers joined by the passed delimiter.\n\n        This strips off the .0 if no decimal portion exists.\n        \"\"\"\n        return f'{format_float(self._pitch)}", 'expect': 'C05.G1', 'refuse_ok': True},
    {'id': 'format_float_builtin_general_spec', 'file': 'math.py', 'find': "    result = f'{x:.{places}f}'\n", 'replace': "    result = format(x, f'.{places}g')\n", 'expect': 'C05.G4'},
    {'id': 'ok_format_float_builtin_fixed_spec', 'file': 'math.py', 'find': "    result = f'{x:.{places}f}'\n", 'replace': "    spec = f'.{places}f'\n    result = format(x, spec)\n", 'expect': None},
    {'id': 'from_str_memoised', 'file': 'math.py', 'find': "def to_matrix(value: Union['AnyAngle', 'AnyMatrix', 'AnyVec', None]) -> 'Matrix | FrozenMatrix':", 'replace': "@__import__('functools').lru_cache(maxsize=64)\ndef _parse_cached(cls: Any, val: str, x: float, y: float, z: float) -> Any:\n    x, y, z = Py_parse_vec_str(val, x, y, z)\n    return cls(x, y, z)\n\n\ndef to_matrix(value: Union['AnyAngle', 'AnyMatrix', 'AnyVec', None]) -> 'Matrix | FrozenMatrix':", 'extra': [{'file': 'math.py', 'find': "        x, y, z = Py_parse_vec_str(val, x, y, z)\n        return cls(x, y, z)", 'replace': "        if type(val) is str:\n            return _parse_cached(cls, val, x, y, z)\n        x, y, z = Py_parse_vec_str(val, x, y, z)\n        return cls(x, y, z)"}], 'expect': 'C05.G3'},
    {'id': 'ok_parse_numbers_memoised', 'file': 'math.py', 'find': "def to_matrix(value: Union['AnyAngle', 'AnyMatrix', 'AnyVec', None]) -> 'Matrix | FrozenMatrix':", 'replace': "@__import__('functools').lru_cache(maxsize=64)\ndef _parse_cached(val: str, x: float, y: float, z: float) -> 'tuple[float, float, float]':\n    return Py_parse_vec_str(val, x, y, z)\n\n\ndef to_matrix(value: Union['AnyAngle', 'AnyMatrix', 'AnyVec', None]) -> 'Matrix | FrozenMatrix':", 'extra': [{'file': 'math.py', 'find': "        x, y, z = Py_parse_vec_str(val, x, y, z)\n        return cls(x, y, z)", 'replace': "        if type(val) is str:\n            x, y, z = _parse_cached(val, x, y, z)\n            return cls(x, y, z)\n        x, y, z = Py_parse_vec_str(val, x, y, z)\n        return cls(x, y, z)"}], 'expect': None},
    {'id': 'format_float_repr_above_2_53', 'file': 'math.py', 'find': "    result = f'{x:.{places}f}'\n", 'replace': "    if abs(x) >= 2.0 ** 53:\n        result = repr(x)\n        return result[:-2] if result.endswith('.0') else result\n    result = f'{x:.{places}f}'\n", 'expect': 'C05.G4'},
    {'id': 'vec_str_through_format_spec', 'file': 'math.py', 'find': "        return f'{format_float(self._x)} {format_float(self._y)} {format_float(self._z)}'\n\n    def __format__(self, format_spec: str) -> str:", 'replace': "        return self.__format__('.6f')\n\n    def __format__(self, format_spec: str) -> str:", 'expect': 'C05.G5'},
    {'id': 'imul_range_guard_inclusive', 'file': 'math.py', 'find': "            self._pitch = self._pitch * other % 360.0 % 360.0\n            self._yaw = self._yaw * other % 360.0 % 360.0\n            self._roll = self._roll * other % 360.0 % 360.0\n            return self", 'replace': "            pitch = self._pitch * other\n            yaw = self._yaw * other\n            roll = self._roll * other\n            if min(pitch, yaw, roll) < 0.0 or max(pitch, yaw, roll) >= 360.0:\n                pitch = pitch % 360.0 % 360.0\n                yaw = yaw % 360.0 % 360.0\n                roll = roll % 360.0 % 360.0\n            self._pitch = pitch\n            self._yaw = yaw\n            self._roll = roll\n            return self", 'expect': None},
    {'id': 'imul_normalised_through_locals', 'file': 'math.py', 'find': "            self._pitch = self._pitch * other % 360.0 % 360.0\n            self._yaw = self._yaw * other % 360.0 % 360.0\n            self._roll = self._roll * other % 360.0 % 360.0\n            return self", 'replace': "            pitch = self._pitch * other % 360.0 % 360.0\n            yaw = self._yaw * other % 360.0 % 360.0\n            roll = self._roll * other % 360.0 % 360.0\n            self._pitch = pitch\n            self._yaw = yaw\n            self._roll = roll\n            return self", 'expect': None},
    {'id': 'imul_normalised_only_when_out_of_range', 'file': 'math.py', 'find': "            self._pitch = self._pitch * other % 360.0 % 360.0\n            self._yaw = self._yaw * other % 360.0 % 360.0\n            self._roll = self._roll * other % 360.0 % 360.0\n            return self", 'replace': "            pitch = self._pitch * other\n            yaw = self._yaw * other\n            roll = self._roll * other\n            if min(pitch, yaw, roll) < 0.0 or max(pitch, yaw, roll) > 360.0:\n                pitch = pitch % 360.0 % 360.0\n                yaw = yaw % 360.0 % 360.0\n                roll = roll % 360.0 % 360.0\n            self._pitch = pitch\n            self._yaw = yaw\n            self._roll = roll\n            return self", 'expect': 'C05.G1'},
    {'id': 'format_float_wide_shortcut', 'file': 'math.py', 'find': "    result = f'{x:.{places}f}'\n", 'replace': "    if abs(x - round(x)) < 10.0 ** -places:\n        return str(round(x))\n    result = f'{x:.{places}f}'\n", 'expect': 'C05.G4'},
    {'id': 'format_float_exact_shortcut', 'file': 'math.py', 'find': "    result = f'{x:.{places}f}'\n", 'replace': "    if x == round(x) and abs(x) < 1e15:\n        return str(round(x))\n    result = f'{x:.{places}f}'\n", 'expect': None, 'note': 'negative control: exact whole-number fast path'},
    {'id': 'setter_single_mod', 'file': 'math.py', 'find': "        self._yaw = float(yaw) % 360 % 360\n\n", 'replace': "        self._yaw = float(yaw) % 360\n\n", 'expect': 'C05.G1'},
    {'id': 'imul_unnormalised', 'file': 'math.py', 'find': "            self._roll = self._roll * other % 360.0 % 360.0", 'replace': "            self._roll = self._roll * other", 'expect': 'C05.G1'},
    {'id': 'cy_norm_single', 'file': '_math.pyx', 'find': "    val = val % 360.0 % 360.0", 'replace': "    val = val % 360.0", 'expect': 'C05.G1'},
    {'id': 'cy_store_raw', 'file': '_math.pyx', 'find': "            res.val.y = norm_ang(scalar * angle.val.y)", 'replace': "            res.val.y = scalar * angle.val.y", 'expect': 'C05.G1'},
    {'id': 'frozen_vec_gets_iadd', 'file': 'math.py', 'find': "@final\nclass FrozenVec(VecBase):", 'replace': "@final\nclass FrozenVec(Vec):", 'expect': 'C05.G2', 'skip_compile': True},
    {'id': 'vec_matmul_inplace_on_self', 'file': 'math.py', 'find': "        res = type(self)(self._x, self._y, self._z)\n        # noinspection PyProtectedMember\n        mat._vec_rot(res)\n        return res", 'replace': "        res = self\n        # noinspection PyProtectedMember\n        mat._vec_rot(res)\n        return res", 'expect': 'C05.G2'},
    {'id': 'rmatmul_frozenvec_alias', 'file': 'math.py', 'find': "            result = Py_FrozenVec(other._x, other._y, other._z)", 'replace': "            result = Py_FrozenVec(other)", 'expect': 'C05.G2'},
    {'id': 'matrix_copy_returns_self', 'file': 'math.py', 'find': "    def copy(self) -> 'Matrix':\n        \"\"\"Duplicate this matrix.\"\"\"\n        rot = Py_Matrix.__new__(Py_Matrix)\n\n        rot._aa, rot._ab, rot._ac = self._aa, self._ab, self._ac\n        rot._ba, rot._bb, rot._bc = self._ba, self._bb, self._bc\n        rot._ca, rot._cb, rot._cc = self._ca, self._cb, self._cc\n\n        return rot", 'replace': "    def copy(self) -> 'Matrix':\n        \"\"\"Duplicate this matrix.\"\"\"\n        return self", 'expect': 'C05.G3'},
    {'id': 'format_float_presign', 'file': 'math.py', 'find': "    return '0' if result == '-0' else result", 'replace': "    return result", 'expect': 'C05.G4'},
    {'id': 'format_float_exponent', 'file': 'math.py', 'find': ":.{places}f}'", 'replace': ":.{places}g}'", 'expect': 'C05.G4'},
    {'id': 'angle_str_raw', 'file': 'math.py', 'find': "        return f\"{format_float(self._pitch)} {format_float(self._yaw)} {format_float(self._roll)}\"", 'replace': "        return f\"{format_float(self._pitch)} {self._yaw:g} {format_float(self._roll)}\"", 'expect': 'C05.G5'},
]
