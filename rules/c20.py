"""C20 - secondary format writers emit files their own readers reproduce: structural clauses (DESIGN.md C20).

  M1  binary wire agreement (engine/tokwire.py): cmdseq.parse/write (same Struct, field linkage of Command.parse's positional
      parameters to the values packed, fixed-width strings raise instead of truncating); every choreo parse_binary/export_binary
      pair (Tag, AbsoluteTag, Curve, FlexAnimTrack, Event per event type and with/without relative tag, Channel, Actor, Scene)
      with sub-records paired by class; a signedness difference between reader and writer slot is accepted only when the
      written expression is proved to stay inside the range both interpretations share; scenes.image header, entry table and
      summaries for versions 2 and 3.
  M2  text agreement: every keyword a choreo export_text writes at the start of a line is handled by the matching parse_text
      (and not by raising NotImplementedError); every str written between quotes by the choreo, soundscript writers is escaped;
      soundscript values that may contain a comma are quoted; the keys Sound.export writes are the keys parse_one reads;
      VMT: export escapes exactly when parse decodes escapes (blocks included), bare words are quoted when they contain
      delimiter characters; Particle: export/parse use the same section names, export materialises an iterable it walks twice,
      keeps attribute spelling, parse keeps the element name out of the options; SMD: fields written on one line are
      separated by whitespace, field counts per line agree with the parser, bone numbering does not depend on set order.
  M4  scenes.image: the entry list is sorted by checksum after its last mutation and before the table is written; each
      entry's summary and data are taken from the same entry object; offsets are linked to the deferred slots of that entry.
  M5  enum tables: Interpolation <-> name tables are inverse and complete; caption type tables inverse; event type names derived
      from the enum; CurveType packs/unpacks the two interpolations into the same byte positions.
"""
from __future__ import annotations

import ast
import re
from typing import Any, Dict, List, Optional, Sequence, Set, Tuple

from engine.srcmatch import U
from engine.fold import EnumMember, Folder, FoldError
from engine.model import AnalysisError, Program, dotted, walk_no_nested
from engine.tokwire import Tok, TokWire, flat, merge_slots, toks
from engine.wire import expand, value_count
from rules.c11_link import assigned_locals, writer_fields

def _at(src: str, frag: str) -> float:
    """position of a fragment in unparsed source; NaN (every comparison false, i.e. 'idiom not recognised') when it does not occur"""
    i = src.find(frag)
    return float(i) if i >= 0 else float('nan')


LEVEL = 'other'
RANGES = {'b': (-128, 127), 'B': (0, 255), 'h': (-32768, 32767), 'H': (0, 65535), 'i': (-2 ** 31, 2 ** 31 - 1), 'I': (0, 2 ** 32 - 1), 'l': (-2 ** 31, 2 ** 31 - 1), 'L': (0, 2 ** 32 - 1)}
INF = float('inf')


def hoist(items: List[Any]) -> List[Any]:
    """[aX|aY] -> a[X|Y]; also applied recursively"""
    out: List[Any] = []
    for it in items:
        if isinstance(it, Tok):
            out.append(it)
        elif it[0] == 'star':
            out.append(('star', hoist(it[1])))
        else:
            a, b = hoist(list(it[2])), hoist(list(it[3]))
            while a and b and isinstance(a[0], Tok) and isinstance(b[0], Tok) and a[0].text == b[0].text:
                out.append(a[0])
                a, b = a[1:], b[1:]
            if a or b:
                out.append(('alt', it[1], a, b, it[4]))
    return out


def norm(items: List[Any]) -> str:
    return merge_slots(flat(hoist(items)))


def unsign(s: str) -> str:
    return re.sub(r'S([^;]*);', lambda m: 'S' + m.group(1).upper().replace('?', 'B') + ';', s)


class Ranges:
    """interval of a packed expression (only what the sign check needs)"""

    def __init__(self, mod: Any, fold: Folder, cls: Optional[str]) -> None:
        self.mod, self.fold, self.cls = mod, fold, cls

    def enum_range(self, name: str) -> Optional[Tuple[float, float]]:
        try:
            t = self.fold.enum_table(name)
        except (FoldError, AnalysisError, KeyError):
            return None
        vals = [m.value for m in t if isinstance(m.value, int)]
        return (min(vals), max(vals)) if vals else None

    def field_class(self, attr: str) -> Optional[str]:
        if not self.cls:
            return None
        subs = [n for n, cd in self.mod.all_classes().items() if any(isinstance(b, ast.Name) and b.id == self.cls for b in cd.bases)]
        for c in [self.cls] + subs + [b for b in ('Event', 'Tag') if self.mod.has_class(b)]:
            if not self.mod.has_class(c):
                continue
            for st in self.mod.cls(c).body:
                if isinstance(st, ast.AnnAssign) and isinstance(st.target, ast.Name) and st.target.id == attr:
                    m = re.search(r'([A-Z]\w+)', U(st.annotation).replace('Final', '').replace('Literal', ''))
                    return m.group(1) if m else None
        return None

    def of(self, e: ast.AST, locals_: Dict[str, List[ast.AST]], depth: int = 0) -> Tuple[float, float]:
        if isinstance(e, ast.Constant) and isinstance(e.value, (int, bool)):
            return (int(e.value), int(e.value))
        if isinstance(e, ast.Name) and e.id.isupper():
            try:
                v = self.fold.global_(e.id)
                if isinstance(v, int):
                    return (v, v)
            except (FoldError, AnalysisError):
                pass
        if isinstance(e, ast.Call):
            d = dotted(e.func) or ''
            if d == 'len' or d.endswith('add_to_pool') or d == 'add_to_pool':
                return (0, INF)
            if d == 'min' and len(e.args) == 2:
                a, b = self.of(e.args[0], locals_, depth), self.of(e.args[1], locals_, depth)
                return (min(a[0], b[0]), min(a[1], b[1]))
            if d == 'max' and len(e.args) == 2:
                a, b = self.of(e.args[0], locals_, depth), self.of(e.args[1], locals_, depth)
                return (max(a[0], b[0]), max(a[1], b[1]))
            if d == 'round':
                return (-INF, INF)
            if isinstance(e.func, ast.Attribute) and e.func.attr == 'export_binary' and not e.args:
                # CurveType.export_binary(): (first.value << 8) | second.value
                if self.mod.has_class('CurveType'):
                    r = self.enum_range('Interpolation')
                    fn = self.mod.methods('CurveType').get('export_binary')
                    if r and fn is not None and U(fn.body[-1]) == 'return self.first.value << 8 | self.second.value':
                        return (0, (int(r[1]) << 8) | int(r[1]))
        if isinstance(e, ast.Attribute) and e.attr == 'value':
            # <something>.value of an enum-typed field
            base = e.value
            if isinstance(base, ast.Attribute) and dotted(base.value) == 'self':
                c = self.field_class(base.attr)
                if c:
                    r = self.enum_range(c)
                    if r:
                        return r
                    try:
                        t = self.fold.enum_table(c)
                        vals = [m.value for m in t if isinstance(m.value, int)]
                        if vals:      # Flag: any combination
                            tot = 0
                            for v in vals:
                                tot |= v
                            return (0, tot)
                    except (FoldError, AnalysisError, KeyError):
                        pass
        if isinstance(e, ast.Name) and e.id in locals_ and depth < 3:
            rs = [self.of(d, locals_, depth + 1) for d in locals_[e.id]]
            return (min(r[0] for r in rs), max(r[1] for r in rs))
        if isinstance(e, ast.BinOp) and isinstance(e.op, ast.BitOr):
            a, b = self.of(e.left, locals_, depth), self.of(e.right, locals_, depth)
            if a[0] >= 0 and b[0] >= 0 and a[1] < INF and b[1] < INF:
                return (0, int(a[1]) | int(b[1]) | (int(a[1]) + int(b[1])))
        if isinstance(e, ast.BinOp) and isinstance(e.op, ast.Mult) and isinstance(e.left, ast.Constant) and isinstance(e.left.value, int):
            return (0, e.left.value)          # k * <bool expression>
        if isinstance(e, (ast.Compare, ast.BoolOp)) or (isinstance(e, ast.Attribute) and isinstance(e.value, ast.Name) and e.value.id == 'self' and self.field_class(e.attr) == 'bool'):
            return (0, 1)
        return (-INF, INF)


def sign_ok(ctx: Any, rule: str, mod: Any, fold: Folder, cls: Optional[str], rtoks: List[Tok], wtoks: List[Tok], wfn: ast.AST, label: str, qual: str) -> bool:
    """reader/writer slot strings equal up to signedness: prove every differing slot's written value fits both types"""
    rslots = ''.join(re.sub(r's\d+,', 's', t.text[1:-1]) for t in rtoks if t.text.startswith('S'))
    wvals: List[Tuple[str, Optional[ast.AST]]] = []
    for t in wtoks:
        if not t.text.startswith('S'):
            continue
        codes = [c for c in re.sub(r's\d+,', 's', t.text[1:-1]) if c != 'x']
        args = t.args or []
        for i, c in enumerate(codes):
            wvals.append((c, args[i] if i < len(args) and len(args) == len(codes) else None))
    rcodes = [c for c in rslots if c != 'x']
    if len(rcodes) != len(wvals):
        return False
    rg = Ranges(mod, fold, cls)
    locals_ = assigned_locals(wfn)
    ok_all = True
    for i, (rc, (wc, arg)) in enumerate(zip(rcodes, wvals)):
        if rc == wc:
            continue
        if rc.upper() != wc.upper() or rc not in RANGES or wc not in RANGES:
            return False
        lo = max(RANGES[rc][0], RANGES[wc][0])
        hi = min(RANGES[rc][1], RANGES[wc][1])
        iv = rg.of(arg, locals_) if arg is not None else (-INF, INF)
        ok = lo <= iv[0] and iv[1] <= hi
        ok_all &= ok
        ctx.check(rule, ok, mod, arg or wfn, f'{label}: slot {i} is written as `{wc}` but read as `{rc}`; the written value `{U(arg)[:50] if arg is not None else "?"}` ranges over {iv}, '
                  f'outside the common range [{lo}, {hi}] the two disagree', func=qual, text=f'{label} slot {i} signedness {wc}/{rc}')
    return ok_all


def run(ctx: Any, prog: Program) -> None:
    ctx.not_decided += ['value equality (float formatting, quantisation)', 'byte identity of second-generation output beyond ordering', 'choreo text flex animations (reader not implemented upstream)',
                        'VMT values that look like comments', 'lzma payloads']
    ctx.rule('C20.M1', 'binary formats: reader and writer agree on slots, field linkage, sub-record order and (provably harmless) signedness', floor=35)
    ctx.rule('C20.M2', 'text formats: keywords, quoting, escaping and line layout agree between writer and reader', floor=60)
    ctx.rule('C20.M4', 'scenes.image: table sorted by checksum before it is written; summary and data come from the same entry', floor=5)
    ctx.rule('C20.M5', 'enum name/number tables are complete and mutually inverse', floor=8)
    m0_every_element_written(ctx, prog)
    m1_cmdseq(ctx, prog)
    m1_choreo(ctx, prog)
    m1_m4_scenes_image(ctx, prog)
    m2_choreo_text(ctx, prog)
    m2_sndscript(ctx, prog)
    m2_vmt(ctx, prog)
    m2_particles(ctx, prog)
    m2_smd(ctx, prog)
    m2_curve_edges(ctx, prog)
    m5_tables(ctx, prog)


def m0_every_element_written(ctx: Any, prog: Program) -> None:
    """Writers of the scene and particle formats put every element of the collections they walk into the file: the readers rebuild the
    collections from what is there.  A comprehension that filters `self.<collection>` before it is counted and written (channels without
    events), or a `continue` in the loop that appends the children of a particle system, leaves representable content out."""
    for mn, quals in (('choreo', None), ('particles', None)):
        mod = prog.module(mn)
        for q, fl in mod.all_funcs().items():
            if not (q.split('.')[-1].startswith('export') or q.split('.')[-1] in ('save_scenes_image_sync',)):
                continue
            for f in fl:
                for comp in [c for c in walk_no_nested(f) if isinstance(c, (ast.ListComp, ast.GeneratorExp))]:
                    for g in comp.generators:
                        if g.ifs and isinstance(g.iter, ast.Attribute) and dotted(g.iter.value) == 'self' and isinstance(comp.elt, ast.Name) and isinstance(g.target, ast.Name) and comp.elt.id == g.target.id:
                            ctx.check('C20.M1' if 'binary' in q else 'C20.M2', False, mod, comp, f'{q} writes only the elements of self.{g.iter.attr} for which `{U(g.ifs[0])[:40]}`: the others are representable in the format and '
                                      'the reader rebuilds the collection from the file, so they are gone after a round trip', func=q, text=f'{q}: every element of self.{g.iter.attr} is written')
                for lp in [l for l in walk_no_nested(f) if isinstance(l, ast.For) and isinstance(l.iter, ast.Attribute) and l.iter.attr == 'children']:
                    for cont in [c for c in ast.walk(lp) if isinstance(c, ast.Continue)]:
                        g_ = mod.parents.get(cont)
                        if isinstance(g_, ast.If) and any(isinstance(x, ast.Compare) and isinstance(x.ops[0], (ast.Is, ast.Eq)) for x in ast.walk(g_.test)):
                            ctx.check('C20.M2', False, mod, g_, f'{q} skips a child when `{U(g_.test)[:50]}`: the entry is in the children list of the system and the reader would return it - after export and parse the list is shorter',
                                      func=q, text=f'{q}: every child is written')


# ---- M1 cmdseq ------------------------------------------------------------------------------------------------------------------
def m1_cmdseq(ctx: Any, prog: Program) -> None:
    mod = prog.module('cmdseq')
    fold = Folder(prog, mod)
    pf, wf = mod.func('parse'), mod.func('write')
    src_p, src_w = U(pf), U(wf)
    # header / counts
    r = TokWire(mod, fold, {'version < 0.2': False}, ignore=('strip_cstring',), sub={'Command.parse': 'CMD'})
    w = TokWire(mod, fold, {}, ignore=(), inline={'pad_string': mod.func('pad_string')})
    ok = 'header = file.read(len(SEQ_HEADER))' in src_p and 'file.write(SEQ_HEADER)' in src_w
    ctx.shape('C20.M1', ok, mod, wf, 'command sequence header constant written and compared', func='write', text='cmdseq header')
    import struct as _struct
    def _numconst(e: ast.AST) -> Any:
        if isinstance(e, ast.Constant) and isinstance(e.value, (int, float)):
            return e.value
        if isinstance(e, ast.Name):
            try:
                v_ = fold.global_(e.id)
            except Exception:
                return None
            return v_ if isinstance(v_, (int, float)) else None
        return None
    wver = [_numconst(c.args[1]) for c in ast.walk(wf) if isinstance(c, ast.Call) and dotted(c.func) == 'pack' and len(c.args) == 2 and isinstance(c.args[0], ast.Constant) and c.args[0].value == 'f' and _numconst(c.args[1]) is not None]
    sel: List[Tuple[ast.AST, ast.AST, ast.AST]] = []          # (test, value if true, value if false)
    for n in ast.walk(pf):
        if isinstance(n, ast.If) and len(n.body) == 1 and len(n.orelse) == 1 and all(isinstance(b, ast.Assign) and dotted(b.targets[0]) == 'cmd_struct' for b in (n.body[0], n.orelse[0])):
            sel.append((n.test, n.body[0].value, n.orelse[0].value))
        if isinstance(n, ast.Assign) and dotted(n.targets[0]) == 'cmd_struct' and isinstance(n.value, ast.IfExp):
            sel.append((n.value.test, n.value.body, n.value.orelse))
    if len(wver) != 1 or len(sel) != 1 or not (isinstance(sel[0][0], ast.Compare) and dotted(sel[0][0].left) == 'version' and isinstance(sel[0][0].comparators[0], ast.Constant)):
        ctx.shape('C20.M1', False, mod, wf, 'version constant / struct selection not recognised', func='write', text='cmdseq version selects struct')
    else:
        stored = _struct.unpack('f', _struct.pack('f', wver[0]))[0]
        test, vt, vf = sel[0]
        op, c_ = test.ops[0], test.comparators[0].value
        res = {ast.Lt: stored < c_, ast.LtE: stored <= c_, ast.Gt: stored > c_, ast.GtE: stored >= c_}.get(type(op))
        if res is None:
            ctx.shape('C20.M1', False, mod, test, 'version comparison operator not recognised', func='parse', text='cmdseq version selects struct')
        else:
            chosen = dotted(vt if res else vf)
            ctx.check('C20.M1', chosen == 'ST_COMMAND', mod, test, f'write() stores version {wver[0]} (float32 {stored!r}) and packs ST_COMMAND; parse() evaluates `{U(test)}` = {res} and unpacks with {chosen}', func='parse',
                      text='cmdseq version selects struct')
    def _width(e: ast.AST) -> Any:
        if isinstance(e, ast.Constant):
            return e.value
        if isinstance(e, ast.Name):
            try:
                return fold.global_(e.id)
            except Exception:
                return None
        return None
    pf_ = mod.func('parse')
    name_r = [_width(c.args[0].args[0]) for c in ast.walk(pf_) if isinstance(c, ast.Call) and dotted(c.func) == 'strip_cstring' and len(c.args) == 1 and isinstance(c.args[0], ast.Call) and dotted(c.args[0].func) == 'file.read' and c.args[0].args]
    name_w = [_width(c.args[1]) for c in ast.walk(wf) if isinstance(c, ast.Call) and dotted(c.func) == 'pad_string' and len(c.args) == 2 and isinstance(c.args[0], ast.Name) and not any(c is a for pk_ in ast.walk(wf) if isinstance(pk_, ast.Call) and dotted(pk_.func) == 'ST_COMMAND.pack' for a in ast.walk(pk_))
              and not any(isinstance(a_, ast.Assign) and a_.value is c for a_ in ast.walk(wf))]
    ok = "unpack('I', file.read(4))" in src_p and "file.write(pack('I', len(sequences)))" in src_w and "file.write(pack('I', len(commands)))" in src_w and len(name_r) == 1 and len(name_w) == 1 and isinstance(name_r[0], int)
    ctx.shape('C20.M1', ok, mod, wf, 'sequence count, fixed-width name, command count', func='write', text='cmdseq sequence header')
    if ok:
        ctx.check('C20.M1', name_r[0] == name_w[0], mod, wf, f'parse() reads a sequence name of {name_r[0]} bytes, write() pads it to {name_w[0]}', func='write', text='cmdseq sequence name width')
    ok = 'ST_COMMAND.pack(' in src_w and 'cmd_struct.unpack(file.read(cmd_struct.size))' in src_p
    ctx.shape('C20.M1', ok, mod, wf, 'commands are packed and unpacked with the ST_COMMAND struct object', func='write', text='cmdseq command struct')
    fmt = fold.global_('ST_COMMAND').fmt
    fmt_old = fold.global_('ST_COMMAND_PRE_V2').fmt
    ctx.check('C20.M1', fmt.startswith(fmt_old) and value_count(fmt) == value_count(fmt_old) + 1, mod, mod.global_assign('ST_COMMAND'), 'the pre-0.2 struct is the current one without the trailing no_wait field', func='<module>', text='cmdseq struct versions')
    # field linkage: positional parameters of Command.parse vs packed arguments
    cp = mod.func('Command.parse')
    params = [a.arg for a in cp.args.args[1:]]
    packs = [c for c in walk_no_nested(wf) if isinstance(c, ast.Call) and dotted(c.func) == 'ST_COMMAND.pack']
    if len(packs) != 1:
        raise AnalysisError('cmdseq.write: ST_COMMAND.pack call not found')
    args = packs[0].args
    ctx.check('C20.M1', len(params) == len(args) == value_count(fmt), mod, packs[0], f'{value_count(fmt)} struct fields, {len(params)} parse parameters, {len(args)} packed values', func='write', text='cmdseq arity')
    # reader: parameter -> Command field (data or control dependence)
    ctor = [c for c in ast.walk(cp) if isinstance(c, ast.Call) and dotted(c.func) == 'cls']
    if len(ctor) != 1:
        raise AnalysisError('Command.parse: constructor call not found')
    fields = [st.target.id for st in mod.cls('Command').body if isinstance(st, ast.AnnAssign) and isinstance(st.target, ast.Name)]
    arg_field: List[Tuple[str, ast.AST]] = [(fields[i], a) for i, a in enumerate(ctor[0].args)] + [(k.arg, k.value) for k in ctor[0].keywords if k.arg]
    local_src: Dict[str, Set[str]] = {}
    for n in ast.walk(cp):
        if isinstance(n, (ast.Assign, ast.AnnAssign)) and getattr(n, 'value', None) is not None:
            tg = n.targets[0] if isinstance(n, ast.Assign) else n.target
            if isinstance(tg, ast.Name):
                local_src.setdefault(tg.id, set()).update({x.id for x in ast.walk(n.value) if isinstance(x, ast.Name)})
        if isinstance(n, ast.If):
            test_names = {x.id for x in ast.walk(n.test) if isinstance(x, ast.Name)}
            for s in ast.walk(n):
                if isinstance(s, ast.Assign) and isinstance(s.targets[0], ast.Name):
                    local_src.setdefault(s.targets[0].id, set()).update(test_names | {x.id for x in ast.walk(s.value) if isinstance(x, ast.Name)})
    reach: Dict[str, Set[str]] = {}
    for fld, a in arg_field:
        names = {x.id for x in ast.walk(a) if isinstance(x, ast.Name)}
        for nme in list(names):
            names |= local_src.get(nme, set())
        for nme in names:
            reach.setdefault(nme, set()).add(fld)
    wlocals = assigned_locals(wf)
    # the command being written: the target of the innermost loop that holds the ST_COMMAND.pack call
    cmd_var = 'cmd'
    p_ = mod.parents.get(packs[0])
    while p_ is not None and p_ is not wf:
        if isinstance(p_, ast.For) and isinstance(p_.target, ast.Name):
            cmd_var = p_.target.id
            break
        p_ = mod.parents.get(p_)
    # control dependence on the writer side: locals assigned under `if <test on cmd.X>`
    wctl: Dict[str, Set[str]] = {}
    for n in ast.walk(wf):
        if isinstance(n, ast.If):
            tf = {x.attr for x in ast.walk(n.test) if isinstance(x, ast.Attribute) and dotted(x.value) == cmd_var}
            for s in ast.walk(n):
                if isinstance(s, ast.Assign) and isinstance(s.targets[0], ast.Name):
                    wctl.setdefault(s.targets[0].id, set()).update(tf)
    # locals unpacked from a helper call on command fields (`special, exe = _encode_exe(cmd.exe)`) derive from those fields
    for n in ast.walk(wf):
        if isinstance(n, ast.Assign) and isinstance(n.value, ast.Call):
            tf = {x.attr for a_ in n.value.args for x in ast.walk(a_) if isinstance(x, ast.Attribute) and dotted(x.value) == cmd_var}
            if tf:
                for t_ in n.targets:
                    for e_ in ([t_] if isinstance(t_, ast.Name) else (t_.elts if isinstance(t_, (ast.Tuple, ast.List)) else [])):
                        if isinstance(e_, ast.Name):
                            wctl.setdefault(e_.id, set()).update(tf)
    for i, (p, a) in enumerate(zip(params, args)):
        rf = reach.get(p, set())
        wf_, _ = writer_fields(a, wlocals)
        for x in ast.walk(a):
            if isinstance(x, ast.Name):
                wf_ |= wctl.get(x.id, set())
        if isinstance(a, ast.Constant):
            ctx.check('C20.M1', not rf, mod, a, f'slot {i}: a constant is packed where Command.parse uses `{p}` for {sorted(rf)}', func='write', text=f'cmdseq slot {i} {p} constant')
            continue
        ctx.check('C20.M1', bool(rf & wf_), mod, a, f'slot {i}: Command.parse parameter `{p}` feeds field(s) {sorted(rf)} but write() packs `{U(a)[:50]}` (field(s) {sorted(wf_)})', func='write', text=f'cmdseq slot {i} {p}')
    # the optional file check: Command.parse yields None exactly when the flag is clear and the (possibly empty) text otherwise, so the flag the
    # writer packs has to say "is not None" - a truthiness test turns the representable value '' into None
    opt_slots = []
    for n in ast.walk(cp):
        if isinstance(n, ast.If) and isinstance(n.test, ast.Name) and n.test.id in params:
            none_arm = [s_ for s_ in n.orelse if isinstance(s_, ast.Assign) and isinstance(s_.value, ast.Constant) and s_.value.value is None]
            if none_arm and isinstance(none_arm[0].targets[0], ast.Name):
                flds_ = [f_ for f_, a_ in arg_field if isinstance(a_, ast.Name) and a_.id == none_arm[0].targets[0].id]
                if flds_:
                    opt_slots.append((params.index(n.test.id), flds_[0]))
    for n in ast.walk(cp):       # conditional-expression spelling: `ensure = strip_cstring(ensure_file) if ensure_check else None` (also directly as ctor argument)
        if isinstance(n, ast.IfExp) and isinstance(n.test, ast.Name) and n.test.id in params and isinstance(n.orelse, ast.Constant) and n.orelse.value is None:
            par_n = mod.parents.get(n)
            tgt_ = par_n.targets[0] if isinstance(par_n, ast.Assign) else getattr(par_n, 'target', None) if isinstance(par_n, ast.AnnAssign) else None
            flds_ = [f_ for f_, a_ in arg_field if (isinstance(tgt_, ast.Name) and isinstance(a_, ast.Name) and a_.id == tgt_.id) or a_ is n]
            if flds_:
                opt_slots.append((params.index(n.test.id), flds_[0]))
    ctx.shape('C20.M1', len(opt_slots) == 1, mod, cp, 'Command.parse has one flag-controlled optional field (`if ensure_check: ... else: ensure = None`)', func='Command.parse', text='cmdseq optional field flag')
    for si_, fld_ in opt_slots:
        a = args[si_]
        def derives(e_: ast.AST, depth: int = 0) -> bool:
            """e_ is cmd.<fld_> or a local holding exactly it"""
            if isinstance(e_, ast.Attribute) and dotted(e_) == f'cmd.{fld_}':
                return True
            if isinstance(e_, ast.Name) and depth < 3:
                d_ = [x for x in ast.walk(wf) if isinstance(x, ast.Assign) and len(x.targets) == 1 and isinstance(x.targets[0], ast.Name) and x.targets[0].id == e_.id]
                return len(d_) == 1 and derives(d_[0].value, depth + 1)
            return False
        def mentions(e_: ast.AST, depth: int = 0) -> bool:
            for x in ast.walk(e_):
                if isinstance(x, ast.Attribute) and dotted(x) == f'cmd.{fld_}':
                    return True
                if isinstance(x, ast.Name) and depth < 3:
                    for d_ in ast.walk(wf):
                        if isinstance(d_, ast.Assign) and len(d_.targets) == 1 and isinstance(d_.targets[0], ast.Name) and d_.targets[0].id == x.id and mentions(d_.value, depth + 1):
                            return True
            return False
        def classify(e_: ast.AST) -> str:
            while isinstance(e_, ast.Call) and isinstance(e_.func, ast.Name) and e_.func.id in ('int', 'bool') and len(e_.args) == 1 and isinstance(e_.args[0], ast.Compare):
                e_ = e_.args[0]
            if isinstance(e_, ast.Compare) and len(e_.ops) == 1 and isinstance(e_.ops[0], (ast.Is, ast.IsNot)) and isinstance(e_.comparators[0], ast.Constant) and e_.comparators[0].value is None and derives(e_.left):
                return 'identity'
            if mentions(e_):
                return 'truthiness'
            return 'unknown'
        flag_expr: Optional[ast.AST] = a
        if isinstance(a, ast.Name):
            defs_ = [x for x in ast.walk(wf) if isinstance(x, ast.Assign) and len(x.targets) == 1 and isinstance(x.targets[0], ast.Name) and x.targets[0].id == a.id]
            if defs_ and all(isinstance(x.value, ast.Constant) for x in defs_):
                ifs_ = {id(mod.parents.get(x)): mod.parents.get(x) for x in defs_}
                par_ = list(ifs_.values())
                flag_expr = par_[0].test if len(par_) == 1 and isinstance(par_[0], ast.If) else None
                if flag_expr is not None and isinstance(flag_expr, ast.Compare) and isinstance(flag_expr.ops[0], (ast.Is, ast.IsNot)):
                    # the arm that sets the flag must be the "present" arm
                    present_arm = par_[0].body if isinstance(flag_expr.ops[0], ast.IsNot) else par_[0].orelse
                    polarity_ok = all(bool(x.value.value) == any(x is y for y in present_arm) for x in defs_)
                    ctx.check('C20.M1', polarity_ok, mod, a, f'slot {si_}: the presence flag of Command.{fld_} is set in the arm where the field is None', func='write', text='cmdseq optional field flag polarity')
            elif len(defs_) == 1:
                flag_expr = defs_[0].value
            else:
                flag_expr = None
            if flag_expr is None and len(defs_) == 0:
                # `flag, text = _helper(cmd.<field>)`: decide inside the helper, its parameter standing for the field
                tup_ = [x for x in ast.walk(wf) if isinstance(x, ast.Assign) and isinstance(x.targets[0], ast.Tuple) and any(isinstance(e_, ast.Name) and e_.id == a.id for e_ in x.targets[0].elts)
                        and isinstance(x.value, ast.Call) and isinstance(x.value.func, ast.Name) and mod.has_func(x.value.func.id) and len(x.value.args) == 1 and dotted(x.value.args[0]) == f'cmd.{fld_}']
                if len(tup_) == 1:
                    k_ = [i_ for i_, e_ in enumerate(tup_[0].targets[0].elts) if isinstance(e_, ast.Name) and e_.id == a.id][0]
                    hf_ = mod.func(tup_[0].value.func.id)
                    prm_h = hf_.args.args[0].arg
                    rets_ = [r_ for r_ in walk_no_nested(hf_) if isinstance(r_, ast.Return)]
                    if rets_ and all(isinstance(r_.value, ast.Tuple) and k_ < len(r_.value.elts) and isinstance(r_.value.elts[k_], ast.Constant) for r_ in rets_):
                        ifs_h = {id(mod.parents.get(r_)): mod.parents.get(r_) for r_ in rets_}
                        if len(ifs_h) == 1 and isinstance(list(ifs_h.values())[0], ast.If):
                            if_h = list(ifs_h.values())[0]
                            t_h = if_h.test
                            if isinstance(t_h, ast.Compare) and len(t_h.ops) == 1 and isinstance(t_h.ops[0], (ast.Is, ast.IsNot)) and isinstance(t_h.left, ast.Name) and t_h.left.id == prm_h \
                                    and isinstance(t_h.comparators[0], ast.Constant) and t_h.comparators[0].value is None:
                                present_arm = if_h.body if isinstance(t_h.ops[0], ast.IsNot) else if_h.orelse
                                polarity_ok = all(bool(r_.value.elts[k_].value) == any(r_ is y for y in present_arm) for r_ in rets_)
                                ctx.check('C20.M1', polarity_ok, mod, a, f'slot {si_}: the presence flag of Command.{fld_} is set in the arm where the field is None', func='write', text='cmdseq optional field flag polarity')
                                flag_expr = ast.Compare(left=ast.Attribute(value=ast.Name(id='cmd', ctx=ast.Load()), attr=fld_, ctx=ast.Load()), ops=[ast.IsNot()], comparators=[ast.Constant(value=None)])
                            elif any(isinstance(x, ast.Name) and x.id == prm_h for x in ast.walk(t_h)):
                                flag_expr = ast.Call(func=ast.Name(id='bool', ctx=ast.Load()), args=[ast.Attribute(value=ast.Name(id='cmd', ctx=ast.Load()), attr=fld_, ctx=ast.Load())], keywords=[])
        kind_ = classify(flag_expr) if flag_expr is not None else 'unknown'
        ctx.shape('C20.M1', kind_ != 'unknown', mod, a, f'slot {si_}: how the presence flag `{U(a)[:40]}` of Command.{fld_} is computed was not recognised', func='write', text='cmdseq optional field flag')
        if kind_ != 'unknown':
            ctx.check('C20.M1', kind_ == 'identity', mod, a, f'slot {si_}: the presence flag of Command.{fld_} is `{U(flag_expr)[:60]}`, a truthiness test: an empty (but present) {fld_} is written with the flag clear '
                      'and read back as None', func='write', text='cmdseq optional field flag')
    # fixed-width strings raise
    ps = mod.func('pad_string')
    raising = [n for n in ast.walk(ps) if isinstance(n, ast.If) and any(isinstance(s, ast.Raise) for s in n.body)]
    if not raising:
        ctx.check('C20.M1', False, mod, ps, 'pad_string has no raising length check: text longer than the field is cut silently (reader and writer then disagree on the value)', func='pad_string', text='cmdseq fixed-width strings raise')
    else:
        ctx.shape('C20.M1', any(U(n.test) in ('len(text) > length', 'length < len(text)') for n in raising), mod, raising[0], 'raising guard compares len(text) with the field length', func='pad_string', text='cmdseq fixed-width strings raise')
    # reading side: a field that is completely filled has no NUL terminator (pad_string writes none when len(text) == length) and must
    # come back whole.  `bytes.find` answers -1 for "no NUL"; used as a slice bound unchecked it silently drops the last character.
    sc = mod.func('strip_cstring')
    prm = sc.args.args[0].arg
    finds = [c for c in ast.walk(sc) if isinstance(c, ast.Call) and isinstance(c.func, ast.Attribute) and c.func.attr in ('find', 'rfind') and dotted(c.func.value) == prm]
    find_vars = {t.id for a in ast.walk(sc) if isinstance(a, ast.Assign) and any(a.value is f for f in finds) for t in a.targets if isinstance(t, ast.Name)}
    n_forms = 0
    for sl in [x for x in ast.walk(sc) if isinstance(x, ast.Subscript) and isinstance(x.slice, ast.Slice) and dotted(x.value) == prm]:
        up = sl.slice.upper
        from_find = up is not None and (any(up is f for f in finds) or (isinstance(up, ast.Name) and up.id in find_vars))
        if from_find:
            n_forms += 1
            names = find_vars | {U(f) for f in finds}
            guarded = any(isinstance(c, ast.Compare) and (U(c.left) in names or any(U(x) in names for x in c.comparators)) for c in ast.walk(sc))
            ctx.check('C20.M1', guarded, mod, sl, f'strip_cstring cuts at `{U(up)}` = {prm}.find(NUL) without testing for -1: a field filled to its full width has no terminator, and `{U(sl)}` then drops '
                      'its last character', func='strip_cstring', text='cmdseq full-width field read whole')
        elif up is not None and isinstance(up, ast.Call) and isinstance(up.func, ast.Attribute) and up.func.attr == 'index':
            n_forms += 1
            par_if = [i for i in ast.walk(sc) if isinstance(i, ast.If) and any(sl is x for b in i.body for x in ast.walk(b))]
            in_test = any(isinstance(i.test, ast.Compare) and isinstance(i.test.ops[0], ast.In) and dotted(i.test.comparators[0]) == prm for i in par_if)
            in_try = any(isinstance(t, ast.Try) and any(sl is x for b in t.body for x in ast.walk(b)) for t in ast.walk(sc))
            ctx.check('C20.M1', in_test or in_try, mod, sl, f'`{U(sl)}` raises ValueError for a field without terminator (a name filling the whole field)', func='strip_cstring', text='cmdseq full-width field read whole')
    if not n_forms:
        part = any(isinstance(c, ast.Call) and isinstance(c.func, ast.Attribute) and c.func.attr in ('partition', 'split') and dotted(c.func.value) == prm for c in ast.walk(sc))
        ctx.shape('C20.M1', part, mod, sc, 'strip_cstring cuts at the first NUL through an enumerated idiom (in + index, find with a -1 test, partition/split)', func='strip_cstring', text='cmdseq full-width field read whole')
    whole = [r for r in ast.walk(sc) if isinstance(r, ast.Return) and r.value is not None]
    ctx.check('C20.M1', bool(whole), mod, sc, 'strip_cstring returns a value', func='strip_cstring', text='strip_cstring returns')
    raw = [a for a in args if isinstance(a, ast.Attribute) and dotted(a.value) == cmd_var and a.attr in ('exe', 'args', 'ensure_file')]
    ctx.check('C20.M1', not raw, mod, packs[0], 'string fields must go through pad_string', func='write', text='cmdseq strings padded')
    # every command of a sequence is written: the count is len() of the very collection the record loop walks, that collection is the value
    # of the sequences mapping (not a filtered copy - Command.__bool__ means "enabled"), and no record is skipped
    seq_loops = [l for l in walk_no_nested(wf) if isinstance(l, ast.For) and isinstance(l.iter, ast.Call) and isinstance(l.iter.func, ast.Attribute) and l.iter.func.attr == 'items' and isinstance(l.target, ast.Tuple) and len(l.target.elts) == 2
                 and isinstance(l.target.elts[1], ast.Name)]
    ctx.shape('C20.M1', len(seq_loops) == 1, mod, wf, 'one `for name, commands in sequences.items()` loop expected in write()', func='write', text='cmdseq every command written')
    if len(seq_loops) == 1:
        sl_ = seq_loops[0]
        cvar = sl_.target.elts[1].id
        rebinds = [x for st in sl_.body for x in ast.walk(st) if isinstance(x, ast.Name) and x.id == cvar and isinstance(x.ctx, ast.Store)]
        # `commands = list(commands)` keeps every element; a comprehension with a condition or filter() drops some; anything else is not judged
        for rb in list(rebinds):
            asg_ = mod.parents.get(rb)
            v_ = asg_.value if isinstance(asg_, ast.Assign) and len(asg_.targets) == 1 else None
            if isinstance(v_, ast.Call) and dotted(v_.func) in ('list', 'tuple') and len(v_.args) == 1 and dotted(v_.args[0]) == cvar:
                rebinds.remove(rb)
            elif not ((isinstance(v_, (ast.ListComp, ast.GeneratorExp)) and any(g.ifs for g in v_.generators)) or (isinstance(v_, ast.Call) and any(isinstance(c_, ast.Call) and dotted(c_.func) == 'filter' for c_ in ast.walk(v_)))
                      or (isinstance(v_, ast.Call) and dotted(v_.func) in ('list', 'tuple') and v_.args and isinstance(v_.args[0], (ast.ListComp, ast.GeneratorExp)) and any(g.ifs for g in v_.args[0].generators))):
                ctx.shape('C20.M1', False, mod, rb, f'`{cvar}` is assigned again inside the sequence loop (`{U(asg_)[:60]}`): whether every command survives is not decided here', func='write', text='cmdseq every command written')
                rebinds.remove(rb)
        inner = [l for st in sl_.body for l in ast.walk(st) if isinstance(l, ast.For) and any(p_ is c for c in ast.walk(l) for p_ in packs)]
        ctx.shape('C20.M1', len(inner) == 1, mod, sl_, 'one record loop containing the ST_COMMAND pack expected', func='write', text='cmdseq every command written')
        if len(inner) == 1:
            direct_iter = isinstance(inner[0].iter, ast.Name) and inner[0].iter.id == cvar
            skips = [x for x in ast.walk(inner[0]) if isinstance(x, (ast.Continue, ast.Break))]
            cnt = [c for st in sl_.body for c in ast.walk(st) if isinstance(c, ast.Call) and dotted(c.func) == 'len' and c.args and isinstance(c.args[0], ast.Name) and c.args[0].id == cvar]
            ok_all = direct_iter and not rebinds and not skips and bool(cnt)
            what = (f'`{cvar}` is replaced inside the loop (line {rebinds[0].lineno})' if rebinds else f'the record loop walks `{U(inner[0].iter)[:40]}`' if not direct_iter else f'the record loop is left by `{U(skips[0])}`' if skips
                    else f'no `len({cvar})` count is written')
            ctx.check('C20.M1', ok_all, mod, rebinds[0] if rebinds else inner[0], f'cmdseq.write does not write every command of a sequence: {what}. A truth test on a Command asks whether it is enabled, so disabled commands vanish from the '
                      'file and parse() returns a shorter sequence', func='write', text='cmdseq every command written')


# ---- M1 choreo binary -------------------------------------------------------------------------------------------------------------
def field_types(mod: Any, cls: str) -> Dict[str, str]:
    out: Dict[str, str] = {}
    for c in reversed([cls] + [b.id for b in mod.cls(cls).bases if isinstance(b, ast.Name) and mod.has_class(b.id)]):
        for st in mod.cls(c).body:
            if isinstance(st, ast.AnnAssign) and isinstance(st.target, ast.Name):
                out[st.target.id] = U(st.annotation)
    return out


def writer_subs(mod: Any, cls: str, fn: ast.AST) -> Dict[str, str]:
    """`X.export_binary` call targets -> class label (through loop variables over self.<attr> and self.<attr> directly)"""
    ft = field_types(mod, cls)
    out: Dict[str, str] = {}
    loopvar: Dict[str, str] = {}
    for n in ast.walk(fn):
        if isinstance(n, ast.For) and isinstance(n.target, ast.Name) and isinstance(n.iter, ast.Attribute) and dotted(n.iter.value) == 'self':
            m = re.search(r'list\[(\w+)\]', ft.get(n.iter.attr, ''))
            if m:
                loopvar[n.target.id] = m.group(1)
    for c in ast.walk(fn):
        if isinstance(c, ast.Call) and isinstance(c.func, ast.Attribute) and c.func.attr == 'export_binary':
            base = c.func.value
            d = dotted(base) or ''
            if isinstance(base, ast.Name) and base.id in loopvar:
                out[d + '.export_binary'] = loopvar[base.id]
            elif isinstance(base, ast.Name) and mod.has_class(base.id):
                out[d + '.export_binary'] = base.id
            elif isinstance(base, ast.Attribute) and dotted(base.value) == 'self':
                m = re.match(r'(\w+)', ft.get(base.attr, ''))
                if m and mod.has_class(m.group(1)):
                    out[d + '.export_binary'] = m.group(1)
            if d + '.export_binary' not in out and not (isinstance(base, ast.Attribute) and base.attr == 'curve_type'):
                raise AnalysisError(f'{cls}.export_binary: cannot determine the class of `{d}`')
    return out


def reader_subs(mod: Any, fn: ast.AST) -> Dict[str, str]:
    out: Dict[str, str] = {}
    for c in ast.walk(fn):
        if isinstance(c, ast.Call) and isinstance(c.func, ast.Attribute) and c.func.attr == 'parse_binary' and isinstance(c.func.value, ast.Name) and mod.has_class(c.func.value.id):
            if c.func.value.id != 'CurveType':
                out[f'{c.func.value.id}.parse_binary'] = c.func.value.id
    return out


def m1_choreo(ctx: Any, prog: Program) -> None:
    mod = prog.module('choreo')
    fold = Folder(prog, mod)
    et = fold.enum_table('EventType')

    def pair(cls: str, label: str, rvals: Dict[str, Any], wvals: Dict[str, Any], rcls: Optional[str] = None) -> None:
        ms = mod.methods(cls)
        rf, wf = ms['parse_binary'], ms['export_binary']
        ign = ('CurveType.parse_binary', 'add_to_pool')
        r = TokWire(mod, fold, rvals, cls=rcls or cls, sub=reader_subs(mod, rf), ignore=ign)
        w = TokWire(mod, fold, wvals, cls=rcls or cls, sub=writer_subs(mod, cls, wf), ignore=ign)
        ri, wi = r.block(rf.body), w.block(wf.body)
        rs, ws = norm(ri), norm(wi)
        qual = f'{cls}.export_binary'
        if rs == ws and '[' not in rs:
            ctx.check('C20.M1', True, mod, wf, f'{label}: `{rs}`', func=qual, text=label)
            return
        if unsign(rs) == unsign(ws) and '[' not in rs:
            ok = sign_ok(ctx, 'C20.M1', mod, fold, rcls or cls, toks(hoist(ri)), toks(hoist(wi)), wf, label, qual)
            ctx.check('C20.M1', ok, mod, wf, f'{label}: reader `{rs}`, writer `{ws}` differ in signedness' + ('' if ok else ' where the value can leave the common range'), func=qual, text=label)
            return
        if '[' in rs or '[' in ws:
            # a branch the configuration does not decide: no verdict on this pair
            ctx.shape('C20.M1', False, mod, wf, f'{label}: a gate is not decided by the configuration (reader `{rs}`, writer `{ws}`)', func=qual, text=label)
            return
        ctx.check('C20.M1', False, mod, wf, f'{label}: parse_binary consumes `{rs}` but export_binary produces `{ws}`', func=qual, text=label)

    pair('Tag', 'Tag list', {}, {})
    pair('Tag', 'AbsoluteTag list', {}, {}, rcls='AbsoluteTag')
    pair('Curve', 'Curve ramp', {}, {})
    for has_dir in (False, True):
        pair('FlexAnimTrack', f'FlexAnimTrack direction={has_dir}', {'has_direction': has_dir}, {'self.dir_track is not None': has_dir})
    kinds = {'Gesture': 'GestureEvent', 'Loop': 'LoopEvent', 'Speak': 'SpeakEvent', 'LookAt': None}
    for ename, sub in kinds.items():
        for rel in (False, True):
            rv = {'event_type': et.members[ename], "file.read(1) != b'\\x00'": rel}
            wv = {'isinstance(self, GestureEvent)': sub == 'GestureEvent', 'isinstance(self, LoopEvent)': sub == 'LoopEvent', 'isinstance(self, SpeakEvent)': sub == 'SpeakEvent',
                  'self.tag_name is not None or self.tag_wav_name is not None': rel}
            pair('Event', f'Event {ename} relative_tag={rel}', rv, wv)
    pair('Channel', 'Channel', {}, {})
    pair('Actor', 'Actor', {}, {})
    pair('Scene', 'Scene', {'version != BINARY_VERSION': False, "file.read(4) != b'bvcd'": False}, {})
    # subclass <-> event type correspondence used by the configurations above
    for ename, sub in kinds.items():
        if sub is None:
            continue
        src = U(mod.cls(sub))
        ctx.shape('C20.M1', f'EventType.{ename}' in src and 'init=False' in src, mod, mod.cls(sub), f'{sub} is fixed to EventType.{ename} (the reader dispatches on the type, the writer on the class)', func=sub, text=f'{sub} type fixed')
    # quantisation: the writer stores round(value * F) clamped to the capacity of the slot it is packed into, the reader divides by the same F.
    # Decided structurally: locals and single-expression helper functions are inlined, constants folded per concrete class.
    CAPACITY = {'B': 255, 'H': 65535}

    def q_const(e: ast.AST, clsname: str, depth: int = 0) -> Any:
        if isinstance(e, ast.Constant) and isinstance(e.value, (int, float)):
            return e.value
        if isinstance(e, ast.Attribute) and isinstance(e.value, ast.Name) and e.value.id in ('cls', 'self') and depth < 3:
            for c_ in (clsname, 'Tag' if clsname == 'AbsoluteTag' else clsname):
                try:
                    return q_const(mod.class_assign(c_, e.attr), clsname, depth + 1)
                except AnalysisError:
                    continue
        if isinstance(e, ast.Name) and depth < 3:
            try:
                return q_const(mod.module_assign(e.id), clsname, depth + 1) if hasattr(mod, 'module_assign') else None
            except AnalysisError:
                return None
        return None

    def q_inline(e: ast.AST, fn: ast.AST, depth: int = 0) -> ast.AST:
        """value expression with single-assignment locals and one-expression module helpers substituted"""
        if depth > 5:
            return e
        if isinstance(e, ast.Name):
            defs_ = [a_ for a_ in ast.walk(fn) if isinstance(a_, ast.Assign) and len(a_.targets) == 1 and isinstance(a_.targets[0], ast.Name) and a_.targets[0].id == e.id
                     and a_.lineno <= getattr(e, 'lineno', 10 ** 9)]
            if defs_:
                return q_inline(sorted(defs_, key=lambda a_: a_.lineno)[-1].value, fn, depth + 1)
            return e
        if isinstance(e, ast.Call) and isinstance(e.func, ast.Name) and mod.has_func(e.func.id):
            hf = mod.func(e.func.id)
            body_ = [st for st in hf.body if not (isinstance(st, ast.Expr) and isinstance(st.value, ast.Constant))]
            if len(body_) == 1 and isinstance(body_[0], ast.Return) and body_[0].value is not None:
                params_ = [a_.arg for a_ in hf.args.args]
                bind = dict(zip(params_, e.args))
                for k_ in e.keywords:
                    bind[k_.arg] = k_.value
                for prm_, d_ in zip(params_[len(params_) - len(hf.args.defaults):], hf.args.defaults):
                    bind.setdefault(prm_, d_)

                class _Sub(ast.NodeTransformer):
                    def visit_Name(self, node: ast.Name) -> ast.AST:
                        return bind.get(node.id, node) if isinstance(node.ctx, ast.Load) else node
                import copy as _copy
                return q_inline(_Sub().visit(_copy.deepcopy(body_[0].value)), fn, depth + 1)
        return e

    def q_match(e: ast.AST) -> Optional[Tuple[ast.AST, ast.AST, ast.AST]]:
        """(upper bound, lower bound, scaled product) of min(MAX, max(LO, round(a * b))) in either nesting order"""
        def call_of(x: ast.AST, name: str) -> bool:
            return isinstance(x, ast.Call) and isinstance(x.func, ast.Name) and x.func.id == name and len(x.args) == 2 and not x.keywords
        def rounded(x: ast.AST) -> Optional[ast.AST]:
            if isinstance(x, ast.Call) and isinstance(x.func, ast.Name) and x.func.id == 'int' and len(x.args) == 1:
                x = x.args[0]
            if isinstance(x, ast.Call) and isinstance(x.func, ast.Name) and x.func.id == 'round' and len(x.args) == 1 and isinstance(x.args[0], ast.BinOp) and isinstance(x.args[0].op, ast.Mult):
                return x.args[0]
            return None
        for outer, inner in (('min', 'max'), ('max', 'min')):
            if call_of(e, outer):
                for i_ in (0, 1):
                    if call_of(e.args[i_], inner):
                        bound_o = e.args[1 - i_]
                        for j_ in (0, 1):
                            r_ = rounded(e.args[i_].args[j_])
                            if r_ is not None:
                                bound_i = e.args[i_].args[1 - j_]
                                return (bound_o, bound_i, r_) if outer == 'min' else (bound_i, bound_o, r_)
        return None

    def q_site(clsname: str, concrete: str, pack_call: ast.Call, fmt: str, slot: int, fn: ast.AST, label: str) -> Optional[float]:
        val = q_inline(pack_call.args[slot], fn)
        m_ = q_match(val)
        code = expand(fmt)[slot] if slot < len(expand(fmt)) else '?'
        ctx.shape('C20.M1', m_ is not None and code in CAPACITY, mod, pack_call, f'{label}: quantised slot `{U(pack_call.args[slot])[:50]}` is min(MAX, max(0, round(value * F))) packed as {code!r} '
                  f'(found `{U(val)[:70]}`)', func=f'{clsname}.export_binary', text=f'{label} scale factor')
        if m_ is None or code not in CAPACITY:
            return None
        hi, lo, prod = m_
        hi_v, lo_v = q_const(hi, concrete), q_const(lo, concrete)
        fac = [v for v in (q_const(prod.left, concrete), q_const(prod.right, concrete)) if v is not None]
        ctx.shape('C20.M1', hi_v is not None and lo_v is not None and len(fac) == 1, mod, pack_call, f'{label}: clamp bounds and factor fold to constants', func=f'{clsname}.export_binary', text=f'{label} clamp constants')
        if hi_v is None or lo_v is None or len(fac) != 1:
            return None
        ctx.check('C20.M1', hi_v == CAPACITY[code] and lo_v == 0, mod, pack_call, f'{label}: the value is clamped to [{lo_v}, {hi_v}] but is stored in a {code!r} slot holding 0..{CAPACITY[code]}: '
                  + ('every representable value above the clamp reads back as the clamp' if hi_v < CAPACITY[code] else 'values past the slot width are not clamped'),
                  func=f'{clsname}.export_binary', text=f'{label} clamp = slot capacity')
        return float(fac[0])

    def q_reader(clsname: str, concrete: str) -> Set[float]:
        out_: Set[float] = set()
        for d_ in ast.walk(mod.methods(clsname)['parse_binary']):
            if isinstance(d_, ast.BinOp) and isinstance(d_.op, ast.Div) and isinstance(d_.left, ast.Name):
                v_ = q_const(d_.right, concrete)
                if v_ is not None:
                    out_.add(float(v_))
        return out_

    n_quant = 0
    for clsname, concretes in (('Tag', ('Tag', 'AbsoluteTag')), ('Curve', ('Curve',)), ('FlexAnimTrack', ('FlexAnimTrack',))):
        ex_ = mod.methods(clsname)['export_binary']
        for concrete in concretes:
            wfac: Set[float] = set()
            for c_ in ast.walk(ex_):
                if not (isinstance(c_, ast.Call) and isinstance(c_.func, ast.Attribute) and c_.func.attr == 'pack'):
                    continue
                if dotted(c_.func) == 'struct.pack' and c_.args and isinstance(c_.args[0], ast.Constant):
                    fmt_, args_off = c_.args[0].value, 1
                elif isinstance(c_.func.value, ast.Attribute) and isinstance(c_.func.value.value, ast.Name) and c_.func.value.value.id in ('cls', 'self'):
                    try:
                        fmt_ = fold.fold(mod.class_assign(concrete, c_.func.value.attr), {}).fmt
                    except AnalysisError:
                        fmt_ = fold.fold(mod.class_assign(clsname, c_.func.value.attr), {}).fmt
                    args_off = 0
                else:
                    continue
                codes_ = expand(fmt_)
                for si_, code_ in enumerate(codes_):
                    if code_ in CAPACITY and si_ + args_off < len(c_.args):
                        inl_ = q_inline(c_.args[si_ + args_off], ex_)
                        if not any(isinstance(x, ast.Call) and isinstance(x.func, ast.Name) and x.func.id == 'round' for x in ast.walk(inl_)):
                            continue      # counts, flags, indexes: not a quantised float
                        shim = ast.Call(func=c_.func, args=c_.args[args_off:], keywords=[])
                        ast.copy_location(shim, c_)
                        f_ = q_site(clsname, concrete, shim, fmt_, si_, ex_, f'{concrete}')
                        n_quant += 1
                        if f_ is not None:
                            wfac.add(f_)
            rfac = q_reader(clsname, concrete)
            ctx.check('C20.M1', wfac == rfac and len(rfac) == 1, mod, ex_, f'{concrete}: the writer multiplies by {sorted(wfac)} and the reader divides by {sorted(rfac)}', func=f'{clsname}.export_binary', text=f'{concrete} factor both ways')
    ctx.shape('C20.M1', n_quant >= 5, mod, mod.cls('Tag'), f'quantised slots found: {n_quant} (Tag, AbsoluteTag, Curve, 2x FlexAnimTrack confirmed by hand)', func='Tag', text='quantised slot census')
    ct = mod.methods('CurveType')
    ok = U(ct['parse_binary'].body[-1]) == 'return cls(Interpolation(value >> 8 & 255), Interpolation(value & 255))' and U(ct['export_binary'].body[-1]) == 'return self.first.value << 8 | self.second.value'
    ctx.shape('C20.M1', ok, mod, ct['export_binary'], 'CurveType: first interpolation in the high byte, second in the low byte, both ways', func='CurveType.export_binary', text='CurveType byte positions')
    # flags bits of FlexAnimTrack / SpeakEvent
    fr, fw = U(mod.methods('FlexAnimTrack')['parse_binary']), U(mod.methods('FlexAnimTrack')['export_binary'])
    ok = 'active = flags & 1 != 0' in fr and 'has_direction = flags & 2 != 0' in fr and 'flags = 1 * self.active | 2 * (self.dir_track is not None)' in fw
    ctx.shape('C20.M1', ok, mod, mod.methods('FlexAnimTrack')['export_binary'], 'FlexAnimTrack flag bits: 1 = active, 2 = has direction track', func='FlexAnimTrack.export_binary', text='FlexAnimTrack flag bits')
    er, ew = U(mod.methods('Event')['parse_binary']), U(mod.methods('Event')['export_binary'])
    ok = all(s in er for s in ('use_combined_file=speak_flags & 1 != 0', 'use_gender_token=speak_flags & 2 != 0', 'suppress_caption_attenuation=speak_flags & 4 != 0')) and '2 * self.use_gender_token' in ew and '4 * self.suppress_caption_attenuation' in ew \
        and 'self.use_combined_file)' in ew and '1 * (' in ew
    ctx.shape('C20.M1', ok, mod, mod.methods('Event')['export_binary'], 'SpeakEvent flag bits 1/2/4 agree', func='Event.export_binary', text='SpeakEvent flag bits')
    # event header linkage (name / times / params)
    hr = [n for n in walk_no_nested(mod.methods('Event')['parse_binary']) if isinstance(n, ast.Assign) and "'<bhffhhh'" in U(n.value)]
    hw = [c for c in walk_no_nested(mod.methods('Event')['export_binary']) if isinstance(c, ast.Call) and dotted(c.func) == 'struct.pack' and isinstance(c.args[0], ast.Constant) and c.args[0].value == '<bhffhhh']
    if len(hr) != 1 or len(hw) != 1:
        raise AnalysisError('Event header pack/unpack not found')
    rn = [dotted(e) for e in hr[0].targets[0].elts]                    # type: ignore[attr-defined]
    wargs = list(hw[0].args[1:])
    pb_fn = mod.methods('Event')['parse_binary']
    # reader: header variable -> constructor keyword it feeds (directly, through string_pool[..], or through the parameters tuple)
    feeds: Dict[str, str] = {}
    ptuple = [n for n in walk_no_nested(pb_fn) if isinstance(n, ast.Assign) and dotted(n.targets[0]) == 'parameters' and isinstance(n.value, ast.Tuple)]
    if ptuple:
        for j, el in enumerate(ptuple[0].value.elts):                        # type: ignore[attr-defined]
            for x in ast.walk(el):
                if isinstance(x, ast.Name) and x.id in rn:
                    feeds[x.id] = f'parameters[{j}]'
    for c in ast.walk(pb_fn):
        if isinstance(c, ast.Call) and isinstance(c.func, ast.Name) and c.func.id.endswith('Event'):
            for k in c.keywords:
                for x in ast.walk(k.value):
                    if isinstance(x, ast.Name) and x.id in rn and k.arg:
                        feeds.setdefault(x.id, k.arg)
    for n in walk_no_nested(pb_fn):
        if isinstance(n, ast.Assign) and isinstance(n.value, ast.Call) and dotted(n.value.func) == 'EventType':
            for x in ast.walk(n.value):
                if isinstance(x, ast.Name) and x.id in rn:
                    feeds[x.id] = 'type'
    for i, (r_, w_) in enumerate(zip(rn, wargs)):
        src_w = U(w_)
        m_ = re.search(r'self\.(\w+)(\[\d\])?', src_w)
        wfield = (m_.group(1) + (m_.group(2) or '')) if m_ else None
        rfield = feeds.get(r_ or '')
        if wfield is None or rfield is None:
            ctx.shape('C20.M1', False, mod, w_, f'event header slot {i}: linkage of `{r_}` / `{src_w}` not recognised', func='Event.export_binary', text=f'Event header slot {i} {r_}')
            continue
        ctx.check('C20.M1', rfield == wfield, mod, w_, f'event header slot {i}: the reader uses it (`{r_}`) for `{rfield}` but the writer packs `{src_w}`', func='Event.export_binary', text=f'Event header slot {i} {r_}')
    ok = 'parameters = (string_pool[param_ind1], string_pool[param_ind2], string_pool[param_ind3])' in er and 'name=string_pool[name_ind]' in er
    ctx.shape('C20.M1', ok, mod, mod.methods('Event')['parse_binary'], 'header indexes are resolved through the string pool in the same order', func='Event.parse_binary', text='Event header pool lookups')


# ---- scenes.image -------------------------------------------------------------------------------------------------------------------
def m1_m4_scenes_image(ctx: Any, prog: Program) -> None:
    mod = prog.module('choreo')
    fold = Folder(prog, mod)
    pf, sf = mod.func('parse_scenes_image'), mod.func('save_scenes_image_sync')
    ps, ss = U(pf), U(sf)
    ok = "binformat.struct_read('<4s4i', file)" in ps and "struct.pack('<4siii', b'VSIF', version, len(scene_list), len(pool))" in ss and "deferred.defer('scene_offset', '<i', write=True)" in ss \
        and _at(ss, "struct.pack('<4siii'") < _at(ss, "deferred.defer('scene_offset'") < _at(ss, "deferred.defer('pool_offsets'")
    ctx.shape('C20.M1', ok, mod, sf, 'header: magic, version, scene count, string count, scene table offset - the deferred offset directly follows the packed part', func='save_scenes_image_sync', text='scenes.image header')
    ok = "magic, version, scene_count, string_count, scene_off" in ps.replace('[', '').replace(']', '').replace('\n', ' ').replace('    ', '')
    ctx.shape('C20.M1', ok, mod, pf, 'header fields unpacked in the written order', func='parse_scenes_image', text='scenes.image header linkage')
    ok = "binformat.struct_read('<Iiii', file)" in ps and "struct.pack('<I', entry.checksum)" in ss and "deferred.defer(('data', entry.checksum), '<ii', write=True)" in ss and "deferred.defer(('summary', entry.checksum), '<i', write=True)" in ss \
        and _at(ss, "struct.pack('<I', entry.checksum)") < _at(ss, "deferred.defer(('data'") < _at(ss, "deferred.defer(('summary'") and 'crc, data_off, data_size, summary_off' in ps.replace('(', '').replace(')', '').replace('\n', ' ').replace('    ', '')
    ctx.shape('C20.M1', ok, mod, sf, 'entry record: checksum, (data offset, data size), summary offset - in this order on both sides', func='save_scenes_image_sync', text='scenes.image entry record')
    for ver in (3, 2):
        r = TokWire(mod, fold, {'version == 3': ver == 3}, ignore=('binformat.decompress_lzma',))
        w = TokWire(mod, fold, {'version == 3': ver == 3}, ignore=())
        rloop = [n for n in walk_no_nested(pf) if isinstance(n, ast.For) and 'summary_off' in U(n.target)]
        wloop = [n for n in walk_no_nested(sf) if isinstance(n, ast.For) and "('summary', entry.checksum)" in U(n) and 'set_data' in U(n)]
        if len(rloop) != 1 or len(wloop) != 1:
            raise AnalysisError('scenes.image summary loops not found')
        rsum = [s for s in rloop[0].body if isinstance(s, ast.If) and 'version == 3' in U(s.test)]
        wsum = [s for s in wloop[0].body if isinstance(s, ast.If) and 'version == 3' in U(s.test)]
        if not rsum or not wsum:
            # the version test is no longer an `if` statement (a conditional expression chooses the header): not modelled here
            ctx.shape('C20.M1', False, mod, (wloop[0] if not wsum else rloop[0]), f'summary record v{ver}: the `if version == 3` statement choosing the summary layout was not found', func='save_scenes_image_sync', text=f'scenes.image summary v{ver}')
            continue
        rs, ws = norm(r.block(rsum)), norm(w.block(wsum))
        if '[' in rs or '[' in ws:
            ctx.shape('C20.M1', False, mod, wsum[0], f'summary record v{ver}: a gate is not decided by the configuration (reader `{rs}`, writer `{ws}`)', func='save_scenes_image_sync', text=f'scenes.image summary v{ver}')
        else:
            ctx.check('C20.M1', rs == ws and rs != '', mod, wsum[0], f'summary record v{ver}: reader `{rs}`, writer `{ws}`', func='save_scenes_image_sync', text=f'scenes.image summary v{ver}')
    # one pool index per sound of the entry, in list order: Entry.sounds is a list, parse_scenes_image returns the indexes in file order.  A set
    # or a sort of the indexes (pool order depends on what EARLIER entries put into the pool) gives the list back permuted / without duplicates.
    wl_ = [n for n in walk_no_nested(sf) if isinstance(n, ast.For) and "('summary', entry.checksum)" in U(n) and 'set_data' in U(n)]
    for pc_ in [c for l_ in wl_ for c in ast.walk(l_) if isinstance(c, ast.Call) and dotted(c.func) == 'add_to_pool']:
        ancs_ = _anc20(mod, pc_, wl_[0])
        in_for = any(isinstance(a, ast.For) and (dotted(a.iter) or '').endswith('.sounds') for a in ancs_)
        comp_ = next((a for a in ancs_ if isinstance(a, (ast.ListComp, ast.GeneratorExp, ast.SetComp, ast.DictComp))), None)
        wrapped = [a for a in ancs_ if isinstance(a, ast.Call) and dotted(a.func) in ('sorted', 'set', 'frozenset', 'dict.fromkeys', 'reversed')]
        if in_for and comp_ is None and not wrapped:
            ctx.check('C20.M1', True, mod, pc_, 'one index per sound, in order', func='save_scenes_image_sync', text='scenes.image sounds written one by one in order')
        elif comp_ is not None:
            over_sounds = any((dotted(g.iter) or '').endswith('.sounds') for g in comp_.generators) and not any(g.ifs for g in comp_.generators)
            keeps = isinstance(comp_, (ast.ListComp, ast.GeneratorExp)) and not wrapped and over_sounds
            if isinstance(comp_, ast.SetComp) or wrapped or not over_sounds:
                ctx.check('C20.M1', False, mod, comp_, f'save_scenes_image_sync writes the sound indexes of an entry as `{U(wrapped[0] if wrapped else comp_)[:60]}`: a set / sorted collection of pool indexes, not one index per sound '
                          'in the order of Entry.sounds - the pool position of a sound depends on the entries written before, so parse_scenes_image returns the list permuted (and without its duplicates)',
                          func='save_scenes_image_sync', text='scenes.image sounds written one by one in order')
            else:
                ctx.check('C20.M1', keeps, mod, comp_, 'one index per sound, in order', func='save_scenes_image_sync', text='scenes.image sounds written one by one in order')
    ok = "struct.pack('<Iii', entry.duration_ms, entry.last_speak_ms, len(entry.sounds))" in ss and "struct.pack('<Ii', entry.duration_ms, len(entry.sounds))" in ss and '[duration, last_speak, sound_count] = binformat.struct_read' in ps \
        and '[duration, sound_count] = binformat.struct_read' in ps and 'Entry(' in ps and "duration, last_speak, sounds" in ps.replace('\n', ' ').replace('    ', '')
    ctx.shape('C20.M1', ok, mod, sf, 'summary fields: duration, last speak (v3), sound count; constructor receives them in that order', func='save_scenes_image_sync', text='scenes.image summary linkage')
    ok = "binformat.struct_read(f'<{sound_count}i', file)" in ps and "file.write(struct.pack('<i', add_to_pool(sound)))" in ss
    ctx.shape('C20.M1', ok, mod, sf, 'sound list: 32-bit pool indexes, count from the summary', func='save_scenes_image_sync', text='scenes.image sound indexes')
    ok = "binformat.read_offset_array(file, string_count, 'latin1')" in ps and "deferred.set_data('pool_offsets', binformat.write_array('<i', offsets))" in ss and "file.write(string.encode(encoding) + b'\\x00')" in ss
    ctx.shape('C20.M1', ok, mod, sf, 'string pool: offset array then NUL-terminated strings', func='save_scenes_image_sync', text='scenes.image string pool')
    # ---- M4
    # (structural: the list is whatever the checksum-table loop iterates, the loop variable whatever it binds)
    def packs_checksum(loop: ast.For) -> bool:
        return isinstance(loop.target, ast.Name) and any(
            isinstance(c, ast.Call) and dotted(c.func) == 'struct.pack' and len(c.args) == 2 and isinstance(c.args[0], ast.Constant) and expand(str(c.args[0].value)) == 'I'
            and isinstance(c.args[1], ast.Attribute) and c.args[1].attr == 'checksum' and dotted(c.args[1].value) == loop.target.id for st in loop.body for c in ast.walk(st))
    table = [n for n in walk_no_nested(sf) if isinstance(n, ast.For) and packs_checksum(n)]
    if len(table) != 1 or not dotted(table[0].iter):
        raise AnalysisError('scenes.image entry table loop not found')
    lst = dotted(table[0].iter)

    def sort_key_kind(call: ast.Call) -> str:
        kw = {k.arg: k.value for k in call.keywords}
        if 'reverse' in kw and not (isinstance(kw['reverse'], ast.Constant) and kw['reverse'].value is False):
            return 'descending'
        k = kw.get('key')
        if k is None:
            return 'no key'
        if isinstance(k, ast.Lambda) and len(k.args.args) == 1:
            b_ = k.body
            if isinstance(b_, ast.Attribute) and isinstance(b_.value, ast.Name) and b_.value.id == k.args.args[0].arg:
                return 'checksum' if b_.attr == 'checksum' else f'attribute {b_.attr}'
            return 'unknown'
        if isinstance(k, ast.Call) and (dotted(k.func) or '').split('.')[-1] == 'attrgetter' and len(k.args) == 1 and isinstance(k.args[0], ast.Constant):
            return 'checksum' if k.args[0].value == 'checksum' else f'attribute {k.args[0].value}'
        return 'unknown'
    # the summary of an entry is what its scene says about itself: Entry.from_scene takes duration / last speak / sounds from the scene's own
    # methods (which the readers of a scene use as well); a summary worked out separately is a second definition that can disagree
    # an entry whose Scene has been handed out is no longer raw: the writer copies `_data` verbatim while it is still the (bytes, pool) pair,
    # and a Scene is mutable - so the `data` property replaces `_data` by the Scene it parses.  A parse kept in another field leaves the raw
    # block in place, and every edit made through the returned Scene is dropped on save.
    dprop = next((f_ for f_ in mod.cls('Entry').body if isinstance(f_, ast.FunctionDef) and f_.name == 'data' and any(dotted(d) == 'property' for d in f_.decorator_list)), None)
    if dprop is None:
        ctx.shape('C20.M4', False, mod, mod.cls('Entry'), 'Entry.data property not found', func='Entry.data', text='parsed scene replaces the raw block')
    else:
        parses = [c for c in ast.walk(dprop) if isinstance(c, ast.Call) and (dotted(c.func) or '').endswith('parse_binary')]
        ctx.shape('C20.M4', len(parses) == 1, mod, dprop, f'{len(parses)} parse_binary calls in Entry.data', func='Entry.data', text='Entry.data parses the raw block')
        for pc in parses:
            asg = mod.parents.get(pc)
            into = [dotted(t) for t in asg.targets] if isinstance(asg, ast.Assign) else []
            me_d = dprop.args.args[0].arg
            ctx.check('C20.M4', f'{me_d}._data' in into, mod, pc, f'Entry.data stores the parsed Scene in `{into[0] if into else U(asg)[:40]}` and leaves `_data` holding the raw bytes: the image writer copies raw entries '
                      'verbatim, so changes made to the Scene this property returned are never written', func='Entry.data', text='parsed scene replaces the raw block')
    fsn = mod.methods('Entry').get('from_scene')
    if fsn is None:
        ctx.shape('C20.M4', False, mod, sf, 'Entry.from_scene not found', func='Entry.from_scene', text='summary from the scene')
    else:
        sc_param = fsn.args.args[-1].arg
        want_src = {'duration_ms': 'duration', 'last_speak_ms': 'duration', 'sounds': 'used_sounds'}
        ctor = [c for c in ast.walk(fsn) if isinstance(c, ast.Call) and any(k.arg in want_src for k in c.keywords)]
        ctx.shape('C20.M4', len(ctor) == 1, mod, fsn, 'Entry.from_scene builds the entry with duration_ms / last_speak_ms / sounds keywords', func='Entry.from_scene', text='summary from the scene')
        for c in ctor:
            for k in c.keywords:
                if k.arg in want_src:
                    # named temporaries (assigned once) are followed
                    exprs_ = [k.value]
                    seen_ = set()
                    for _ in range(4):
                        for nm_ in [x.id for e_ in exprs_ for x in ast.walk(e_) if isinstance(x, ast.Name)]:
                            if nm_ in seen_:
                                continue
                            seen_.add(nm_)
                            d_ = [a.value for a in walk_no_nested(fsn) if isinstance(a, ast.Assign) and any(isinstance(t, ast.Name) and t.id == nm_ for t in a.targets)]
                            if len(d_) == 1:
                                exprs_.append(d_[0])
                    calls_ = [x for e_ in exprs_ for x in ast.walk(e_) if isinstance(x, ast.Call) and isinstance(x.func, ast.Attribute) and isinstance(x.func.value, ast.Name) and x.func.value.id == sc_param and x.func.attr == want_src[k.arg]]
                    ctx.shape('C20.M4', bool(calls_), mod, k.value, f'`{k.arg}` is computed as `{U(k.value)[:60]}`, not from {sc_param}.{want_src[k.arg]}(): whether it agrees with what the scene reports is not decided here',
                              func='Entry.from_scene', text=f'{k.arg} taken from scene.{want_src[k.arg]}()')
                    if k.arg == 'last_speak_ms' and calls_:
                        ctx.check('C20.M4', any(dotted(a) == 'EventType.Speak' for a in calls_[0].args) or any(dotted(kw.value) == 'EventType.Speak' for kw in calls_[0].keywords), mod, k.value,
                                  'last_speak_ms must be the duration of the Speak events only', func='Entry.from_scene', text='last_speak_ms filtered to Speak events')
    sort = [n for n in walk_no_nested(sf) if (isinstance(n, ast.Expr) and isinstance(n.value, ast.Call) and dotted(n.value.func) == f'{lst}.sort')
            or (isinstance(n, ast.Assign) and dotted(n.targets[0]) == lst and isinstance(n.value, ast.Call) and dotted(n.value.func) == 'sorted' and n.value.args and dotted(n.value.args[0]) == lst)]
    sort = [n for n in sort if n.lineno < table[0].lineno]
    kinds_ = [sort_key_kind(n.value) for n in sort]
    ctx.shape('C20.M4', 'unknown' not in kinds_, mod, sort[0] if sort else sf, f'sort key of the entry list is a lambda / attrgetter on one attribute', func='save_scenes_image_sync', text='sorted before table')
    ok = bool(sort) and kinds_[-1] == 'checksum'
    if 'unknown' not in kinds_:
        ctx.check('C20.M4', ok, mod, sort[-1] if sort else sf, 'the entry list must be sorted by checksum (ascending) before the table is written - the game binary-searches it'
                  + (f'; it is sorted by: {kinds_[-1]}' if sort else '; no sort of the list precedes the table loop'), func='save_scenes_image_sync', text='sorted before table')
    last_sort = sort[-1].lineno if sort else 0
    muts = [n for n in walk_no_nested(sf) if isinstance(n, ast.Call) and isinstance(n.func, ast.Attribute) and dotted(n.func.value) == lst and n.func.attr in ('append', 'extend', 'insert', 'reverse', 'pop', 'remove', 'sort')
            and sort and n.lineno > last_sort]
    reassign = [n for n in walk_no_nested(sf) if isinstance(n, ast.Assign) and dotted(n.targets[0]) == lst and sort and n.lineno > last_sort]
    ctx.check('C20.M4', not muts and not reassign, mod, (muts + reassign)[0] if muts or reassign else sf, f'{lst} is changed again after sorting', func='save_scenes_image_sync', text='no mutation after sort')
    per_entry = [n for n in walk_no_nested(sf) if isinstance(n, ast.For) and isinstance(n.target, ast.Name) and n.lineno > last_sort
                 and any(isinstance(x, ast.Attribute) and x.attr == 'checksum' and dotted(x.value) == n.target.id for st in n.body for x in ast.walk(st))]
    ok = all(dotted(n.iter) == lst for n in per_entry) and len(per_entry) >= 3
    ctx.check('C20.M4', ok, mod, table[0], f'table, summaries and data iterate the same sorted list ({len(per_entry)} per-entry loops after the sort, over {sorted({U(n.iter) for n in per_entry})})',
              func='save_scenes_image_sync', text='one list for table, summaries, data')
    ok = "deferred.set_data(('summary', entry.checksum), file.tell())" in ss and "deferred.set_data(('data', entry.checksum), file.tell(), len(data))" in ss and 'data = entry_to_data[entry]' in ss
    ctx.shape('C20.M4', ok, mod, sf, "each entry's summary offset, data offset and data length are set on the slots keyed by that entry", func='save_scenes_image_sync', text='offsets keyed per entry')
    # the pool must give every distinct string its own entry: pool[index(s)] == s requires an injective key
    fi = [c for c in ast.walk(sf) if isinstance(c, ast.Call) and dotted(c.func) in ('binformat.find_or_insert', 'find_or_insert')]
    if len(fi) != 1:
        ctx.shape('C20.M4', False, mod, sf, 'string pool construction (find_or_insert) not found', func='save_scenes_image_sync', text='pool key is the string itself')
    else:
        key = fi[0].args[1] if len(fi[0].args) > 1 else next((k.value for k in fi[0].keywords if k.arg == 'key_func'), None)
        ident = isinstance(key, ast.Lambda) and len(key.args.args) == 1 and isinstance(key.body, ast.Name) and key.body.id == key.args.args[0].arg
        lossy = key is not None and (dotted(key) or '').split('.')[-1] in ('casefold', 'lower', 'upper', 'strip', 'title', 'len', 'hash')
        if key is None:
            ctx.check('C20.M4', False, mod, fi[0], 'find_or_insert defaults to key=id: equal strings that are different objects get different pool entries and, worse, recycled ids can alias', func='save_scenes_image_sync', text='pool key is the string itself')
        elif ident or lossy:
            ctx.check('C20.M4', ident, mod, fi[0], f'the string pool is keyed by `{U(key)}`: two different strings with the same key share one pool entry, so the second reads back as the first', func='save_scenes_image_sync',
                      text='pool key is the string itself')
        else:
            ctx.shape('C20.M4', False, mod, fi[0], f'pool key function `{U(key)}` not recognised', func='save_scenes_image_sync', text='pool key is the string itself')
    ok = "entry_to_data[entry] = entry.data.export_binary(add_to_pool)" in ss and 'for sound in entry.sounds:\n            add_to_pool(sound)' in ss and _at(ss, 'add_to_pool(sound)') < _at(ss, "struct.pack('<4siii'")
    ctx.shape('C20.M4', ok, mod, sf, 'all sounds and scene strings are pooled before the pool size is written', func='save_scenes_image_sync', text='pool complete before header')


# ---- M2 choreo text -------------------------------------------------------------------------------------------------------------------
def written_lines(fn: ast.AST) -> List[Tuple[str, ast.AST]]:
    """first word of every line a text writer emits (placeholders for the indent are dropped)"""
    out: List[Tuple[str, ast.AST]] = []
    for c in walk_no_nested(fn):
        if not (isinstance(c, ast.Call) and isinstance(c.func, ast.Attribute) and c.func.attr == 'write' and dotted(c.func.value) == 'file' and c.args):
            continue
        for x in ([c.args[0]] if not isinstance(c.args[0], ast.IfExp) else [c.args[0].body, c.args[0].orelse]):
            if isinstance(x, ast.Constant) and isinstance(x.value, str):
                tmpl = x.value
            elif isinstance(x, ast.JoinedStr):
                tmpl = ''.join(str(v.value) if isinstance(v, ast.Constant) else ('\x00' if U(v.value) == 'indent' else '\x01') for v in x.values)   # type: ignore[attr-defined]
            else:
                continue
            for line in tmpl.split('\n'):
                s = line.replace('\x00', '').strip()
                m = re.match(r'([A-Za-z_][A-Za-z_0-9]*)', s)
                if m and not line.lstrip('\x00 ').startswith('\x01') and not s.startswith('//'):
                    out.append((m.group(1), c))
    return out


def reader_keywords(mod: Any, fn: ast.AST, fold: Folder) -> Tuple[Set[str], Set[str]]:
    """keywords compared against by a parse_text function, and those whose handler raises NotImplementedError"""
    kws: Set[str] = set()
    unimpl: Set[str] = set()
    # locals holding token text: the second target of a loop over the tokenizer, results of tokenizer.expect()/next-token calls, and anything
    # computed from those by casefold()/lower()
    tok_names: Set[str] = {'folded', 'tok_val', 'abs_kind'}
    for _ in range(2):
        for a in ast.walk(fn):
            if isinstance(a, ast.For) and isinstance(a.target, ast.Tuple) and len(a.target.elts) == 2 and isinstance(a.target.elts[1], ast.Name) and 'tok' in U(a.iter).lower():
                tok_names.add(a.target.elts[1].id)
            if isinstance(a, ast.For) and isinstance(a.target, ast.Name) and isinstance(a.iter, ast.Call) and 'tok' in U(a.iter.func).lower():
                tok_names.add(a.target.id)                  # `for key_name in tokenizer.block(...)`
            if isinstance(a, ast.Assign) and isinstance(a.value, ast.Call) and isinstance(a.value.func, ast.Attribute):
                v_ = a.value
                if v_.func.attr in ('casefold', 'lower') and isinstance(v_.func.value, ast.Name) and v_.func.value.id in tok_names:
                    tok_names.update(t.id for t in a.targets if isinstance(t, ast.Name))
                if v_.func.attr == 'expect' or (v_.func.attr == 'casefold' and isinstance(v_.func.value, ast.Call) and isinstance(v_.func.value.func, ast.Attribute) and v_.func.value.func.attr == 'expect'):
                    tok_names.update(t.id for t in a.targets if isinstance(t, ast.Name))
            if isinstance(a, ast.Assign) and isinstance(a.targets[0], ast.Tuple) and len(a.targets[0].elts) == 2 and isinstance(a.value, ast.Call) and 'tok' in U(a.value.func).lower() \
                    and isinstance(a.targets[0].elts[1], ast.Name):
                tok_names.add(a.targets[0].elts[1].id)
    for n in ast.walk(fn):
        if isinstance(n, ast.Compare) and len(n.ops) == 1 and isinstance(n.ops[0], ast.Eq) and isinstance(n.comparators[0], ast.Constant) and isinstance(n.comparators[0].value, str) and dotted(n.left) in tok_names:
            kws.add(n.comparators[0].value)
        if isinstance(n, ast.Compare) and isinstance(n.ops[0], ast.In) and dotted(n.left) in tok_names and isinstance(n.comparators[0], ast.Name):
            try:
                tbl = fold.global_(n.comparators[0].id)
                kws |= {k for k in tbl if isinstance(k, str)}
            except (FoldError, AnalysisError):
                pass
        if isinstance(n, ast.If) and isinstance(n.test, ast.Compare) and isinstance(n.test.comparators[0], ast.Constant) and any(isinstance(s, ast.Raise) and 'NotImplementedError' in U(s) for s in n.body):
            unimpl.add(n.test.comparators[0].value)
    return kws, unimpl


# extra fields the guard of a flag keyword may test, confirmed by reading (one line of reason each)
FLAG_EXTRA_GUARD = {
    'cc_usingcombinedfile': {'caption_type'},      # Valve's own writer: a combined file is only recorded for an enabled caption; not representable otherwise
}


def m2_choreo_flags(ctx: Any, mod: Any) -> None:
    """A bare keyword that the reader turns into `<field> = True` is the text form of that one boolean: the writer has to emit it whenever
    the field is set.  The guard around its write may therefore test that field only (plus the frozen, explained exceptions above); a guard
    that also asks for another flag loses the field for every event that has the one without the other."""
    rd, wr = mod.methods('Event')['parse_text'], mod.methods('Event')['export_text']
    kw_local: Dict[str, str] = {}
    for n in ast.walk(rd):
        if isinstance(n, ast.If) and isinstance(n.test, ast.Compare) and len(n.test.ops) == 1 and isinstance(n.test.ops[0], ast.Eq) and isinstance(n.test.comparators[0], ast.Constant) \
                and isinstance(n.test.comparators[0].value, str):
            body = [b for b in n.body if not (isinstance(b, ast.Expr) and isinstance(b.value, ast.Call))]
            if len(body) == 1 and isinstance(body[0], ast.Assign) and isinstance(body[0].value, ast.Constant) and body[0].value.value is True and isinstance(body[0].targets[0], ast.Name):
                kw_local[n.test.comparators[0].value] = body[0].targets[0].id
    local_field: Dict[str, str] = {}
    for c in ast.walk(rd):
        if isinstance(c, ast.Call):
            for k in c.keywords:
                if k.arg and isinstance(k.value, ast.Name) and k.value.id in kw_local.values():
                    local_field[k.value.id] = k.arg
    ctx.shape('C20.M2', len(kw_local) >= 3, mod, rd, f'{len(kw_local)} flag keywords (`key == "kw"` -> `local = True`) found in Event.parse_text (3 confirmed by hand)', func='Event.parse_text', text='choreo flag keywords')
    me = wr.args.args[0].arg
    for kw, loc in sorted(kw_local.items()):
        field = local_field.get(loc)
        if field is None:
            ctx.shape('C20.M2', False, mod, rd, f'the local `{loc}` set by keyword {kw!r} is not handed to a constructor by name', func='Event.parse_text', text=f'choreo flag {kw}: field')
            continue
        writes = [c for c in ast.walk(wr) if isinstance(c, ast.Call) and isinstance(c.func, ast.Attribute) and c.func.attr == 'write' and c.args
                  and any(isinstance(x, ast.Constant) and isinstance(x.value, str) and re.search(r'(^|\s)' + re.escape(kw) + r'\s*\n', x.value) for x in ast.walk(c.args[0]))]
        if len(writes) != 1:
            ctx.shape('C20.M2', False, mod, wr, f'{len(writes)} writes of the bare keyword {kw!r} in Event.export_text', func='Event.export_text', text=f'choreo flag {kw}: write')
            continue
        guard_fields: Set[str] = set()
        ch, par = writes[0], mod.parents.get(writes[0])
        while par is not None and par is not wr:
            if isinstance(par, ast.If) and any(ch is b or any(ch is x for x in ast.walk(b)) for b in par.body):
                guard_fields |= {x.attr for x in ast.walk(par.test) if isinstance(x, ast.Attribute) and isinstance(x.value, ast.Name) and x.value.id == me}
            elif isinstance(par, ast.If):
                guard_fields.add('<else-branch>')
            ch, par = par, mod.parents.get(par)
        extra = guard_fields - {field} - FLAG_EXTRA_GUARD.get(kw, set())
        ctx.check('C20.M2', field in guard_fields and not extra, mod, writes[0], f'the keyword {kw!r} is read back as `{field} = True` on its own, but Event.export_text writes it only when {sorted(guard_fields)} allow: '
                  + (f'an event with `{field}` set and {sorted(extra)} not satisfied is written without it and reads back with `{field}` False' if extra else f'its own field `{field}` is not what decides the write'),
                  func='Event.export_text', text=f'choreo flag {kw} written iff {field}')


def _anc20(mod: Any, n: ast.AST, stop: Any) -> List[ast.AST]:
    out = []
    p = mod.parents.get(n)
    while p is not None and p is not stop:
        out.append(p)
        p = mod.parents.get(p)
    return out


def m2_choreo_params(ctx: Any, mod: Any) -> None:
    """The three event parameters are read back by position (`param`, `param2`, `param3` -> parameters[0..2]) independently of one another,
    so whether one of them is written may depend on that one only: a guard on another slot, or a loop that stops at the first empty slot,
    drops a later parameter that is set."""
    wr = mod.methods('Event')['export_text']
    me = wr.args.args[0].arg
    n_inst = 0
    for c in ast.walk(wr):
        if not (isinstance(c, ast.Call) and isinstance(c.func, ast.Attribute) and c.func.attr == 'write' and c.args):
            continue
        slots = {x.slice.value for x in ast.walk(c.args[0]) if isinstance(x, ast.Subscript) and dotted(x.value) == f'{me}.parameters' and isinstance(x.slice, ast.Constant) and isinstance(x.slice.value, int)}
        if len(slots) != 1:
            continue
        k = next(iter(slots))
        n_inst += 1
        tested: Set[Any] = set()
        ch, par = c, mod.parents.get(c)
        while par is not None and par is not wr:
            if isinstance(par, ast.If):
                for x in ast.walk(par.test):
                    if isinstance(x, ast.Subscript) and dotted(x.value) == f'{me}.parameters':
                        tested.add(x.slice.value if isinstance(x.slice, ast.Constant) else '?')
            ch, par = par, mod.parents.get(par)
        ctx.check('C20.M2', tested <= {k}, mod, c, f'parameters[{k}] is written only when parameters{sorted(tested - {k}, key=str)} allow: an event with this slot set and the other empty loses it '
                  '(the reader fills the three slots independently)', func='Event.export_text', text=f'choreo parameters[{k}] written on its own condition')
    # loops that write one line per item must not stop at an item: the rest is never looked at
    for cls_ in ('Event', 'Channel', 'Actor', 'Scene'):
        fn = mod.methods(cls_)['export_text']
        for lp in walk_no_nested(fn):
            if not isinstance(lp, ast.For):
                continue
            writes_ = any(isinstance(c, ast.Call) and isinstance(c.func, ast.Attribute) and c.func.attr in ('write', 'export_text') for b in lp.body for c in ast.walk(b))
            if not writes_:
                continue
            lvars = {x.id for x in ast.walk(lp.target) if isinstance(x, ast.Name)}
            def own_breaks(stmts: Any) -> Any:
                for st in stmts:
                    if isinstance(st, ast.Break):
                        yield st
                    elif isinstance(st, (ast.For, ast.While, ast.FunctionDef)):
                        continue
                    else:
                        for fld in ('body', 'orelse', 'finalbody'):
                            yield from own_breaks(getattr(st, fld, []) or [])
                        for h in getattr(st, 'handlers', []):
                            yield from own_breaks(h.body)
            brs = list(own_breaks(lp.body))
            n_inst += 1
            for br in brs:
                guards = [a for a in _anc20(mod, br, lp) if isinstance(a, ast.If)]
                item_dep = any(isinstance(x, ast.Name) and x.id in lvars for g in guards for x in ast.walk(g.test))
                if not item_dep:
                    ctx.shape('C20.M2', False, mod, br, f'`break` in a writing loop of {cls_}.export_text under a condition that does not mention the item', func=f'{cls_}.export_text', text=f'{cls_}.export_text: writing loops visit every item')
                    continue
                ctx.check('C20.M2', False, mod, br, f'the loop `for {U(lp.target)} in {U(lp.iter)[:40]}` of {cls_}.export_text writes one line per item but stops at the first item for which `{U(guards[0].test)[:60]}` holds: '
                          'later items that should be written are never reached (the reader takes each of them independently)', func=f'{cls_}.export_text', text=f'{cls_}.export_text: writing loops visit every item')
            if not brs:
                ctx.check('C20.M2', True, mod, lp, 'no break', func=f'{cls_}.export_text', text=f'{cls_}.export_text: writing loops visit every item')
    ctx.shape('C20.M2', n_inst >= 3, mod, wr, f'{n_inst} parameter writes / writing loops found in the choreo writers', func='Event.export_text', text='choreo parameter writes')


def m2_choreo_text(ctx: Any, prog: Program) -> None:
    mod = prog.module('choreo')
    fold = Folder(prog, mod)
    m2_choreo_flags(ctx, mod)
    m2_choreo_params(ctx, mod)
    # (writer class.method, reader class.method that consumes its lines, extra keywords the reader's caller handles)
    pairs = [
        ('Event', 'Event', {'event'}), ('Channel', 'Channel', {'channel'}), ('Actor', 'Actor', {'actor'}), ('Scene', 'Scene', set()),
    ]
    block_words = {'Tag': set(), 'Curve': {'leftedge', 'rightedge'}}
    all_reader_kw: Dict[str, Set[str]] = {}
    all_unimpl: Dict[str, Set[str]] = {}
    for cls in ('Event', 'Channel', 'Actor', 'Scene', 'Curve'):
        k, u = reader_keywords(mod, mod.methods(cls)['parse_text'], fold)
        all_reader_kw[cls], all_unimpl[cls] = k, u
    # keywords introducing a nested record are consumed by the parent's reader
    parent_of = {'Event': ['Channel', 'Scene'], 'Channel': ['Actor'], 'Actor': ['Scene']}
    for wcls, rcls, own in pairs:
        fn = mod.methods(wcls)['export_text']
        seen: Set[str] = set()
        for kw, node in written_lines(fn):
            low = kw.casefold()
            if low in seen:
                continue
            seen.add(low)
            if low in own:
                ok = all(low in all_reader_kw[p] for p in parent_of.get(wcls, []))
                ctx.check('C20.M2', ok, mod, node, f'{wcls}.export_text opens its record with `{kw}` but a parent reader does not dispatch on it', func=f'{wcls}.export_text', text=f'{wcls} keyword {low}')
                continue
            handled = low in all_reader_kw[rcls]
            ctx.check('C20.M2', handled, mod, node, f'{wcls}.export_text writes a line starting with `{kw}` that {rcls}.parse_text has no branch for', func=f'{wcls}.export_text', text=f'{wcls} keyword {low}')
            if handled:
                ctx.check('C20.M2', low not in all_unimpl[rcls], mod, node, f'{wcls}.export_text writes `{kw}` but the branch of {rcls}.parse_text for it raises NotImplementedError: a scene using it cannot be read back',
                          func=f'{wcls}.export_text', text=f'{wcls} keyword {low} implemented')
    # block names passed to the tag / curve writers are dispatched on by Event.parse_text / Scene.parse_text
    ev_exp = mod.methods('Event')['export_text']
    for c in walk_no_nested(ev_exp):
        if isinstance(c, ast.Call) and isinstance(c.func, ast.Attribute) and c.func.attr == 'export_text' and c.args and isinstance(c.args[-1], ast.Constant) and isinstance(c.args[-1].value, str):
            words = c.args[-1].value.split()
            ok = all(w in all_reader_kw['Event'] for w in words)
            ctx.check('C20.M2', ok, mod, c, f'block name `{c.args[-1].value}` written through {dotted(c.func)} is not dispatched on by Event.parse_text', func='Event.export_text', text=f'Event block {c.args[-1].value}')
    ok = "self.ramp.export_text(file, '', 'scene_ramp')" in U(mod.methods('Scene')['export_text']) and 'scene_ramp' in all_reader_kw['Scene']
    ctx.shape('C20.M2', ok, mod, mod.methods('Scene')['export_text'], 'scene ramp block name', func='Scene.export_text', text='Scene block scene_ramp')
    # quoted slots
    quoted_slot_lint(ctx, mod, [f'{c}.export_text' for c in ('Event', 'Channel', 'Actor', 'Scene', 'Tag', 'FlexAnimTrack')], ('escape_text',), 'C20.M2')
    # flexanimations block is closed
    src = U(ev_exp)
    opened = 'flexanimations samples_use_time' in src
    if opened:
        flex_if = [n for n in walk_no_nested(ev_exp) if isinstance(n, ast.If) and U(n.test) == 'self.flex_anim_tracks']
        closes = bool(flex_if) and any(isinstance(s, ast.Expr) and isinstance(s.value, ast.Call) and dotted(s.value.func) == 'file.write' and '}' in U(s.value.args[0]) for s in flex_if[0].body[-1:])
        ctx.check('C20.M2', closes, mod, flex_if[0] if flex_if else ev_exp, 'Event.export_text opens the `flexanimations` block with `{` but never writes the closing brace after the tracks', func='Event.export_text',
                  text='flexanimations block closed')


def field_is_str(mod: Any, cls: Optional[str], e: ast.AST) -> Optional[bool]:
    """is `self.attr` a str-typed field?  None when unknown"""
    if cls and isinstance(e, ast.Attribute) and dotted(e.value) == 'self' and mod.has_class(cls):
        ann = field_types(mod, cls).get(e.attr)
        if ann is None and mod.has_class('Event') and cls.endswith('Event'):
            ann = field_types(mod, 'Event').get(e.attr)
        if ann is not None:
            if re.fullmatch(r'(int|float|bool|CurveType|Interpolation)', ann):
                return False
            if 'str' in ann:
                return True
    return None


def quoted_slot_lint(ctx: Any, mod: Any, quals: Sequence[str], escapers: Sequence[str], rule: str) -> int:
    n = 0
    for qual in quals:
        fn = mod.func(qual)
        cls = qual.split('.')[0] if '.' in qual else None
        for c in ast.walk(fn):
            if not (isinstance(c, ast.Call) and isinstance(c.func, ast.Attribute) and c.func.attr in ('write', 'writelines') and c.args):
                continue
            for js in [x for x in ast.walk(c.args[0]) if isinstance(x, ast.JoinedStr)]:
                inq = False
                for v in js.values:
                    if isinstance(v, ast.Constant):
                        for ch in str(v.value):
                            if ch == '"':
                                inq = not inq
                        continue
                    if not inq:
                        continue
                    inner = v.value                                          # type: ignore[attr-defined]
                    src = U(inner)
                    if isinstance(inner, ast.Call) and dotted(inner.func) in escapers:
                        n += 1
                        ctx.check(rule, True, mod, c, 'escaped', func=qual, text=f'{qual} quoted slot {src[:40]}')
                        continue
                    # subclass attributes used under isinstance() in the base class
                    is_str = field_is_str(mod, cls, inner)
                    if is_str is None and isinstance(inner, ast.Attribute) and dotted(inner.value) == 'self':
                        for sub in ('SpeakEvent', 'LoopEvent', 'GestureEvent'):
                            if mod.has_class(sub) and inner.attr in field_types(mod, sub):
                                is_str = field_is_str(mod, sub, inner)
                    if is_str is False:
                        continue
                    if isinstance(inner, ast.Subscript) and isinstance(inner.value, ast.Name) and inner.value.id.isupper():
                        continue                                             # table of constant names (checked in M5)
                    if isinstance(inner, ast.Attribute) and inner.attr == 'curve_type':
                        continue                                             # CurveType.__str__: curve_<name>_to_curve_<name>
                    if isinstance(inner, ast.Call) and dotted(inner.func) in ('join_float',):
                        continue                                             # numbers / enum constant names and ", "
                    n += 1
                    ctx.check(rule, False, mod, c, f'`{src}` is written between quotes without {escapers[0]}(): a quote in it ends the string early and backslash sequences are decoded when the file is read back',
                              func=qual, text=f'{qual} quoted slot {src[:40]}')
    return n


def m2_curve_edges(ctx: Any, prog: Program) -> None:
    """Curve.export_text writes `leftedge ...` and `rightedge ...` one after the other when both edges are active; parse_text has to test for
    each keyword on its own - as an if/elif pair the second keyword is never looked for once the first was found."""
    mod = prog.module('choreo')
    pt = mod.func('Curve.parse_text')
    ifs = [i for i in ast.walk(pt) if isinstance(i, ast.If)]
    def _kw(i: ast.If, word: str) -> bool:
        return any(isinstance(c, ast.Constant) and c.value == word for c in ast.walk(i.test))
    left = [i for i in ifs if _kw(i, 'leftedge')]
    right = [i for i in ifs if _kw(i, 'rightedge')]
    ctx.shape('C20.M2', len(left) == 1 and len(right) == 1, mod, pt, 'the tests for the `leftedge` and `rightedge` keywords were not found once each in Curve.parse_text', func='Curve.parse_text', text='ramp edge keywords')
    if len(left) == 1 and len(right) == 1:
        nested = any(right[0] is x for st in left[0].orelse for x in ast.walk(st))
        ctx.check('C20.M2', not nested, mod, right[0], 'Curve.parse_text looks for `rightedge` only when it has not just read `leftedge` (an elif): export_text writes both keywords when both edges are active, so the reader '
                  'meets `rightedge` where it expects the opening brace and refuses the writer\'s own output', func='Curve.parse_text', text='ramp edge keywords are tested independently')


# ---- M2 sndscript -----------------------------------------------------------------------------------------------------------------------
def m2_sndscript(ctx: Any, prog: Program) -> None:
    mod = prog.module('sndscript')
    exp, par = mod.func('Sound.export'), mod.func('Sound.parse_one')
    quoted_slot_lint(ctx, mod, ['Sound.export'], ('escape_text',), 'C20.M2')
    esrc, psrc = U(exp), U(par)
    # multi-token values must be quoted: join_float may return "low, high"
    jf = U(mod.func('join_float'))
    multi = "', '" in jf or '", "' in jf or ', {' in jf
    for c in walk_no_nested(exp):
        if isinstance(c, ast.Call) and dotted(c.func) == 'file.write' and c.args and isinstance(c.args[0], ast.JoinedStr):
            inq = False
            for v in c.args[0].values:
                if isinstance(v, ast.Constant):
                    for ch in str(v.value):
                        if ch == '"':
                            inq = not inq
                elif isinstance(v.value, ast.Call) and dotted(v.value.func) == 'join_float':       # type: ignore[attr-defined]
                    key = U(c.args[0].values[0]).strip("'\\t ") if c.args[0].values else '?'
                    ctx.check('C20.M2', inq or not multi, mod, c, f'`{U(v.value)}` can produce "low, high"; written outside quotes the comma becomes a token of its own and the file no longer parses',   # type: ignore[attr-defined]
                              func='Sound.export', text=f'range value quoted: {U(v.value)[:40]}')                                                                    # type: ignore[attr-defined]
    # a key the writer leaves out when it has its usual value is filled in by the reader with that very value: `if self.volume != (1, 1):` on
    # one side, default 1.0 on the other.  A default that is not numerically that constant (the symbol VOL_NORM is not the number 1) reads back
    # as something the writer then does NOT leave out - the value changes, and so does the second export.
    sfold = Folder(prog, mod)
    for key_ in ('volume', 'pitch'):
        omit = [t for t in ast.walk(exp) if isinstance(t, ast.Compare) and len(t.ops) == 1 and isinstance(t.ops[0], ast.NotEq) and dotted(t.left) == f'self.{key_}' and isinstance(t.comparators[0], ast.Tuple)
                and all(isinstance(e, ast.Constant) and isinstance(e.value, (int, float)) for e in t.comparators[0].elts)]
        dflt = [c for c in ast.walk(par) if isinstance(c, ast.Call) and dotted(c.func) == 'parse_split_float' and len(c.args) >= 4 and isinstance(c.args[1], ast.Constant) and c.args[1].value == key_]
        if len(omit) != 1 or len(dflt) != 1:
            ctx.shape('C20.M2', False, mod, exp, f'omission test / reader default of `{key_}` not found once', func='Sound.export', text=f'soundscript default of {key_}')
            continue
        consts_ = {float(e.value) for e in omit[0].comparators[0].elts}
        d_ = dflt[0].args[3]
        try:
            dv = sfold.fold(d_, {})
        except Exception:          # noqa: BLE001
            dv = None
        num = None
        if isinstance(dv, (int, float)) and not isinstance(dv, bool):
            num = float(dv)
        elif dv is not None and hasattr(dv, 'value') and hasattr(dv, 'cls') and mod.has_class(dv.cls) and any(dotted(b) == 'float' for b in mod.cls(dv.cls).bases) and isinstance(dv.value, (int, float)):
            num = float(dv.value)          # a float-derived enum member compares equal to its number
        ctx.check('C20.M2', num is not None and consts_ == {num}, mod, d_, f'Sound.export leaves `{key_}` out when it equals {tuple(sorted(consts_))}, but parse_one fills a missing `{key_}` with `{U(d_)}`'
                  + (' - not a number: the value read back differs from the one written, and is written out explicitly next time' if num is None else f' = {num}'), func='Sound.parse_one', text=f'soundscript default of {key_}')
    # the numbers of a range are written so that split_float() reads the same float back: str()/repr() of a float is its shortest exact form;
    # a fixed number of decimals (format_float, `:.3f`, round()) is not
    jfn = mod.func('join_float')
    mod_fns = {q: fl[0] for q, fl in mod.all_funcs().items() if '.' not in q}
    scope_j = [jfn]
    for f_ in list(scope_j):
        for c in walk_no_nested(f_):
            if isinstance(c, ast.Call) and isinstance(c.func, ast.Name) and c.func.id in mod_fns and mod_fns[c.func.id] not in scope_j:
                scope_j.append(mod_fns[c.func.id])
    lossy: List[ast.AST] = []
    unknown_calls: List[ast.AST] = []
    for f_ in scope_j:
        for n in walk_no_nested(f_):
            if isinstance(n, ast.FormattedValue) and n.format_spec is not None:
                lossy.append(n)
            if isinstance(n, ast.Call):
                d_ = dotted(n.func) or ''
                if d_.split('.')[-1] in ('format_float', 'round') or (isinstance(n.func, ast.Attribute) and n.func.attr == 'format' and isinstance(n.func.value, ast.Constant)):
                    lossy.append(n)
                elif isinstance(n.func, ast.Name) and n.func.id not in mod_fns and n.func.id not in ('str', 'repr', 'isinstance', 'float', 'int', 'len', 'tuple'):
                    unknown_calls.append(n)
            if isinstance(n, ast.BinOp) and isinstance(n.op, ast.Mod) and isinstance(n.left, ast.Constant) and isinstance(n.left.value, str):
                lossy.append(n)
    ctx.check('C20.M2', not lossy, mod, lossy[0] if lossy else jfn, f'join_float formats a number with `{U(lossy[0])[:50] if lossy else ""}`, a fixed number of decimals: volume 1/3 is written as 0.333333 and read back as a different float '
              '(split_float(join_float(x)) != x)', func='join_float', text='range numbers written in exact form')
    ctx.shape('C20.M2', not unknown_calls or bool(lossy), mod, unknown_calls[0] if unknown_calls else jfn, f'join_float converts through `{U(unknown_calls[0])[:40] if unknown_calls else ""}`, which is not followed', func='join_float', text='range number conversions followed')
    # keys
    written = {kw.casefold() for kw, _ in written_lines(exp)} - {'t'}
    read = set(re.findall(r"'([a-z_0-9]+)'", psrc)) | {'wave', 'rndwave'}
    for kw in sorted(written):
        ctx.check('C20.M2', kw in read, mod, exp, f'Sound.export writes key `{kw}` that Sound.parse_one never reads', func='Sound.export', text=f'sndscript key {kw}')
    # ... and the other way round for the operator stacks: parse_one finds each stack under a fixed block name, so export() writes that name
    # literally - the Keyvalues object holding the stack has whatever name its creator gave it ('' for a lazily created one)
    stack_names = sorted({e.value for l_ in ast.walk(par) if isinstance(l_, (ast.List, ast.Tuple)) and len(l_.elts) >= 2 and all(isinstance(e, ast.Constant) and isinstance(e.value, str) and e.value.endswith('_stack') for e in l_.elts)
                          for e in l_.elts})
    ctx.shape('C20.M2', len(stack_names) == 3, mod, par, f'the three operator stack block names read by Sound.parse_one were not found ({stack_names})', func='Sound.parse_one', text='sndscript stack block names')
    wlits = ' '.join(c.value for c in ast.walk(exp) if isinstance(c, ast.Constant) and isinstance(c.value, str))
    for sn_ in stack_names:
        ctx.check('C20.M2', sn_ in wlits, mod, exp, f'Sound.parse_one looks for the operator stack block `{sn_}`, but Sound.export never writes that name: the block is written under the name of the Keyvalues object '
                  '(blank for a stack created on demand), so the operators are not found again when the script is parsed', func='Sound.export', text=f'sndscript stack block {sn_} written literally')
    ok = 'CHAN_' in psrc and "Channel(channel_str)" in psrc
    ctx.shape('C20.M2', ok, mod, par, 'channel constants are parsed by Channel(value)', func='Sound.parse_one', text='sndscript channel parse')
    ch = mod.cls('Channel')
    is_str_enum = any(dotted(b) == 'str' for b in ch.bases) or '__str__' in [s.name for s in ch.body if isinstance(s, ast.FunctionDef)]
    ctx.check('C20.M2', is_str_enum, mod, ch, 'Channel members must format as their value (`channel {self.channel}` is written with str())', func='Channel', text='sndscript channel formatting')


# ---- M2 vmt -----------------------------------------------------------------------------------------------------------------------------
    # soundentry_version 2 accompanies every operator_stacks block: Sound.parse_one refuses stacks in a version-1 entry
    refuses = any(isinstance(n, ast.If) and 'operator_stacks' in U(n.test) and any(isinstance(r, ast.Raise) for r in ast.walk(n)) for n in ast.walk(par))

    def lit_writes(word: str) -> List[ast.Call]:
        return [c for c in walk_no_nested(exp) if isinstance(c, ast.Call) and dotted(c.func) == 'file.write' and any(isinstance(k, ast.Constant) and isinstance(k.value, str) and word in k.value for k in ast.walk(c))]
    ver_w, stk_w = lit_writes('soundentry_version'), lit_writes('operator_stacks')
    if not refuses or not stk_w:
        ctx.shape('C20.M2', False, mod, exp, 'operator_stacks writer / version precondition of the reader not found', func='Sound.export', text='sndscript stacks imply version 2')
    else:
        def guard_nodes(n: ast.AST) -> List[ast.AST]:
            out, cur = [], mod.parents.get(n)
            while cur is not None and cur is not exp:
                if isinstance(cur, ast.If):
                    out.append(cur)
                cur = mod.parents.get(cur)
            return out
        for sw in stk_w:
            same_call = any(v is sw for v in ver_w)
            sg = guard_nodes(sw)
            dominated = any(all(any(g is h for h in sg) for g in guard_nodes(v)) and v.lineno <= sw.lineno for v in ver_w)
            ctx.check('C20.M2', same_call or dominated, mod, sw, 'Sound.export writes an operator_stacks block on a path that has not written `soundentry_version 2` (the version line is guarded by a different condition): '
                      'Sound.parse_one raises "Operator stacks used with version less than 2" on that output', func='Sound.export', text='sndscript stacks imply version 2')


def m2_vmt(ctx: Any, prog: Program) -> None:
    mod = prog.module('vmt')
    par, exp = mod.func('Material.parse'), mod.func('Material.export')
    tk = [c for c in ast.walk(par) if isinstance(c, ast.Call) and dotted(c.func) == 'Tokenizer']
    if len(tk) != 1:
        raise AnalysisError('Material.parse: Tokenizer construction not found')
    kws = {k.arg: (k.value.value if isinstance(k.value, ast.Constant) else None) for k in tk[0].keywords}
    decodes = kws.get('allow_escapes', True) is True
    # does the writer (including helpers it calls on self / Material) escape?
    closure = [exp]
    for c in ast.walk(exp):
        if isinstance(c, ast.Call) and isinstance(c.func, ast.Attribute) and dotted(c.func.value) in ('self', 'Material', 'cls') and mod.has_func(f'Material.{c.func.attr}'):
            closure.append(mod.func(f'Material.{c.func.attr}'))
    escapes = [c for f in closure for c in ast.walk(f) if isinstance(c, ast.Call) and (dotted(c.func) == 'escape_text' or (isinstance(c.func, ast.Attribute) and c.func.attr in ('serialise', 'serialize')))]
    ctx.check('C20.M2', bool(escapes) == decodes, mod, escapes[0] if escapes else exp, f'Material.parse tokenises with allow_escapes={decodes} but Material.export {"escapes text (escape_text / Keyvalues.serialise)" if escapes else "writes text verbatim"}: '
              'backslashes in block values change on every save/load cycle', func='Material.export', text='VMT escape configuration agrees')
    src = U(exp)
    # three strings are written bare (shader, parameter name, parameter value); each needs a guard that re-binds it to a quoted f-string when it
    # contains a delimiter.  The guards are counted by shape: `if <test on X with BARE_DISALLOWED>: X = f'"{...}"'`, whatever X is called.
    q_guards = []
    for n in ast.walk(exp):
        if isinstance(n, ast.If) and 'BARE_DISALLOWED' in U(n.test):
            tested = {x.id for x in ast.walk(n.test) if isinstance(x, ast.Name)} - {'BARE_DISALLOWED'}
            for b in n.body:
                if isinstance(b, ast.Assign) and isinstance(b.targets[0], ast.Name) and b.targets[0].id in tested and isinstance(b.value, ast.JoinedStr) and str(U(b.value)).startswith("f'\""):
                    q_guards.append(n)
    for i_w, what in enumerate(('shader', 'name', 'value')):
        ctx.check('C20.M2', len(q_guards) > i_w, mod, q_guards[i_w] if len(q_guards) > i_w else exp, f'Material.export has {len(q_guards)} quoting guard(s) for the three strings it writes bare (shader, parameter name, parameter value): '
                  'each must be quoted when it contains a delimiter character (BARE_DISALLOWED)', func='Material.export', text=f'VMT {what} quoted when needed')
    ok = "param_name.casefold() == 'proxies'" in U(par) and "'\\n\\tProxies\\n\\t\\t{\\n'" in src
    ctx.shape('C20.M2', ok, mod, exp, 'Proxies block keyword', func='Material.export', text='VMT proxies keyword')
    for attr in ('proxies', 'blocks'):
        adds = [c for c in ast.walk(par) if isinstance(c, ast.Call) and isinstance(c.func, ast.Attribute) and c.func.attr in ('extend', 'append') and dotted(c.func.value) == f'mat.{attr}']
        if not adds:
            ctx.shape('C20.M2', False, mod, par, f'mat.{attr} is never filled', func='Material.parse', text=f'VMT {attr} all kept')
            continue
        for c in adds:
            filt = [g for x in ast.walk(c) if isinstance(x, (ast.GeneratorExp, ast.ListComp)) for g in x.generators if g.ifs]
            parent_if = vmt_guard(mod, c)
            ctx.check('C20.M2', not filt and parent_if is None, mod, c, f'`{U(c)[:80]}` keeps only some of the parsed blocks ({"filter `" + U(filt[0].ifs[0]) + "`" if filt else "guard `" + str(parent_if) + "`"}): '
                      'Material.export writes every block, so the dropped ones are lost on a round trip', func='Material.parse', text=f'VMT {attr} all kept')
    ok = kws.get('string_bracket') is True
    ctx.shape('C20.M2', ok, mod, tk[0], 'bracketed vectors are single string tokens for the parser (the writer quotes them because of the spaces)', func='Material.parse', text='VMT bracket strings')


def vmt_guard(mod: Any, call: ast.AST) -> Optional[str]:
    """an enclosing `if` on the parsed block itself (truthiness / length) between the add and the token dispatch"""
    p = mod.parents.get(call)
    while p is not None and not isinstance(p, (ast.FunctionDef, ast.For, ast.While)):
        q = mod.parents.get(p)
        if isinstance(q, ast.If) and p in q.body and not any(s in U(q.test) for s in ('token', 'Tok.', 'param_name')):
            return U(q.test)[:60]
        p = q
    return None


# ---- M2 particles -----------------------------------------------------------------------------------------------------------------------
def m2_particles(ctx: Any, prog: Program) -> None:
    mod = prog.module('particles')
    par, exp = mod.func('Particle.parse'), mod.func('Particle.export')
    psrc, esrc = U(par), U(exp)
    sections_r = [c.args[1].value for c in ast.walk(par) if isinstance(c, ast.Call) and dotted(c.func) == 'generic_attr' and len(c.args) == 2 and isinstance(c.args[1], ast.Constant) and isinstance(c.args[1].value, str)]
    sections_r = sorted(sections_r, key=lambda v_: next(c.lineno * 1000 + c.col_offset for c in ast.walk(par) if isinstance(c, ast.Call) and dotted(c.func) == 'generic_attr' and len(c.args) == 2 and isinstance(c.args[1], ast.Constant) and c.args[1].value == v_))
    lst = [n for n in ast.walk(exp) if isinstance(n, ast.List) and all(isinstance(e, ast.Constant) and isinstance(e.value, str) for e in n.elts) and len(n.elts) >= 4]
    sections_w = [e.value for e in lst[0].elts] if lst else []
    if not lst:
        # the list may live in a module constant that export() iterates: `for name in _OPERATOR_LISTS: getattr(part, name)`
        pfold = Folder(prog, mod)
        for l_ in ast.walk(exp):
            if isinstance(l_, ast.For) and isinstance(l_.iter, ast.Name) and isinstance(l_.target, ast.Name) and any(isinstance(c, ast.Call) and dotted(c.func) == 'getattr' and len(c.args) == 2 and dotted(c.args[1]) == l_.target.id for c in ast.walk(l_)):
                try:
                    v_ = pfold.global_(l_.iter.id)
                except (FoldError, AnalysisError):
                    v_ = None
                if isinstance(v_, (list, tuple)) and all(isinstance(x, str) for x in v_):
                    sections_w = list(v_)
    if not sections_w:
        # a loop over a module-level table of names is unrolled when the module is loaded (engine.model.unroll_table_loops): the sections are
        # then the constant names of consecutive `getattr(<part>, '<name>')` calls
        ga = sorted([c for c in ast.walk(exp) if isinstance(c, ast.Call) and dotted(c.func) == 'getattr' and len(c.args) == 2 and isinstance(c.args[1], ast.Constant) and isinstance(c.args[1].value, str)],
                    key=lambda c: (c.lineno, c.col_offset))
        seen_: List[str] = []
        for c in ga:
            if c.args[1].value not in seen_:
                seen_.append(c.args[1].value)
        if len(seen_) >= 4:
            sections_w = seen_
    ctx.shape('C20.M2', bool(sections_w), mod, exp, 'the operator sections export() walks are a literal list (in place or in a module constant)', func='Particle.export', text='particle sections found')
    ctx.check('C20.M2', (sections_r == sections_w and len(sections_r) == 6) or not sections_w, mod, exp, f'operator sections: parse reads {sections_r}, export writes {sections_w}', func='Particle.export', text='particle sections')
    def _keys_used(fn: ast.AST, store: bool) -> Set[str]:
        out: Set[str] = set()
        for n in ast.walk(fn):
            if isinstance(n, ast.Subscript) and isinstance(n.slice, ast.Constant) and isinstance(n.slice.value, str) and isinstance(n.ctx, ast.Store if store else ast.Load):
                out.add(n.slice.value)
            if not store and isinstance(n, ast.Call) and isinstance(n.func, ast.Attribute) and n.func.attr == 'pop' and n.args and isinstance(n.args[0], ast.Constant) and isinstance(n.args[0].value, str):
                out.add(n.args[0].value)
        return out
    need = {'children', 'particleSystemDefinitions', 'functionName'}
    fn_store = any(isinstance(n, ast.Assign) and isinstance(n.targets[0], ast.Subscript) and isinstance(n.targets[0].slice, ast.Constant) and n.targets[0].slice.value == 'functionName'
                   and isinstance(n.value, ast.Attribute) and n.value.attr == 'function' for n in ast.walk(exp))
    ok = need <= _keys_used(par, False) and need <= _keys_used(exp, True) and fn_store
    ctx.shape('C20.M2', ok, mod, exp, 'attribute names particleSystemDefinitions / children / functionName on both sides', func='Particle.export', text='particle attribute names')
    # iterable walked twice
    param = exp.args.args[1].arg
    loops = [n for n in walk_no_nested(exp) if isinstance(n, ast.For) and dotted(n.iter) == param]
    materialised = any(isinstance(n, ast.Assign) and dotted(n.targets[0]) == param and isinstance(n.value, ast.Call) and dotted(n.value.func) in ('list', 'tuple') for n in exp.body)
    ann = U(exp.args.args[1].annotation) if exp.args.args[1].annotation is not None else ''
    ctx.check('C20.M2', len(loops) < 2 or materialised or not ann.startswith('Iterable'), mod, loops[-1] if loops else exp, f'`{param}` is declared {ann} and iterated {len(loops)} times: a generator is empty the second time, so every child link is dropped',
              func='Particle.export', text='particle iterable walked once or materialised')
    # attribute spelling kept
    for c in ast.walk(exp):
        if isinstance(c, ast.Assign) and isinstance(c.targets[0], ast.Subscript) and isinstance(c.value, ast.Call) and dotted(c.value.func) == 'copy.deepcopy':
            key = U(c.targets[0].slice)
            ctx.check('C20.M2', '.casefold()' not in key, mod, c, f'`{U(c.targets[0])} = ...` renames the stored attribute to the case-folded key (Element.__setitem__ sets attribute.name to the key): the original spelling is lost',
                      func='Particle.export', text=f'particle attribute spelling {key[:30]}')
    # name not duplicated into options
    opts = [n for n in ast.walk(par) if isinstance(n, ast.DictComp) and 'deepcopy' in U(n)]
    if len(opts) != 2:
        ctx.shape('C20.M2', False, mod, par, 'the two option dict comprehensions were not found', func='Particle.parse', text='particle name not in options')
    else:
        ctx.check('C20.M2', all(any("'name'" in U(i) for g in n.generators for i in g.ifs) for n in opts), mod, opts[0],
                  'the element name is an ordinary DMX attribute: parse must leave it out of the options (it is stored in .name), otherwise a parsed particle differs from the exported one', func='Particle.parse', text='particle name not in options')
    # ... nor the function name: Operator.function holds it and export() writes it from there, so it is taken OUT of the element (pop) before the
    # remaining attributes become the options - or left out by the filter, which sees the case-folded keys Element.items() yields (a constant
    # with a capital letter in that filter can never match)
    for oc in opts:
        keyvar = oc.generators[0].target.elts[0].id if isinstance(oc.generators[0].target, ast.Tuple) and isinstance(oc.generators[0].target.elts[0], ast.Name) else None
        consts = [k for g in oc.generators for i in g.ifs for k in ast.walk(i) if isinstance(k, ast.Constant) and isinstance(k.value, str)]
        for k in consts:
            ctx.check('C20.M2', k.value == k.value.casefold(), mod, k, f'the option filter compares the key with {k.value!r}: Element.items() yields case-folded keys, so this never matches and the attribute stays among the options',
                      func='Particle.parse', text=f'particle option filter constant {k.value}')
    op_ctors = [c for c in ast.walk(par) if isinstance(c, ast.Call) and dotted(c.func) == 'Operator' and len(c.args) >= 3 and isinstance(c.args[2], ast.DictComp)]
    for oc_ in op_ctors:
        fn_arg = oc_.args[1]
        popped = any(isinstance(x, ast.Call) and isinstance(x.func, ast.Attribute) and x.func.attr == 'pop' and x.args and isinstance(x.args[0], ast.Constant) and str(x.args[0].value).casefold() == 'functionname' for x in ast.walk(fn_arg))
        filtered = any(isinstance(k, ast.Constant) and k.value == 'functionname' for g in oc_.args[2].generators for i in g.ifs for k in ast.walk(i))
        ctx.check('C20.M2', popped or filtered, mod, oc_, 'Particle.parse reads the operator\'s functionName without removing it from the element or filtering it out: every parsed Operator carries an extra option '
                  '`functionname` - a particle written and read back has one option more than was written, and export() lets that stale copy overwrite an edited Operator.function', func='Particle.parse', text='particle function name not in options')
    ctx.shape('C20.M2', len(op_ctors) >= 1, mod, par, 'no Operator(name, function, {options}) construction found in Particle.parse', func='Particle.parse', text='particle operator construction')
    def _folded_attr(e: ast.AST) -> Optional[str]:
        # <x>.<attr>.casefold()  ->  attr
        if isinstance(e, ast.Call) and isinstance(e.func, ast.Attribute) and e.func.attr == 'casefold' and isinstance(e.func.value, ast.Attribute):
            return e.func.value.attr
        return None
    # order of children: Particle.parse returns them in the order of the `children` element array, so export has to append them in list order -
    # every append of a child element sits directly in ONE `for child in <part>.children` loop, not under a test on the child, not in a second pass
    child_loops = [l for l in ast.walk(exp) if isinstance(l, ast.For) and isinstance(l.iter, ast.Attribute) and l.iter.attr == 'children' and isinstance(l.target, ast.Name)]
    child_appends = [c for c in ast.walk(exp) if isinstance(c, ast.Call) and isinstance(c.func, ast.Attribute) and c.func.attr == 'append' and c.args
                     and isinstance(c.args[0], ast.Subscript) and isinstance(c.args[0].ctx, ast.Load) and any(isinstance(x, ast.Name) for x in ast.walk(c.args[0].slice))
                     and dotted(c.args[0].value) in {dotted(n.value) for n in ast.walk(exp) if isinstance(n, ast.Subscript) and isinstance(n.ctx, ast.Store)}]
    ctx.shape('C20.M2', len(child_loops) >= 1 and len(child_appends) >= 1, mod, exp, 'Particle.export appends child elements looked up by name inside a loop over <part>.children', func='Particle.export', text='particle children in list order')
    for ca in child_appends:
        loop_ = None
        cond_ = None
        p_ = mod.parents.get(ca)
        while p_ is not None and p_ is not exp:
            if isinstance(p_, ast.If) and cond_ is None:
                cond_ = p_
            if isinstance(p_, ast.For):
                loop_ = p_
                break
            p_ = mod.parents.get(p_)
        in_child_loop = loop_ in child_loops
        ctx.check('C20.M2', in_child_loop and cond_ is None, mod, ca, 'Particle.export appends a child element ' + ('under a test on the child' if in_child_loop else 'outside the loop over the system\'s children (a second pass)') +
                  ': children that take different routes are appended at different times, so a system whose child list has a later-defined child before an earlier-defined one is written - and read back - in another order',
                  func='Particle.export', text='particle children in list order')
    child_ctor = any(isinstance(c, ast.Call) and dotted(c.func) == 'Child' and c.args and isinstance(c.args[0], ast.Attribute) and c.args[0].attr == 'name' for c in ast.walk(par))
    maps_store = {dotted(n.value) for n in ast.walk(exp) if isinstance(n, ast.Subscript) and isinstance(n.ctx, ast.Store) and _folded_attr(n.slice) == 'name'}
    maps_load = {dotted(n.value) for n in ast.walk(exp) if isinstance(n, ast.Subscript) and isinstance(n.ctx, ast.Load) and _folded_attr(n.slice) == 'particle'}
    ok = child_ctor and bool(maps_store & maps_load)
    ctx.shape('C20.M2', ok, mod, exp, 'children are linked by (case-folded) particle name both ways', func='Particle.export', text='particle child linkage')


# ---- M2 smd -----------------------------------------------------------------------------------------------------------------------------
def m2_smd(ctx: Any, prog: Program) -> None:
    mod = prog.module('smd')
    exp = mod.func('Mesh.export')
    # line assembly: consecutive writes until one ends in \n form one line; adjacent pieces must be separated by whitespace
    pieces: List[Tuple[bytes, ast.AST]] = []

    def tmpl(e: ast.AST) -> Optional[bytes]:
        if isinstance(e, ast.Constant) and isinstance(e.value, bytes):
            return e.value
        if isinstance(e, ast.BinOp) and isinstance(e.op, ast.Mod):
            return tmpl(e.left)
        if isinstance(e, ast.BinOp) and isinstance(e.op, ast.Add):
            a, b = tmpl(e.left), tmpl(e.right)
            if a is None and b is not None:
                return b'%s' + b
            if a is not None and b is not None:
                return a + b
        return None

    def visit(stmts: Sequence[ast.stmt]) -> None:
        for st in stmts:
            if isinstance(st, ast.Expr) and isinstance(st.value, ast.Call) and dotted(st.value.func) == 'file.write' and st.value.args:
                t = tmpl(st.value.args[0])
                if t is None:
                    raise AnalysisError(f'Mesh.export: line {st.lineno}: written value not recognised')
                pieces.append((t, st))
            elif isinstance(st, (ast.For, ast.While, ast.If)):
                visit(st.body)
                visit(getattr(st, 'orelse', []))
    visit(exp.body)
    n_join = 0
    for (a, na), (b, nb) in zip(pieces, pieces[1:]):
        if a.endswith(b'\n') or not a or not b:
            continue
        n_join += 1
        ok = a[-1:] in b' \t' or b[:1] in b' \t\n'
        ctx.check('C20.M2', ok, mod, nb, f'`{b.decode()[:20]}` is written directly after `{a.decode()[-20:]}` on the same line without whitespace: the two fields fuse into one token', func='Mesh.export', text=f'smd fields separated: {b.decode()[:15]!r} after {a.decode()[-12:]!r}')
    if n_join < 2:
        raise AnalysisError('Mesh.export: same-line write sequences not found')
    # the reader invents a link (to the vertex's parent bone) only for a vertex that has none: the writer emits explicit link lists as they
    # are, also when their weights do not add up to one, so any other synthesised link comes back as an extra entry
    tri = mod.func('Mesh._parse_smd_tri')
    vctor = [c for c in ast.walk(tri) if isinstance(c, ast.Call) and dotted(c.func) == 'Vertex' and c.args and isinstance(c.args[-1], ast.Name)]
    ctx.shape('C20.M2', len(vctor) == 1 and isinstance(vctor[0].args[-1], ast.Name), mod, tri, '_parse_smd_tri builds Vertex(..., <links local>)', func='Mesh._parse_smd_tri', text='smd synthesised link only without links')
    if len(vctor) == 1 and isinstance(vctor[0].args[-1], ast.Name):
        lv = vctor[0].args[-1].id
        raw_bones = {t.id for a in ast.walk(tri) if isinstance(a, ast.Assign) and isinstance(a.value, ast.Subscript) and any(isinstance(x, ast.Name) and 'raw' in x.id for x in ast.walk(a.value.slice))
                     for t in a.targets if isinstance(t, ast.Name)}
        n_syn = 0
        for a in ast.walk(tri):
            synth = None
            if isinstance(a, ast.Assign) and any(dotted(t) == lv for t in a.targets) and isinstance(a.value, ast.List) and a.value.elts:
                synth = a.value.elts[0]
            if isinstance(a, ast.Call) and isinstance(a.func, ast.Attribute) and a.func.attr in ('append', 'insert') and dotted(a.func.value) == lv and a.args:
                synth = a.args[-1]
            if not (isinstance(synth, ast.Tuple) and len(synth.elts) == 2 and isinstance(synth.elts[0], ast.Name)) or synth.elts[0].id in raw_bones:
                continue
            # a link whose bone does not come from the link list on the line
            n_syn += 1
            g_ = mod.parents.get(a)
            while g_ is not None and not isinstance(g_, ast.If):
                g_ = mod.parents.get(g_)
            ok_ = False
            if isinstance(g_, ast.If):
                t_ = g_.test
                in_body = any(a is x for st in g_.body for x in ast.walk(st))
                empty_links = isinstance(t_, ast.UnaryOp) and isinstance(t_.op, ast.Not) and dotted(t_.operand) == lv
                no_list = not in_body and isinstance(t_, ast.Name)                 # else-arm of `if links_raw:`
                ok_ = (in_body and empty_links) or no_list
            ctx.check('C20.M2', ok_, mod, a, f'_parse_smd_tri adds the link `{U(synth)[:40]}` under `{U(g_.test)[:40] if isinstance(g_, ast.If) else "-"}`: a vertex written with explicit links (whatever their sum) comes back '
                      'with one link more', func='Mesh._parse_smd_tri', text='smd synthesised link only without links')
        ctx.shape('C20.M2', n_syn >= 2, mod, tri, f'fallback links to the parent bone found: {n_syn} (no link list / empty link list confirmed by hand)', func='Mesh._parse_smd_tri', text='smd fallback links census')
    # field counts per line
    src = U(exp)
    psrc = U(mod.func('Mesh._parse_smd_anim')) + U(mod.func('Mesh._parse_smd_tri')) + U(mod.func('Mesh._parse_smd_bones'))
    anim_w = [t for t, _ in pieces if t.count(b'%') == 7]
    ok = len(anim_w) == 1 and 'byt_ind, byt_x, byt_y, byt_z, byt_pit, byt_yaw, byt_rol = line.split()' in psrc
    ctx.shape('C20.M2', ok, mod, exp, 'skeleton line: 7 whitespace separated fields both ways', func='Mesh.export', text='smd skeleton line arity')
    vert_w = [t for t, _ in pieces if t.count(b'%') == 9]
    ok = len(vert_w) == 1 and 'byt_parent, x, y, z, nx, ny, nz, byt_tex_u, byt_tex_v, *links_raw = line.split()' in psrc
    ctx.shape('C20.M2', ok, mod, exp, 'vertex line: 9 fixed fields then the optional link list', func='Mesh.export', text='smd vertex line arity')
    ok = "b'%i \"%s\" %i\\n'" in src and "([0-9]+)\\\\s*\"([^\"]*)\"\\\\s*(-?[0-9]+)" in psrc
    ctx.shape('C20.M2', ok, mod, exp, 'bone line: index "name" parent', func='Mesh.export', text='smd bone line')
    ok = 'math.radians(pit), math.radians(yaw), math.radians(rol)' in src and 'math.degrees(float(byt_pit)), math.degrees(float(byt_yaw)), math.degrees(float(byt_rol))' in psrc
    ctx.shape('C20.M2', ok, mod, exp, 'rotations: degrees -> radians on export, radians -> degrees on parse, same component order', func='Mesh.export', text='smd rotation units')
    # every link of a vertex is written, in list order: the pair loop and the count use the vertex's own `.links` (directly or through a local
    # alias) - a sorted / sliced / filtered copy drops or reorders links, which parse_smd reads back as it finds them
    pair_w = [c for c in ast.walk(exp) if isinstance(c, ast.Call) and dotted(c.func) == 'file.write' and c.args and isinstance(c.args[0], ast.BinOp) and isinstance(c.args[0].left, ast.Constant)
              and isinstance(c.args[0].left.value, bytes) and c.args[0].left.value.count(b'%') == 2 and b'%i' in c.args[0].left.value and b'%.6f' in c.args[0].left.value]
    for pw in pair_w:
        lp_l = next((a for a in _anc20(mod, pw, exp) if isinstance(a, ast.For)), None)
        if lp_l is None:
            continue
        src_l: ast.AST = lp_l.iter
        defs_l = [a.value for a in ast.walk(exp) if isinstance(a, ast.Assign) and isinstance(src_l, ast.Name) and any(isinstance(t, ast.Name) and t.id == src_l.id for t in a.targets)] if isinstance(src_l, ast.Name) else [src_l]
        direct = bool(defs_l) and all(isinstance(d, ast.Attribute) and d.attr == 'links' and isinstance(d.value, ast.Name) for d in defs_l)
        altered = [d for d in defs_l if isinstance(d, ast.Subscript) and isinstance(d.slice, ast.Slice) or (isinstance(d, ast.Call) and (dotted(d.func) or '') in ('sorted', 'filter', 'reversed', 'set', 'list'))
                   or isinstance(d, (ast.ListComp, ast.GeneratorExp))]
        if direct:
            ctx.check('C20.M2', True, mod, pw, 'every link written', func='Mesh.export', text='smd every link of a vertex is written in order')
        elif altered:
            ctx.check('C20.M2', False, mod, altered[0], f'Mesh.export writes the links of a vertex from `{U(altered[0])[:60]}` on some path, not from the vertex\'s own list: links are dropped or reordered in the file, and parse_smd '
                      'returns what it reads - a vertex with more links comes back with fewer, in another order', func='Mesh.export', text='smd every link of a vertex is written in order')
    ok = "link_count * 2 + 1 != len(links_raw)" in psrc and "b' %i %.6f' % (bone_indexes[bone], weight)" in src and 'len(vert.links)' in src
    ctx.shape('C20.M2', ok, mod, exp, 'link list: count followed by (bone, weight) pairs', func='Mesh.export', text='smd link list')
    # one line per BoneFrame / per vertex: the parser rebuilds each frame from the lines present (no carry-over), so the record write
    # inside the per-element loop must not sit under a condition
    for var, what in (('bone_pose', 'skeleton'), ('vert', 'triangle vertex')):
        loops = [n for n in ast.walk(exp) if isinstance(n, ast.For) and isinstance(n.target, ast.Name) and n.target.id == var]
        if len(loops) != 1:
            ctx.shape('C20.M2', False, mod, exp, f'{what} loop not found', func='Mesh.export', text=f'smd {what} records unconditional')
            continue
        direct = [st for st in loops[0].body if isinstance(st, ast.Expr) and isinstance(st.value, ast.Call) and dotted(st.value.func) == 'file.write']
        guarded = [st for st in loops[0].body if isinstance(st, ast.If) and any(isinstance(c, ast.Call) and dotted(c.func) == 'file.write' for c in ast.walk(st))]
        ctx.check('C20.M2', bool(direct), mod, guarded[0] if guarded else loops[0], f'the {what} line is only written under `{U(guarded[0].test)[:60] if guarded else "?"}`: elements for which it is false are missing from the file, and parse_smd '
                  'has no notion of carrying a previous value forward', func='Mesh.export', text=f'smd {what} records unconditional')
    # the `time N` line of a frame carries the key of that frame in self.animation (parse stores the frame under the number it reads): the
    # value written is the key of the items() loop, not a position made up while writing
    tw = [c for c in ast.walk(exp) if isinstance(c, ast.Call) and dotted(c.func) == 'file.write' and c.args and isinstance(c.args[0], ast.BinOp) and isinstance(c.args[0].left, ast.Constant)
          and isinstance(c.args[0].left.value, bytes) and c.args[0].left.value.startswith(b'time ')]
    ctx.shape('C20.M2', len(tw) == 1 and isinstance(tw[0].args[0].right, ast.Name), mod, exp, "the `b'time %i' % <name>` write was not found once in Mesh.export", func='Mesh.export', text='smd frame time is the animation key')
    if len(tw) == 1 and isinstance(tw[0].args[0].right, ast.Name):
        tname = tw[0].args[0].right.id
        lp_t = next((a for a in _anc20(mod, tw[0], exp) if isinstance(a, ast.For) and any(isinstance(x, ast.Name) and x.id == tname for x in ast.walk(a.target))), None)
        verdict_t: Optional[bool] = None
        why_t = ''
        if lp_t is not None and isinstance(lp_t.target, ast.Tuple) and lp_t.target.elts and isinstance(lp_t.target.elts[0], ast.Name) and lp_t.target.elts[0].id == tname:
            it_t: ast.AST = lp_t.iter
            # through a local holding the sorted list
            if isinstance(it_t, ast.Name):
                d_t = [a.value for a in ast.walk(exp) if isinstance(a, ast.Assign) and any(isinstance(t, ast.Name) and t.id == it_t.id for t in a.targets)]     # type: ignore[attr-defined]
                if len(d_t) == 1:
                    it_t = d_t[0]
            while isinstance(it_t, ast.Call) and dotted(it_t.func) in ('sorted', 'list', 'tuple', 'reversed') and it_t.args:
                it_t = it_t.args[0]
            if isinstance(it_t, ast.Call) and isinstance(it_t.func, ast.Attribute) and it_t.func.attr == 'items' and dotted(it_t.func.value) == 'self.animation':
                verdict_t = True
            elif isinstance(it_t, ast.Call) and dotted(it_t.func) in ('enumerate', 'zip'):
                verdict_t, why_t = False, f'`{tname}` counts `{U(lp_t.iter)[:50]}`'
        ctx.shape('C20.M2', verdict_t is not None, mod, tw[0], f'where `{tname}` in the `time` line comes from was not recognised (expected: the key of a loop over self.animation.items())', func='Mesh.export', text='smd frame time is the animation key')
        if verdict_t is not None:
            ctx.check('C20.M2', verdict_t, mod, tw[0], f'Mesh.export writes `time %i` with a number made up while writing ({why_t}) instead of the frame\'s key in self.animation: parse_smd stores each frame under the number it reads, '
                      'so an animation whose keys are not 0, 1, 2, ... comes back under other keys', func='Mesh.export', text='smd frame time is the animation key')
    # determinism: no iteration over a set of bones
    set_names: Dict[str, ast.AST] = {}
    for n in ast.walk(exp):
        if isinstance(n, ast.AnnAssign) and isinstance(n.target, ast.Name) and n.value is not None and (U(n.annotation).startswith('set[') or (isinstance(n.value, ast.Call) and dotted(n.value.func) == 'set')):
            set_names[n.target.id] = n
        elif isinstance(n, ast.Assign) and isinstance(n.targets[0], ast.Name) and isinstance(n.value, (ast.Call, ast.Set, ast.SetComp)) and (not isinstance(n.value, ast.Call) or dotted(n.value.func) == 'set'):
            set_names[n.targets[0].id] = n
    iterated = [node for name, node in set_names.items() if any(isinstance(f, ast.For) and name in {x.id for x in ast.walk(f.iter) if isinstance(x, ast.Name)} for f in ast.walk(exp))]
    ctx.check('C20.M2', not iterated, mod, iterated[0] if iterated else exp, 'bone indexes are assigned while iterating a set of Bone objects (hashed by name, and str hashes are randomised per process, or by identity): '
              'the numbering is not a function of the mesh, so the same mesh does not reproduce the same file', func='Mesh.export', text='smd bone numbering deterministic')


# ---- M5 -----------------------------------------------------------------------------------------------------------------------------------
    # nodes section: the reader resolves a node's parent index against the nodes it has ALREADY read (`Undefined parent bone`), so a node
    # line may only be written once its parent's line has been written - whatever order self.bones happens to be in
    node_w = [c for c in ast.walk(exp) if isinstance(c, ast.Call) and dotted(c.func) == 'file.write' and c.args and isinstance(c.args[0], ast.BinOp) and isinstance(c.args[0].left, ast.Constant)
              and isinstance(c.args[0].left.value, bytes) and c.args[0].left.value.count(b'%i') == 2 and b'"%s"' in c.args[0].left.value]
    reader_checks = any(isinstance(r, ast.Raise) and 'parent' in U(r).casefold() for q_, fs_ in mod.all_funcs().items() if 'parse' in q_ for f in fs_ for r in ast.walk(f))
    if len(node_w) != 1 or not reader_checks:
        ctx.shape('C20.M2', False, mod, exp, 'node line writer / parent check of the reader not found', func='Mesh.export', text='smd nodes written parents first')
    else:
        nw = node_w[0]
        tests = []
        cur = mod.parents.get(nw)
        while cur is not None and cur is not exp:
            if isinstance(cur, ast.If) and any(nw is x for b in cur.body for x in ast.walk(b)):
                tests.append(cur.test)
            cur = mod.parents.get(cur)
        parent_known = any(isinstance(c, ast.Compare) and isinstance(c.ops[0], ast.In) and isinstance(c.left, ast.Attribute) and c.left.attr == 'parent' for t in tests for c in ast.walk(t))
        # the same as a guard clause in front of the write: `if bone.parent and bone.parent not in <indexes>: continue`
        child_ = nw
        par_ = mod.parents.get(child_)
        while par_ is not None and par_ is not exp and not parent_known:
            for fld_ in ('body', 'orelse'):
                blk_ = getattr(par_, fld_, None)
                if isinstance(blk_, list) and child_ in blk_:
                    for st_ in blk_[:blk_.index(child_)]:
                        if isinstance(st_, ast.If) and not st_.orelse and st_.body and isinstance(st_.body[-1], (ast.Continue, ast.Raise, ast.Return)):
                            conj_ = st_.test.values if isinstance(st_.test, ast.BoolOp) and isinstance(st_.test.op, ast.And) else [st_.test]
                            if any(isinstance(c, ast.Compare) and len(c.ops) == 1 and isinstance(c.ops[0], ast.NotIn) and isinstance(c.left, ast.Attribute) and c.left.attr == 'parent' for c in conj_):
                                parent_known = True
            child_, par_ = par_, mod.parents.get(par_)
        ctx.check('C20.M2', parent_known, mod, nw, 'Mesh.export writes a node line without first establishing that the parent of the bone has been written (`bone.parent in <indexes assigned so far>`): '
                  'with a child stored before its parent in Mesh.bones the line names an index that is only defined further down, and parse_smd raises "Undefined parent bone"', func='Mesh.export', text='smd nodes written parents first')


def m5_tables(ctx: Any, prog: Program) -> None:
    mod = prog.module('choreo')
    fold = Folder(prog, mod)
    it = fold.enum_table('Interpolation')
    node = mod.global_assign('INTERP_TO_NAME')
    if not isinstance(node, ast.Dict):
        raise AnalysisError('INTERP_TO_NAME is not a dict literal')
    keys = [k.attr for k in node.keys if isinstance(k, ast.Attribute)]
    vals = [v.value for v in node.values if isinstance(v, ast.Constant)]
    members = {m.name for m in it}
    ctx.check('C20.M5', set(keys) == members and len(keys) == len(node.keys), mod, node, f'INTERP_TO_NAME misses {sorted(members - set(keys))}', func='<module>', text='INTERP_TO_NAME complete')
    ctx.check('C20.M5', len(set(vals)) == len(vals) == len(keys), mod, node, 'two interpolations share a name: NAME_TO_INTERP cannot invert the table', func='<module>', text='INTERP_TO_NAME injective')
    ctx.check('C20.M5', all(re.fullmatch(r'[a-z_]+', v) for v in vals), mod, node, 'interpolation names must match [a-z_]+ (CurveType.parse_text matches curve_([a-z_]+)_to_curve_([a-z_]+))', func='<module>', text='interpolation name alphabet')
    ctx.check('C20.M5', not any('_to_curve_' in v for v in vals), mod, node, 'a name containing "_to_curve_" makes the curve text ambiguous', func='<module>', text='interpolation names unambiguous')
    ctx.shape('C20.M5', U(mod.global_assign('NAME_TO_INTERP')) == '{v: k for k, v in INTERP_TO_NAME.items()}', mod, mod.global_assign('NAME_TO_INTERP'), 'NAME_TO_INTERP is the inverse table', func='<module>', text='NAME_TO_INTERP inverse')
    ivals = sorted(m.value for m in it)
    ctx.check('C20.M5', ivals == list(range(len(ivals))) and max(ivals) < 128, mod, mod.cls('Interpolation'), 'interpolation numbers are dense and fit one byte of the packed curve type', func='Interpolation', text='interpolation numbers fit a byte')
    cap = mod.global_assign('NAME_TO_CAPTION_TYPE')
    ct = fold.enum_table('CaptionType')
    ckeys = [v.attr for v in cap.values if isinstance(v, ast.Attribute)] if isinstance(cap, ast.Dict) else []
    ctx.check('C20.M5', set(ckeys) == {m.name for m in ct} and len(ckeys) == len(set(ckeys)), mod, cap, 'NAME_TO_CAPTION_TYPE must name every CaptionType exactly once (CAPTION_TYPE_TO_NAME is its inverse)', func='<module>', text='caption type table')
    ctx.shape('C20.M5', U(mod.global_assign('CAPTION_TYPE_TO_NAME')) == '{v: k for k, v in NAME_TO_CAPTION_TYPE.items()}', mod, mod.global_assign('CAPTION_TYPE_TO_NAME'), 'CAPTION_TYPE_TO_NAME inverse', func='<module>', text='caption type inverse')
    ctx.shape('C20.M5', U(mod.global_assign('NAME_TO_EVENT_TYPE')) == '{event.name.casefold(): event for event in EventType}' and 'self.type.name.lower()' in U(mod.methods('Event')['export_text']), mod,
              mod.global_assign('NAME_TO_EVENT_TYPE'), 'event type names: written as name.lower(), looked up case-folded in a table derived from the enum', func='<module>', text='event type names')
    fl = mod.global_assign('NAME_TO_EVENT_FLAG')
    ef = fold.enum_table('EventFlags')
    fkeys = [v.attr for v in fl.values if isinstance(v, ast.Attribute)] if isinstance(fl, ast.Dict) else []
    want = {m.name for m in ef} - {'NoFlags', 'Active'}
    ctx.check('C20.M5', set(fkeys) == want, mod, fl, f'NAME_TO_EVENT_FLAG covers {sorted(fkeys)}, flags needing a name: {sorted(want)}', func='<module>', text='event flag names')
    ctx.check('C20.M5', max(m.value for m in ef) < 256, mod, mod.cls('EventFlags'), 'event flags are packed into one byte', func='EventFlags', text='event flags fit a byte')
    et = fold.enum_table('EventType')
    ctx.check('C20.M5', max(m.value for m in et) < 128 and len({m.value for m in et}) == len({m.name for m in et}), mod, mod.cls('EventType'), 'event type numbers are distinct and fit a signed byte', func='EventType', text='event type numbers')


MUTANTS: List[Dict[str, Any]] = [
    {'id': 'actor_channels_without_events_dropped', 'file': 'choreo.py', 'find': "        file.write(struct.pack('<hB', add_to_pool(self.name), len(self.channels)))\n        for channel in self.channels:", 'replace': "        channels = [channel for channel in self.channels if channel.events]\n        file.write(struct.pack('<hB', add_to_pool(self.name), len(channels)))\n        for channel in channels:", 'expect': 'C20.M1', 'note': 'round 14'},
    {'id': 'smd_links_capped', 'file': 'smd.py', 'find': "                        for bone, weight in vert.links:\n", 'replace': "                        for bone, weight in sorted(vert.links, key=itemgetter(1))[:3]:\n", 'expect': 'C20.M2', 'note': 'round 12'},
    {'id': 'scene_sounds_written_sorted', 'file': 'choreo.py', 'find': "        for sound in entry.sounds:\n            file.write(struct.pack('<i', add_to_pool(sound)))", 'replace': "        for sound_ind in sorted(add_to_pool(sound) for sound in entry.sounds):\n            file.write(struct.pack('<i', sound_ind))", 'expect': 'C20.M1', 'note': 'round 12'},
    {'id': 'cmdseq_skips_disabled_commands', 'file': 'cmdseq.py', 'find': "    for name, commands in sequences.items():\n        file.write(pad_string(name, 128))", 'replace': "    for name, commands in sequences.items():\n        commands = list(filter(None, commands))\n        file.write(pad_string(name, 128))", 'expect': 'C20.M1', 'note': 'round 11'},
    {'id': 'smd_frames_renumbered', 'file': 'smd.py', 'find': "        for time, frame in sorted(self.animation.items(), key=itemgetter(0)):", 'replace': "        for time, (_, frame) in enumerate(sorted(self.animation.items(), key=itemgetter(0))):", 'expect': 'C20.M2', 'note': 'round 11'},
    {'id': 'entry_parse_cached_beside_raw_block', 'file': 'choreo.py', 'find': "            self._data = Scene.parse_binary(BytesIO(data), string_pool)\n        return self._data", 'replace': "            self._parsed = Scene.parse_binary(BytesIO(data), string_pool)\n            return self._parsed\n        return self._data", 'expect': 'C20.M4'},
    {'id': 'missing_volume_read_as_symbol', 'file': 'sndscript.py', 'find': "            VOLUME.__getitem__,\n            1.0,", 'replace': "            VOLUME.__getitem__,\n            VOL_NORM,", 'expect': 'C20.M2'},
    {'id': 'ok_missing_pitch_read_as_float_enum', 'file': 'sndscript.py', 'find': "            Pitch.__getitem__,\n            100.0,", 'replace': "            Pitch.__getitem__,\n            Pitch.PITCH_NORM,", 'expect': None, 'refuse_ok': True},
    {'id': 'operator_function_name_left_in_options', 'file': 'particles.py', 'find': "Operator(ele.name, ele.pop('functionName').val_str, {", 'replace': "Operator(ele.name, ele['functionName'].val_str, {", 'expect': 'C20.M2'},
    {'id': 'ok_operator_function_name_filtered_folded', 'file': 'particles.py', 'find': "Operator(ele.name, ele.pop('functionName').val_str, {", 'replace': "Operator(ele.name, ele['functionName'].val_str, {", 'extra': [{'file': 'particles.py', 'find': "                    if key != 'name'  # Stored in Operator.name.", 'replace': "                    if key not in ('name', 'functionname')"}], 'expect': None, 'refuse_ok': True},
    {'id': 'rndwave_list_written_unescaped_in_one_go', 'file': 'sndscript.py', 'find': "            for wav in self.sounds:\n                file.write(f'\\t\\twave \"{escape_text(wav)}\"\\n')\n", 'replace': "            file.writelines([f'\\t\\twave \"{wav}\"\\n' for wav in self.sounds])\n", 'expect': 'C20.M2'},
    {'id': 'ok_rndwave_list_written_in_one_go', 'file': 'sndscript.py', 'find': "            for wav in self.sounds:\n                file.write(f'\\t\\twave \"{escape_text(wav)}\"\\n')\n", 'replace': "            file.writelines([f'\\t\\twave \"{escape_text(wav)}\"\\n' for wav in self.sounds])\n", 'expect': None, 'refuse_ok': True},
    {'id': 'param3_needs_param2', 'file': 'choreo.py', 'find': "        if self.parameters[2]:\n            file.write(f'{indent} param3", 'replace': "        if self.parameters[1] and self.parameters[2]:\n            file.write(f'{indent} param3", 'expect': 'C20.M2'},
    {'id': 'param_loop_breaks', 'file': 'choreo.py', 'find': "        file.write(f'{indent} param \"{escape_text(self.parameters[0])}\"\\n')\n        if self.parameters[1]:\n            file.write(f'{indent} param2 \"{escape_text(self.parameters[1])}\"\\n')\n        if self.parameters[2]:\n            file.write(f'{indent} param3 \"{escape_text(self.parameters[2])}\"\\n')\n", 'replace': "        for key, ind in PARAM_KEY_INDEXES.items():\n            if ind > 0 and not self.parameters[ind]:\n                break\n            file.write(f'{indent} {key} \"{escape_text(self.parameters[ind])}\"\\n')\n", 'expect': 'C20.M2'},
    {'id': 'ok_param_loop_continues', 'file': 'choreo.py', 'find': "        file.write(f'{indent} param \"{escape_text(self.parameters[0])}\"\\n')\n        if self.parameters[1]:\n            file.write(f'{indent} param2 \"{escape_text(self.parameters[1])}\"\\n')\n        if self.parameters[2]:\n            file.write(f'{indent} param3 \"{escape_text(self.parameters[2])}\"\\n')\n", 'replace': "        for key, ind in PARAM_KEY_INDEXES.items():\n            if ind > 0 and not self.parameters[ind]:\n                continue\n            file.write(f'{indent} {key} \"{escape_text(self.parameters[ind])}\"\\n')\n", 'expect': None, 'refuse_ok': True, 'note': 'negative control: loop form that visits every slot'},
    {'id': 'last_speak_unfiltered', 'file': 'choreo.py', 'find': "            last_speak_ms=round(scene.duration(EventType.Speak) * 1000.0),", 'replace': "            last_speak_ms=round(scene.duration() * 1000.0),", 'expect': 'C20.M4'},
    {'id': 'snd_range_six_decimals', 'file': 'sndscript.py', 'find': "        return f'{low!s}, {high!s}'", 'replace': "        return f'{low:.6f}, {high:.6f}'", 'expect': 'C20.M2'},
    {'id': 'ok_snd_range_str_calls', 'file': 'sndscript.py', 'find': "        return f'{low!s}, {high!s}'", 'replace': "        return str(low) + ', ' + str(high)", 'expect': None},
    {'id': 'gender_token_nested_under_combined', 'file': 'choreo.py', 'find': "            if self.use_gender_token:\n                file.write(f'{indent} cc_combinedusesgender\\n')", 'replace': "            if self.use_combined_file and self.use_gender_token:\n                file.write(f'{indent} cc_combinedusesgender\\n')", 'expect': 'C20.M2'},
    {'id': 'smd_remainder_link_added', 'file': 'smd.py', 'find': "                    if not links:\n                        # Okay, there's no links set here, use the first index.\n                        links = [(parent, 1.0)]\n", 'replace': "                    remainder = 1.0 - sum(weight for bone, weight in links)\n                    if remainder > 1e-4:\n                        links.append((parent, remainder))\n", 'expect': 'C20.M2'},
    {'id': 'particle_children_two_routes', 'file': 'particles.py', 'find': "            for child in part.children:\n                child_attr.append(name_to_elem[child.particle.casefold()])\n", 'replace': "            for child in part.children:\n                if child.particle.casefold() in name_to_elem:\n                    child_attr.append(name_to_elem[child.particle.casefold()])\n", 'expect': 'C20.M2'},
    {'id': 'ok_scenes_sort_short_lambda', 'file': 'choreo.py', 'find': "    scene_list.sort(key=lambda entry: entry.checksum)\n", 'replace': "    scene_list.sort(key=lambda e: e.checksum)\n", 'expect': None},
    {'id': 'scenes_sort_descending', 'file': 'choreo.py', 'find': "    scene_list.sort(key=lambda entry: entry.checksum)\n", 'replace': "    scene_list.sort(key=lambda entry: entry.checksum, reverse=True)\n", 'expect': 'C20.M4'},
    {'id': 'scenes_sort_by_filename', 'file': 'choreo.py', 'find': "    scene_list.sort(key=lambda entry: entry.checksum)\n", 'replace': "    scene_list.sort(key=lambda entry: entry.filename)\n", 'expect': 'C20.M4'},
    {'id': 'cmdseq_ensure_flag_truthiness', 'file': 'cmdseq.py', 'find': "            if cmd.ensure_file is not None:", 'replace': "            if cmd.ensure_file:", 'expect': 'C20.M1'},
    {'id': 'ok_cmdseq_ensure_flag_inverted_arms', 'file': 'cmdseq.py', 'find': "            if cmd.ensure_file is not None:\n                ensure_file = pad_string(cmd.ensure_file, 260)\n                has_ensure_file = 1\n            else:\n                ensure_file = bytes(260)\n                has_ensure_file = 0\n", 'replace': "            if cmd.ensure_file is None:\n                ensure_file = bytes(260)\n                has_ensure_file = 0\n            else:\n                ensure_file = pad_string(cmd.ensure_file, 260)\n                has_ensure_file = 1\n", 'expect': None},
    {'id': 'abs_tag_max_byte', 'file': 'choreo.py', 'find': "    _MAX: ClassVar[int] = 65535", 'replace': "    _MAX: ClassVar[int] = 255", 'expect': 'C20.M1'},
    {'id': 'curve_writer_factor_256', 'file': 'choreo.py', 'find': "            value = min(255, max(0, round(sample.value * 255.0)))", 'replace': "            value = min(255, max(0, round(sample.value * 256.0)))", 'expect': 'C20.M1'},
    {'id': 'tag_clamp_hardcoded_byte', 'file': 'choreo.py', 'find': "            value = min(cls._MAX, max(0, round(tag.value * cls._FACTOR)))", 'replace': "            value = min(255, max(0, round(tag.value * cls._FACTOR)))", 'expect': 'C20.M1'},
    {'id': 'ok_quantise_helper', 'file': 'choreo.py', 'find': "def _update_checksum(", 'replace': "def _quantise(value: float, factor: float = 255.0, limit: int = 255) -> int:\n    \"\"\"Fixed point.\"\"\"\n    return min(limit, max(0, round(value * factor)))\n\n\ndef _update_checksum(", 'extra': [{'file': 'choreo.py', 'find': "            value = min(cls._MAX, max(0, round(tag.value * cls._FACTOR)))\n            file.write(cls._FMT.pack(add_to_pool(tag.name), value))", 'replace': "            file.write(cls._FMT.pack(add_to_pool(tag.name), _quantise(tag.value, cls._FACTOR, cls._MAX)))"}, {'file': 'choreo.py', 'find': "            value = min(255, max(0, round(sample.value * 255.0)))\n            file.write(self.BIN_FMT.pack(sample.time, value))", 'replace': "            file.write(self.BIN_FMT.pack(sample.time, _quantise(sample.value)))"}], 'expect': None},
    {'id': 'smd_nodes_in_dict_order', 'file': 'smd.py', 'find': "                if not bone.parent or bone.parent in bone_indexes:\n", 'replace': "                if True:\n", 'expect': 'C20.M2'},
    {'id': 'sndscript_stacks_without_version', 'file': 'sndscript.py', 'find': "        if self.force_v2 or self.stack_start or self.stack_stop or self.stack_update:\n            file.write(\n                '\\t' 'soundentry_version 2\\n'\n", 'replace': "        if self.force_v2:\n            file.write('\\tsoundentry_version 2\\n')\n        if self.force_v2 or self.stack_start or self.stack_stop or self.stack_update:\n            file.write(\n", 'expect': 'C20.M2'},
    {'id': 'cmdseq_strip_find_unchecked', 'file': 'cmdseq.py', 'find': "    if b'\\0' in data:\n        return data[:data.index(b'\\0')].decode('ascii')\n    else:\n        return data.decode('ascii')", 'replace': "    end = data.find(b'\\0')\n    return data[:end].decode('ascii')", 'expect': 'C20.M1'},
    {'id': 'cmdseq_strip_find_checked', 'file': 'cmdseq.py', 'find': "    if b'\\0' in data:\n        return data[:data.index(b'\\0')].decode('ascii')\n    else:\n        return data.decode('ascii')", 'replace': "    end = data.find(b'\\0')\n    if end == -1:\n        return data.decode('ascii')\n    return data[:end].decode('ascii')", 'expect': None},
    {'id': 'cmdseq_strip_partition', 'file': 'cmdseq.py', 'find': "    if b'\\0' in data:\n        return data[:data.index(b'\\0')].decode('ascii')\n    else:\n        return data.decode('ascii')", 'replace': "    return data.partition(b'\\0')[0].decode('ascii')", 'expect': None},
    {'id': 'event_tag_flag_twice', 'file': 'choreo.py', 'find': "                '<hh',\n                add_to_pool(self.tag_name or ''),", 'replace': "                '<Bhh', True,\n                add_to_pool(self.tag_name or ''),", 'expect': 'C20.M1'},
    {'id': 'flex_curve_int', 'file': 'choreo.py', 'find': "            [time, value, curve_type] = binformat.struct_read('<fBH', file)\n            mag_track.append", 'replace': "            [time, value, curve_type] = binformat.struct_read('<fBI', file)\n            mag_track.append", 'expect': 'C20.M1'},
    {'id': 'loop_count_unsigned_writer', 'file': 'choreo.py', 'find': "            file.write(struct.pack('<b', self.loop_count))", 'replace': "            file.write(struct.pack('<B', self.loop_count))", 'expect': 'C20.M1', 'note': 'loop_count may be -1: signedness matters here'},
    {'id': 'channel_active_first', 'file': 'choreo.py', 'find': "        file.write(struct.pack('<hB', add_to_pool(self.name), len(self.events)))\n        for channel in self.events:\n            channel.export_binary(file, add_to_pool)\n        file.write(b'\\x01' if self.active else b'\\x00')",
     'replace': "        file.write(struct.pack('<hB', add_to_pool(self.name), len(self.events)))\n        file.write(b'\\x01' if self.active else b'\\x00')\n        for channel in self.events:\n            channel.export_binary(file, add_to_pool)", 'expect': 'C20.M1'},
    {'id': 'event_tags_order', 'file': 'choreo.py', 'find': "        Tag.export_binary(file, add_to_pool, self.relative_tags)\n        TimingTag.export_binary(file, add_to_pool, self.timing_tags)", 'replace': "        TimingTag.export_binary(file, add_to_pool, self.timing_tags)\n        Tag.export_binary(file, add_to_pool, self.relative_tags)", 'expect': 'C20.M1'},
    {'id': 'event_header_params_swapped', 'file': 'choreo.py', 'find': "            add_to_pool(self.parameters[0]),\n            add_to_pool(self.parameters[1]),", 'replace': "            add_to_pool(self.parameters[1]),\n            add_to_pool(self.parameters[0]),", 'expect': 'C20.M1'},
    {'id': 'gesture_duration_after_tag', 'file': 'choreo.py', 'find': "        if isinstance(self, GestureEvent):\n            file.write(struct.pack('f', self.gesture_sequence_duration))\n", 'replace': "", 'expect': 'C20.M1'},
    {'id': 'cmdseq_args_swapped', 'file': 'cmdseq.py', 'find': "                pad_string(exe, 260),\n                pad_string(cmd.args, 260),", 'replace': "                pad_string(cmd.args, 260),\n                pad_string(exe, 260),", 'expect': 'C20.M1'},
    {'id': 'cmdseq_truncate', 'file': 'cmdseq.py', 'find': "    if len(text) > length:\n        raise ValueError(f'{text!r} is longer than {length}!')\n", 'replace': "    text = text[:length]\n", 'expect': 'C20.M1'},
    {'id': 'scenes_v2_summary', 'file': 'choreo.py', 'find': "            file.write(struct.pack('<Ii', entry.duration_ms, len(entry.sounds)))", 'replace': "            file.write(struct.pack('<Iii', entry.duration_ms, entry.last_speak_ms, len(entry.sounds)))", 'expect': 'C20.M1'},
    {'id': 'scenes_sort_removed', 'file': 'choreo.py', 'find': "    scene_list.sort(key=lambda entry: entry.checksum)\n", 'replace': "", 'expect': 'C20.M4'},
    {'id': 'scenes_sort_late', 'file': 'choreo.py', 'find': "    scene_list.sort(key=lambda entry: entry.checksum)\n", 'replace': "", 'extra': [{'file': 'choreo.py', 'find': "    # Now write the summaries.\n", 'replace': "    scene_list.sort(key=lambda entry: entry.checksum)\n"}], 'expect': 'C20.M4'},
    {'id': 'pool_casefold', 'file': 'choreo.py', 'find': "    add_to_pool = binformat.find_or_insert(pool, lambda x: x)", 'replace': "    add_to_pool = binformat.find_or_insert(pool, str.casefold)", 'expect': 'C20.M4'},
    {'id': 'smd_pose_delta', 'file': 'smd.py', 'find': "            for bone_pose in frame:\n                x, y, z = bone_pose.position", 'replace': "            for bone_pose in frame:\n                if bone_pose.position == prev.get(bone_pose.bone):\n                    continue\n                x, y, z = bone_pose.position", 'expect': None, 'skip': True},
    {'id': 'vmt_drop_empty_proxy', 'file': 'vmt.py', 'find': "                        mat.proxies.extend(cls._parse_block(tok, 'Proxy'))", 'replace': "                        mat.proxies.extend(p for p in cls._parse_block(tok, 'Proxy') if p)", 'expect': 'C20.M2'},
    {'id': 'cctoken_raw', 'file': 'choreo.py', 'find': 'cctoken "{escape_text(self.cc_token)}"', 'replace': 'cctoken "{self.cc_token}"', 'expect': 'C20.M2'},
    {'id': 'event_keyword_renamed', 'file': 'choreo.py', 'find': "file.write(f'{indent} distancetotarget {self.dist_to_targ:.2f}\\n')", 'replace': "file.write(f'{indent} distance_to_target {self.dist_to_targ:.2f}\\n')", 'expect': 'C20.M2'},
    {'id': 'snd_range_unquoted', 'file': 'sndscript.py', 'find': """file.write(f'\\tvolume "{join_float(self.volume)}"\\n')""", 'replace': """file.write(f'\\tvolume {join_float(self.volume)}\\n')""", 'expect': 'C20.M2'},
    {'id': 'snd_wave_raw', 'file': 'sndscript.py', 'find': """file.write(f'\\t\\twave "{escape_text(wav)}"\\n')""", 'replace': """file.write(f'\\t\\twave "{wav}"\\n')""", 'expect': 'C20.M2'},
    {'id': 'vmt_blocks_serialise', 'file': 'vmt.py', 'find': "            self._export_block(f, block, '\\t')", 'replace': "            block.serialise(f, start_indent='\\t')", 'expect': 'C20.M2'},
    {'id': 'vmt_shader_bare', 'file': 'vmt.py', 'find': "        if not shader or any(c in BARE_DISALLOWED for c in shader):\n            shader = f'\"{shader}\"'\n", 'replace': "", 'expect': 'C20.M2'},
    {'id': 'pcf_generator', 'file': 'particles.py', 'find': "        particles = list(particles)  # Iterated twice below.\n", 'replace': "", 'expect': 'C20.M2'},
    {'id': 'pcf_casefold_key', 'file': 'particles.py', 'find': "                part_elem[option.name] = copy.deepcopy(option)", 'replace': "                part_elem[option.name.casefold()] = copy.deepcopy(option)", 'expect': 'C20.M2'},
    {'id': 'pcf_section_missing', 'file': 'particles.py', 'find': "                'emitters', 'forces', 'constraints',\n            ]:", 'replace': "                'emitters', 'forces',\n            ]:", 'expect': 'C20.M2'},
    {'id': 'smd_link_count_fused', 'file': 'smd.py', 'find': "                        file.write(b' %i' % (len(vert.links), ))", 'replace': "                        file.write(b'%i' % (len(vert.links), ))", 'expect': 'C20.M2'},
    {'id': 'smd_bone_set', 'file': 'smd.py', 'find': "        todo: dict[Bone, None] = dict.fromkeys(self.bones.values())", 'replace': "        todo: set[Bone] = set(self.bones.values())", 'extra': [{'file': 'smd.py', 'find': "                    del todo[bone]", 'replace': "                    todo.remove(bone)"}], 'expect': 'C20.M2'},
    {'id': 'interp_name_dup', 'file': 'choreo.py', 'find': "    Interpolation.HOLD: 'hold',", 'replace': "    Interpolation.HOLD: 'linear_interp',", 'expect': None, 'skip': True},
    {'id': 'caption_table_missing', 'file': 'choreo.py', 'find': "    'cc_disabled': CaptionType.Disabled,\n", 'replace': "", 'expect': 'C20.M5'},
    {'id': 'tab_layout_change_ok', 'file': 'smd.py', 'find': "                        b'%.6f %.6f %.6f\\t'  # Normal XYZ", 'replace': "                        b'%.6f %.6f %.6f '  # Normal XYZ", 'expect': None, 'note': 'negative control: a different whitespace separator'},
]
MUTANTS = [m for m in MUTANTS if not m.get('skip')]
