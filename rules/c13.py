"""C13 - VPK archives return what was last written (DESIGN.md C13).

  Z1  write guard dominance: every method of VPK / FileInfo that mutates the file table, a FileInfo storage field,
      footer_data, or opens a file for writing starts (CFG dominance) with _check_writable() / a `mode.writable` test that
      raises (constructor and load_dirfile excepted: mode semantics).
  Z2  directory wire agreement: write_dirfile / load_dirfile use the same header and entry formats, the entry slots link to
      the same FileInfo fields in the same order, the terminator sentinel 0xffff and the None <-> DIR_ARCH_INDEX mapping agree,
      the ext/dir/file nesting has one terminator per level, and the empty-string ' ' convention is used on both sides.
  Z3  placement agreement: FileInfo.read, verify and write use the same storage per placement - `arch_index is None` means
      vpk.footer_data[offset: offset+arch_len]; a numbered archive file is only opened when arch_index is not None.
  Z4  name normal form: __getitem__, __contains__, __delitem__ and new_file all obtain (path, name, ext) from _get_file_parts.
  Z5  checksum: write() stores checksum(data) of the whole data; verify() chains the preload and the archive part.
  Z6  preload bound: the directory entry stores the preload length in 16 bits; write() must bound start_data accordingly.
"""
from __future__ import annotations

import ast
import re
from typing import Any, Dict, List, Optional, Set, Tuple

from engine.srcmatch import U
from engine.cfg import build_cfg
from engine.fold import Folder, FoldError
from engine.model import AnalysisError, Program, dotted, walk_no_nested
from engine.wire import Config, Extractor, atoms, expand, value_count
from rules.c09 import attrs_fields

LEVEL = 'other'

STORAGE_FIELDS = {'crc', 'arch_index', 'offset', 'arch_len', 'start_data'}


def run(ctx: Any, prog: Program) -> None:
    vpk = prog.module('vpk')
    fold = Folder(prog, vpk)
    vm = vpk.methods('VPK')
    fm = vpk.methods('FileInfo')
    ctx.not_decided += ['byte equality after arbitrary operation sequences', 'garbage left in numbered archives by overwrites', 'CRC32 collisions (write() skips data with an equal checksum)']
    ctx.rule('C13.Z1', 'every mutating method is dominated by the writable-mode guard', floor=4)
    ctx.rule('C13.Z2', 'directory reader and writer agree on formats, entry field order, sentinels and nesting', floor=14)
    ctx.rule('C13.Z3', 'read/verify/write use the same storage for each placement (dir tail = footer_data, numbered file otherwise)', floor=5)
    ctx.rule('C13.Z4', 'all name lookups normalise through _get_file_parts', floor=5)
    ctx.rule('C13.Z5', 'the stored checksum covers the full data; verify chains preload and archive part', floor=3)
    ctx.rule('C13.Z7', 'write_dirfile either always writes or its skip flag is set by every mutating method', floor=1)
    ctx.rule('C13.Z8', 'the directory string reader keeps what it has read across iterations (no per-iteration reset before `continue`)', floor=1)
    ctx.rule('C13.Z6', 'preload length fits the 16-bit directory field', floor=1)
    ctx.rule('C13.Z10', 'blocks of a buffer are moved within that buffer only in increasing offset order (in-place compaction)', floor=1)
    ctx.rule('C13.Z9', 'a sub-tree of the file index is dropped only when that very container is empty', floor=2)

    # ---- Z1 ------------------------------------------------------------------------------------------------
    def mutates(fn: ast.AST, is_fileinfo: bool) -> List[str]:
        out = []
        for n in walk_no_nested(fn):
            if isinstance(n, (ast.Assign, ast.AugAssign)):
                tgts = n.targets if isinstance(n, ast.Assign) else [n.target]
                for t in tgts:
                    d = dotted(t) if not isinstance(t, ast.Subscript) else dotted(t.value)
                    if d and (d.startswith('self._fileinfo') or d in ('self.footer_data', 'self.vpk.footer_data')):
                        out.append(d)
                    if is_fileinfo and d and d.startswith('self.') and d[5:] in STORAGE_FIELDS:
                        out.append(d)
            if isinstance(n, ast.Call):
                if dotted(n.func) == 'open' and len(n.args) >= 2 and isinstance(n.args[1], ast.Constant) and any(ch in str(n.args[1].value) for ch in 'wax+'):
                    tgt = U(n.args[0])
                    if any(k in tgt for k in ('self.path', 'arch_file', 'get_arch_filename', 'self.folder', 'self.vpk.folder')):
                        out.append(f'open(..., {n.args[1].value!r})')     # one of the archive's own files
                if isinstance(n.func, ast.Attribute) and n.func.attr in ('pop', 'clear', 'update', 'setdefault', 'popitem') and (dotted(n.func.value) or '').startswith(('self._fileinfo', 'files', 'folders', 'ext_infos', 'dir_infos')):
                    out.append(U(n.func))
        for n in walk_no_nested(fn):
            if isinstance(n, ast.Delete):
                for t in n.targets:
                    if isinstance(t, ast.Subscript) and (dotted(t.value) or '').startswith(('self._fileinfo', 'files', 'folders', 'ext_infos', 'dir_infos')):
                        out.append('del ' + U(t.value))
        # locals aliasing the file table (dir_infos[name] = ...)
        for n in walk_no_nested(fn):
            if isinstance(n, ast.Assign):
                for t in n.targets:
                    if isinstance(t, ast.Subscript) and dotted(t.value) in ('dir_infos', 'ext_infos', 'files', 'folders'):
                        out.append(U(t))
        return out
    exempt = {'__init__': 'constructor', 'load_dirfile': 'opens/truncates the directory according to the open mode by design', '__attrs_post_init__': 'constructor'}
    for cname, methods in (('VPK', vm), ('FileInfo', fm)):
        for name, fn in methods.items():
            if name in exempt:
                continue
            muts = mutates(fn, cname == 'FileInfo')
            if not muts:
                continue
            g = build_cfg(fn, lambda s: False)
            guard_nodes = set()
            for nd in g.nodes:
                if nd.stmt is None:
                    continue
                src = U(nd.stmt) if nd.kind in ('stmt', 'test') else ''
                if nd.kind == 'stmt' and '_check_writable()' in src:
                    guard_nodes.add(nd.id)
                if nd.kind == 'test' and 'writable' in src:
                    guard_nodes.add(nd.id)
            mut_nodes = set()
            for nd in g.nodes:
                if nd.stmt is None or nd.kind not in ('stmt', 'with', 'return'):
                    continue
                s2 = U(nd.stmt)
                if any(m.split('(')[0] in s2 for m in muts):
                    mut_nodes.add(nd.id)
            # delegation: a method whose every mutation happens through another guarded method
            p = g.find_path(g.entry, mut_nodes, removed_nodes=guard_nodes) if mut_nodes else None
            ok = p is None
            if ok and name != '__exit__':
                # a `writable` test must also lead to a raise on the not-writable side
                for gid in guard_nodes:
                    nd = g.nodes[gid]
                    if nd.kind == 'test':
                        src = U(nd.stmt).replace(' ', '')
                        if src.startswith('not'):
                            par = vpk.parents.get(nd.stmt)
                            ok = ok and isinstance(par, ast.If) and any(isinstance(x, ast.Raise) for x in par.body)
            if not ok and name.startswith('_') and not name.startswith('__'):
                # a private helper without a guard of its own: sound when every call of it comes after the guard of its caller
                callers = [(cn2, cf) for cn2, cf in methods.items() if cn2 != name and any(isinstance(c, ast.Call) and dotted(c.func) == f'self.{name}' for c in walk_no_nested(cf))]
                all_guarded = bool(callers)
                for cn2, cf in callers:
                    if cn2 in exempt:
                        continue            # a piece of load_dirfile / the constructor moved into a helper: covered by the caller's exemption (and by Z17 for the mode)
                    g2 = build_cfg(cf, lambda s_: False)
                    guards2 = {nd.id for nd in g2.nodes if nd.stmt is not None and ((nd.kind == 'stmt' and '_check_writable()' in U(nd.stmt)) or (nd.kind == 'test' and 'writable' in U(nd.stmt)))}
                    calls2 = {nd.id for nd in g2.nodes if nd.stmt is not None and nd.kind in ('stmt', 'with', 'return') and f'self.{name}(' in U(nd.stmt)}
                    if not guards2 or g2.find_path(g2.entry, calls2, removed_nodes=guards2) is not None:
                        all_guarded = False
                if all_guarded:
                    ok = True
            ctx.check('C13.Z1', ok, vpk, fn, f'{cname}.{name} mutates {sorted(set(muts))[:3]} on a path that does not pass the writable-mode guard' + (f': {g.describe(p)[:150]}' if p else ''),
                      func=f'{cname}.{name}', text=f'{cname}.{name} guarded')
    # ---- Z2 ------------------------------------------------------------------------------------------------
    ld, wd = vm['load_dirfile'], vm['write_dirfile']
    ra = atoms(Extractor(vpk, fold, Config({}, None), 'VPK').extract(ld))
    wa = atoms(Extractor(vpk, fold, Config({}, None), 'VPK').extract(wd))
    rf = [expand(f) for a in ra for f in a.fmts]
    wf = [expand(f) for a in wa for f in a.fmts]
    hdr = expand('<III')
    ent = expand('<IHHIIH')
    ctx.check('C13.Z2', hdr in rf and (hdr in wf), vpk, wd, f'directory header: reader formats {rf}, writer formats {wf}; both must use <III (signature, version, tree length)', func='VPK.write_dirfile', text='header format')
    ctx.check('C13.Z2', ent in rf and ent in wf, vpk, wd, f'directory entry: reader formats {rf}, writer formats {wf}; both must use the same 18-byte record', func='VPK.write_dirfile', text='entry format')
    # the tree length patched afterwards is one <I at offset calcsize('<II')
    ok = expand('<I') in wf and any(isinstance(c, ast.Call) and isinstance(c.func, ast.Attribute) and c.func.attr == 'seek' and isinstance(c.func.value, ast.Name) and c.args and U(c.args[0]) == "struct.calcsize('<II')" for c in walk_no_nested(wd))
    ctx.shape('C13.Z2', ok, vpk, wd, 'the tree length must be patched into the third header field (seek to calcsize("<II"), pack "<I")', func='VPK.write_dirfile', text='tree length patch')
    # entry linkage
    r_ent = next((a for a in ra if a.fmts and expand(a.fmts[0]) == ent), None)
    w_ent = next((a for a in wa if a.fmts and expand(a.fmts[0]) == ent), None)
    if r_ent is None or w_ent is None or r_ent.names is None or w_ent.names is None:
        raise AnalysisError('VPK directory entry unpack/pack site not found or not destructured')
    ctx.check('C13.Z2', len(r_ent.names) == value_count('<IHHIIH') == len(w_ent.names), vpk, r_ent.node, f'entry arity: reader {len(r_ent.names)} targets, writer {len(w_ent.names)} arguments, format has 6 values',
              func='VPK.load_dirfile', text='entry arity')
    # reader target -> FileInfo field through the constructor call
    ctor = [c for c in walk_no_nested(ld) if isinstance(c, ast.Call) and dotted(c.func) == 'FileInfo']
    if len(ctor) != 1:
        raise AnalysisError('load_dirfile: FileInfo(...) construction not found')
    fi_fields = [f.lstrip('_') for f, _ in attrs_fields(vpk, 'FileInfo')]
    r_field: Dict[str, str] = {}
    for i, a in enumerate(ctor[0].args):
        for nm in ast.walk(a):
            if isinstance(nm, ast.Name) and i < len(fi_fields):
                r_field.setdefault(nm.id, fi_fields[i])
    # locals derived in the writer: arch_ind from info.arch_index
    w_alias: Dict[str, str] = {}
    for n in walk_no_nested(wd):
        if isinstance(n, ast.Assign) and isinstance(n.targets[0], ast.Name) and isinstance(n.value, ast.Attribute) and isinstance(n.value.value, ast.Name) and n.value.value.id not in ('self', 'cls'):
            w_alias[n.targets[0].id] = n.value.attr
    for i, (rn, wsrc) in enumerate(zip(r_ent.names, w_ent.names)):
        rfield = r_field.get(rn, None)
        wnode = ast.parse(wsrc, mode='eval').body
        wfields = [a.attr for a in ast.walk(wnode) if isinstance(a, ast.Attribute) and isinstance(a.value, ast.Name) and a.value.id not in ('self', 'cls')]
        if isinstance(wnode, ast.Name) and wnode.id in w_alias:
            wfields = [w_alias[wnode.id]]
        if i == 5:
            try:
                w_term = fold.fold(wnode, {})
            except FoldError:
                w_term = None
            ctx.shape('C13.Z2', isinstance(w_term, int), vpk, w_ent.node, f'entry slot 5 `{wsrc}` folds to a constant', func='VPK.write_dirfile', text='entry terminator value')
            if isinstance(w_term, int):
                ctx.check('C13.Z2', w_term == 0xffff, vpk, w_ent.node, f'entry slot 5 is the terminator: writer packs `{wsrc}` = {w_term:#x}, the format (and the reader) want 0xffff', func='VPK.write_dirfile', text='entry terminator value')
            continue
        if rfield is None or not wfields:
            ctx.note(f'entry slot {i}: linkage undetermined (reader {rn} -> {rfield}, writer {wsrc})')
            continue
        ctx.check('C13.Z2', rfield in wfields, vpk, w_ent.node, f'entry slot {i}: the reader stores it into FileInfo.{rfield} but the writer packs `{wsrc}`', func='VPK.write_dirfile', text=f'entry slot {i} -> {rfield}')
    def _is_term_test(t: ast.AST) -> bool:
        if not (isinstance(t, ast.Compare) and len(t.ops) == 1 and isinstance(t.ops[0], ast.NotEq) and isinstance(t.left, ast.Name) and t.left.id == r_ent.names[5]):
            return False
        try:
            return fold.fold(t.comparators[0], {}) == 0xffff
        except FoldError:
            return False
    term = [n for n in walk_no_nested(ld) if isinstance(n, ast.If) and _is_term_test(n.test) and any(isinstance(x, ast.Raise) for x in n.body)]
    ctx.shape('C13.Z2', len(term) == 1, vpk, term[0] if term else ld, 'the reader must reject an entry whose terminator is not 0xffff', func='VPK.load_dirfile', text='terminator checked')
    dai = fold.global_('DIR_ARCH_INDEX')
    r_map = any(isinstance(n, ast.If) and isinstance(n.test, ast.Compare) and len(n.test.ops) == 1 and isinstance(n.test.ops[0], ast.Eq) and isinstance(n.test.left, ast.Name)
                and dotted(n.test.comparators[0]) == 'DIR_ARCH_INDEX' and isinstance(n.body[0], ast.Assign) and dotted(n.body[0].targets[0]) == n.test.left.id
                and isinstance(n.body[0].value, ast.Constant) and n.body[0].value.value is None for n in walk_no_nested(ld))
    w_map = any(isinstance(n, ast.If) and U(n.test) == 'info.arch_index is None' and U(n.body[0]) == 'arch_ind = DIR_ARCH_INDEX' for n in walk_no_nested(wd)) or \
        any(isinstance(n, ast.IfExp) and isinstance(n.test, ast.Compare) and len(n.test.ops) == 1 and isinstance(n.test.left, ast.Attribute) and n.test.left.attr == 'arch_index'
            and isinstance(n.test.comparators[0], ast.Constant) and n.test.comparators[0].value is None
            and ((isinstance(n.test.ops[0], ast.Is) and dotted(n.body) == 'DIR_ARCH_INDEX' and isinstance(n.orelse, ast.Attribute) and n.orelse.attr == 'arch_index')
                 or (isinstance(n.test.ops[0], ast.IsNot) and dotted(n.orelse) == 'DIR_ARCH_INDEX' and isinstance(n.body, ast.Attribute) and n.body.attr == 'arch_index')) for n in ast.walk(wd))
    ctx.shape('C13.Z2', r_map and w_map and isinstance(dai, int) and dai <= 0xffff, vpk, wd, 'None <-> DIR_ARCH_INDEX must be mapped in both directions and fit the 16-bit field', func='VPK.write_dirfile', text='dir archive index mapping')
    # nesting: three nested loops on both sides, one terminator per level
    def loop_depth(fn: ast.AST) -> int:
        best = 0

        def rec(n: ast.AST, d: int) -> None:
            nonlocal best
            for ch in ast.iter_child_nodes(n):
                if isinstance(ch, ast.For):
                    best = max(best, d + 1)
                    rec(ch, d + 1)
                else:
                    rec(ch, d)
        rec(fn, 0)
        return best
    ctx.check('C13.Z2', loop_depth(ld) == 3 and loop_depth(wd) == 3, vpk, wd, 'the tree is extension / folder / file: three nested loops on both sides', func='VPK.write_dirfile', text='three-level nesting')
    terms = [c for c in walk_no_nested(wd) if isinstance(c, ast.Call) and isinstance(c.func, ast.Attribute) and c.func.attr == 'write' and isinstance(c.func.value, ast.Name) and c.args
             and isinstance(c.args[0], ast.Constant) and c.args[0].value == b'\x00']
    ctx.check('C13.Z2', len(terms) == 3, vpk, wd, f'one empty-string terminator per nesting level is required (found {len(terms)})', func='VPK.write_dirfile', text='level terminators')
    wn = vpk.func('_write_nullstring')
    rn_ = vpk.func('iter_nullstr')
    # structural: the writer emits the constant b' \x00' somewhere, the reader has an arm `<x> == ' '` that yields ''
    w_space = any(isinstance(c, ast.Constant) and c.value == b' \x00' for c in ast.walk(wn))
    r_space = any(isinstance(i, ast.If) and isinstance(i.test, ast.Compare) and len(i.test.ops) == 1 and isinstance(i.test.ops[0], ast.Eq)
                  and any(isinstance(x, ast.Constant) and x.value in (' ', b' ') for x in [i.test.left] + i.test.comparators)
                  and any(isinstance(y, ast.Yield) and isinstance(y.value, ast.Constant) and y.value.value == '' for st in i.body for y in ast.walk(st))
                  for i in ast.walk(rn_))
    ok = w_space == r_space
    ctx.check('C13.Z2', ok and w_space, vpk, wn, "empty names are stored as a single space on both sides", func='_write_nullstring', text='empty string convention')
    # ... and every level of the tree writes its name through that helper: a name encoded by hand (`name.encode(..) + b'\\x00'`) stores the
    # blank name as a bare NUL, which is the end-of-level marker - the reader stops there and misreads the rest of the directory
    name_loops = [l for l in ast.walk(wd) if isinstance(l, ast.For) and isinstance(l.target, ast.Tuple) and len(l.target.elts) == 2 and isinstance(l.target.elts[0], ast.Name)]
    ctx.shape('C13.Z2', len(name_loops) == 3, vpk, wd, f'write_dirfile has {len(name_loops)} loops over (name, content) pairs (extension / folder / file expected)', func='VPK.write_dirfile', text='name loops')
    for l in name_loops:
        nv = l.target.elts[0].id
        through = [c for c in ast.walk(l) if isinstance(c, ast.Call) and dotted(c.func) == wn.name and any(isinstance(a, ast.Name) and a.id == nv for a in c.args)]
        by_hand = [c for c in ast.walk(l) if isinstance(c, ast.Call) and isinstance(c.func, ast.Attribute) and c.func.attr == 'encode' and isinstance(c.func.value, ast.Name) and c.func.value.id == nv]
        if through and not by_hand:
            ctx.check('C13.Z2', True, vpk, l, 'name written through the helper', func='VPK.write_dirfile', text=f'`{nv}` written through {wn.name}')
        elif by_hand:
            ctx.check('C13.Z2', False, vpk, by_hand[0], f'write_dirfile encodes the name `{nv}` itself (`{U(by_hand[0])[:50]}`) instead of going through {wn.name}(): a blank name (the stem of `.gitignore`) is written as a bare NUL, '
                      'which the reader takes for the end of the level - the archive cannot be reopened', func='VPK.write_dirfile', text=f'`{nv}` written through {wn.name}')
        else:
            ctx.shape('C13.Z2', False, vpk, l, f'how the name `{nv}` is written was not recognised', func='VPK.write_dirfile', text=f'`{nv}` written through {wn.name}')
    # ---- Z3 ------------------------------------------------------------------------------------------------
    def placement(fn: ast.AST) -> Dict[str, Set[str]]:
        """storage kinds used under `arch_index is None` (true) and otherwise (false)"""
        out: Dict[str, Set[str]] = {'none': set(), 'num': set(), 'unguarded': set()}

        def kinds(n: ast.AST) -> Set[str]:
            ks = set()
            for x in ast.walk(n):
                if isinstance(x, ast.Attribute) and x.attr == 'footer_data':
                    ks.add('footer')
                if isinstance(x, ast.Call) and dotted(x.func) == 'get_arch_filename':
                    ks.add('archfile')
            return ks

        def helpers_in(st: ast.AST) -> List[ast.AST]:
            # private helpers of FileInfo called on self are analysed in the context of the call (read()/verify() may share one)
            return [fm[c.func.attr] for c in ast.walk(st) if isinstance(c, ast.Call) and isinstance(c.func, ast.Attribute) and dotted(c.func.value) == 'self'
                    and c.func.attr in fm and c.func.attr not in ('read', 'verify', 'write') and fm[c.func.attr] is not fn]

        def rec(stmts: List[ast.stmt], ctxk: str, depth: int = 0) -> None:
            for i_st, st in enumerate(stmts):
                if depth < 2 and not isinstance(st, (ast.If, ast.With, ast.For, ast.While, ast.Try)):
                    for h in helpers_in(st):
                        rec(h.body, ctxk, depth + 1)
                if isinstance(st, ast.If):
                    t = U(st.test).replace('self.', '')
                    if t in ('arch_index is None', 'arch_index is not None') and not st.orelse and st.body and isinstance(st.body[-1], (ast.Return, ast.Raise)) and ctxk == 'unguarded':
                        # guard clause: the rest of this statement list runs under the negated test
                        rec(st.body, 'none' if t == 'arch_index is None' else 'num', depth)
                        rec(stmts[i_st + 1:], 'num' if t == 'arch_index is None' else 'none', depth)
                        return
                    if t == 'arch_index is None':
                        rec(st.body, 'none', depth)
                        rec(st.orelse, 'num', depth)
                        continue
                    if t == 'arch_index is not None':
                        rec(st.body, 'num', depth)
                        rec(st.orelse, 'none', depth)
                        continue
                    out[ctxk] |= kinds(st.test)
                    rec(st.body, ctxk, depth)
                    rec(st.orelse, ctxk, depth)
                elif isinstance(st, (ast.With, ast.For, ast.While, ast.Try)):
                    for it in getattr(st, 'items', []):
                        out[ctxk] |= kinds(it.context_expr)
                    rec(getattr(st, 'body', []), ctxk, depth)
                    rec(getattr(st, 'orelse', []), ctxk, depth)
                    rec(getattr(st, 'finalbody', []), ctxk, depth)
                else:
                    out[ctxk] |= kinds(st)
        rec(fn.body, 'unguarded')
        return out
    for name in ('read', 'verify', 'write'):
        pl = placement(fm[name])
        ok = 'archfile' not in pl['none'] and 'archfile' not in pl['unguarded'] and 'footer' not in pl['num'] \
            and 'footer' in pl['none'] and 'archfile' in pl['num']
        ctx.check('C13.Z3', ok, vpk, fm[name], f'FileInfo.{name}: storage by placement is {dict((k, sorted(v)) for k, v in pl.items())}; the directory tail (arch_index is None) lives in '
                  'vpk.footer_data and a numbered archive is opened only when arch_index is not None - otherwise write() and read() disagree and write_dirfile() drops the data',
                  func=f'FileInfo.{name}', text=f'{name} placement')
    # offsets into footer_data are relative to its start: read slices footer_data[offset: offset+arch_len]
    rsrc = U(fm['read']) + ''.join(U(fm[c.func.attr]) for c in ast.walk(fm['read']) if isinstance(c, ast.Call) and isinstance(c.func, ast.Attribute) and dotted(c.func.value) == 'self' and c.func.attr in fm)
    ctx.shape('C13.Z3', 'self.vpk.footer_data[self.offset:self.offset + self.arch_len]' in rsrc, vpk, fm['read'], 'read() must slice footer_data[offset: offset+arch_len]', func='FileInfo.read', text='footer slice')
    wfn = fm['write']
    none_if = [n for n in ast.walk(wfn) if isinstance(n, ast.If) and U(n.test) in ('arch_index is None', 'self.arch_index is None')]
    if len(none_if) != 1:
        ctx.shape('C13.Z3', False, vpk, wfn, 'directory-tail branch of write() not found', func='FileInfo.write', text='footer offset')
    else:
        def touches_footer(st: ast.AST) -> bool:
            return any(isinstance(x, (ast.Assign, ast.AugAssign)) and 'footer_data' in U(x.targets[0] if isinstance(x, ast.Assign) else x.target) for x in ast.walk(st))

        def sets_offset_to_end(st: ast.AST) -> bool:
            return any(isinstance(x, ast.Assign) and dotted(x.targets[0]) == 'self.offset' and isinstance(x.value, ast.Call) and dotted(x.value.func) == 'len' for x in ast.walk(st))
        body = none_if[0].body
        bad = None
        # every arm that changes footer_data must first point self.offset at the current end of the footer
        arms: List[List[ast.stmt]] = []
        inner = [st for st in body if isinstance(st, ast.If)]
        if inner:
            for i_ in inner:
                arms += [i_.body, i_.orelse]
        else:
            arms = [body]
        pre_sets = any(sets_offset_to_end(st) for st in body if not isinstance(st, ast.If))
        for arm in arms:
            if any(touches_footer(st) for st in arm) and not (pre_sets or any(sets_offset_to_end(st) for st in arm)):
                bad = arm[0]
        if not any(touches_footer(st) for st in body):
            ctx.shape('C13.Z3', False, vpk, none_if[0], 'the directory-tail branch never stores into footer_data', func='FileInfo.write', text='footer offset')
        else:
            ctx.check('C13.Z3', bad is None, vpk, bad or none_if[0], 'write() changes footer_data on a path that keeps the previous self.offset: that offset may belong to a numbered archive (or to a block other files have since been appended after), '
                      'so other files\' bytes are overwritten or the recorded offset points at the wrong data', func='FileInfo.write', text='footer offset')
    # ---- Z7 ------------------------------------------------------------------------------------------------
    wdf = vm['write_dirfile']
    skip = [n for n in wdf.body if isinstance(n, ast.If) and any(isinstance(b, ast.Return) for b in n.body) and isinstance(n.test, ast.UnaryOp) and isinstance(n.test.op, ast.Not)
            and isinstance(n.test.operand, ast.Attribute) and dotted(n.test.operand.value) == 'self']
    if not skip:
        ctx.check('C13.Z7', True, vpk, wdf, 'write_dirfile has no skip path', func='VPK.write_dirfile', text='write_dirfile always writes')
    else:
        flag = skip[0].test.operand.attr
        for owner, methods, is_fi in (('VPK', vm, False), ('FileInfo', fm, True)):
            for name, fn in methods.items():
                if name in ('__init__', 'load_dirfile', 'write_dirfile'):
                    continue
                m_ = mutates(fn, is_fi) + [U(n)[:40] for n in walk_no_nested(fn) if isinstance(n, ast.Delete) and '_fileinfo' in U(n)]
                if not m_:
                    continue
                sets_flag = any(isinstance(n, ast.Assign) and isinstance(n.targets[0], ast.Attribute) and n.targets[0].attr == flag and isinstance(n.value, ast.Constant) and n.value.value is True for n in ast.walk(fn))
                ctx.check('C13.Z7', sets_flag, vpk, fn, f'write_dirfile() returns early while `self.{flag}` is false, but {owner}.{name} changes the archive ({m_[0]}) without setting it: a session consisting only of such '
                          'operations is never written, and the reopened archive still has the old content', func=f'{owner}.{name}', text=f'{owner}.{name} sets the {flag} flag')
    # ---- Z10: in-place moves ---------------------------------------------------------------------------------------------
    def inplace_moves(tree: ast.AST) -> List[Tuple[ast.AST, Optional[ast.AST]]]:
        """(`buf[a:b] = buf[c:d]` statement, enclosing for loop)"""
        par: Dict[ast.AST, ast.AST] = {}
        for n_ in ast.walk(tree):
            for ch in ast.iter_child_nodes(n_):
                par[ch] = n_
        out_ = []
        for a in ast.walk(tree):
            if isinstance(a, ast.Assign) and isinstance(a.targets[0], ast.Subscript) and isinstance(a.targets[0].slice, ast.Slice) and isinstance(a.value, ast.Subscript) and isinstance(a.value.slice, ast.Slice) \
                    and dotted(a.targets[0].value) is not None and dotted(a.targets[0].value) == dotted(a.value.value):
                lp = par.get(a)
                while lp is not None and not isinstance(lp, (ast.For, ast.While)):
                    lp = par.get(lp)
                out_.append((a, lp))
        return out_
    probe = ast.parse('def f(buf, infos):\n    pos = 0\n    for info in infos:\n        buf[pos:pos + info.n] = buf[info.off:info.off + info.n]\n        info.off = pos\n        pos += info.n\n')
    ctx.check('C13.Z10', len(inplace_moves(probe)) == 1, vpk, vpk.tree, 'self-check of the detector on a known in-place block move', func='<detector>', text='in-place move probe is recognised')
    for mv, lp in inplace_moves(vpk.tree):
        its = U(lp.iter) if isinstance(lp, ast.For) else ''
        ordered = isinstance(lp, ast.For) and isinstance(lp.iter, ast.Call) and dotted(lp.iter.func) == 'sorted' and 'offset' in its and not any(k.arg == 'reverse' for k in lp.iter.keywords)
        ctx.check('C13.Z10', ordered, vpk, mv, f'`{U(mv)[:80]}` moves a block inside the buffer it is read from' + (f' while iterating `{its[:50]}`' if its else '') + ': sliding blocks towards the start is only safe when they are '
                  'visited in increasing offset order - in directory order a block moved early overwrites a live block that is visited later (the file then reads another file\'s bytes)', text='in-place block move in offset order')
    # ---- Z9 ------------------------------------------------------------------------------------------------
    # _fileinfo is ext -> folder -> name -> FileInfo and the archive root is the folder ''.  Dropping a level is right only when the
    # container one level down is empty; a test on something else (e.g. any(folders): truthiness of the KEYS, false for the root folder
    # alone) removes files that are still there.
    n_drop = 0
    for name, fn in vm.items():
        derived: Dict[str, Tuple[str, str]] = {}       # local -> (parent container, key source)
        for n in sorted((x for x in walk_no_nested(fn) if isinstance(x, ast.Assign)), key=lambda x: (x.lineno, x.col_offset)):
            if isinstance(n, ast.Assign) and isinstance(n.value, ast.Subscript) and isinstance(n.targets[0], ast.Name):
                par = dotted(n.value.value)
                if par == 'self._fileinfo' or par in derived:
                    derived[n.targets[0].id] = (par or '', U(n.value.slice))
        for n in walk_no_nested(fn):
            cont = key = None
            if isinstance(n, ast.Call) and isinstance(n.func, ast.Attribute) and n.func.attr == 'pop' and n.args:
                cont, key = dotted(n.func.value), U(n.args[0])
            elif isinstance(n, ast.Delete) and isinstance(n.targets[0], ast.Subscript):
                cont, key = dotted(n.targets[0].value), U(n.targets[0].slice)
            if cont is None or not (cont == 'self._fileinfo' or cont in derived):
                continue
            child = [c for c, (p_, k_) in derived.items() if p_ == cont and k_ == key]
            if not child:
                continue            # a leaf removal (the file itself)
            n_drop += 1
            guard = None
            cur: Any = n
            while cur is not None and cur is not fn:
                par_ = vpk.parents.get(cur)
                if isinstance(par_, ast.If) and any(cur is b or any(cur is x for x in ast.walk(b)) for b in par_.body):
                    if any(isinstance(x, ast.Name) and x.id == child[0] for x in ast.walk(par_.test)):
                        guard = par_.test
                        break
                cur = par_
            if guard is None:
                # guard clause form: `if <child>: return` earlier in the same statement list
                stmt_: Any = n
                while stmt_ is not None and not isinstance(stmt_, ast.stmt):
                    stmt_ = vpk.parents.get(stmt_)
                holder = vpk.parents.get(stmt_)
                blk_ = next((b for b in (getattr(holder, 'body', []), getattr(holder, 'orelse', [])) if stmt_ in b), [])
                early = [p_ for p_ in blk_[:blk_.index(stmt_)] if isinstance(p_, ast.If) and p_.body and isinstance(p_.body[-1], (ast.Return, ast.Raise, ast.Continue))
                         and any(isinstance(x, ast.Name) and x.id == child[0] for x in ast.walk(p_.test))] if stmt_ in blk_ else []
                if early:
                    et = U(early[-1].test)
                    if et in (child[0], f'len({child[0]}) > 0', f'len({child[0]}) != 0', f'{child[0]} != {{}}'):
                        ctx.check('C13.Z9', True, vpk, n, 'early return while the container still has entries', func=f'VPK.{name}', text=f'{name}: drop of {cont}[{key}] guarded by emptiness of {child[0]}')
                        continue
                    if re.search(r'\b(any|all)\(\s*' + re.escape(child[0]) + r'\s*\)', et):
                        ctx.check('C13.Z9', False, vpk, n, f'VPK.{name} keeps `{cont}[{key}]` only when `{et}`: any()/all() over a dict look at the truthiness of its KEYS, and the archive root is stored under the empty string',
                                  func=f'VPK.{name}', text=f'{name}: drop of {cont}[{key}] guarded by emptiness of {child[0]}')
                        continue
                    ctx.shape('C13.Z9', False, vpk, n, f'guard clause `{et}` before the drop of `{cont}[{key}]` is not an enumerated emptiness test', func=f'VPK.{name}', text=f'{name}: drop of {cont}[{key}] guarded by emptiness of {child[0]}')
                    continue
                ctx.check('C13.Z9', False, vpk, n, f'VPK.{name} drops `{cont}[{key}]` without testing that `{child[0]}` is empty', func=f'VPK.{name}', text=f'{name}: drop of {cont}[{key}] guarded by emptiness of {child[0]}')
                continue
            gs = U(guard)
            empties = (f'not {child[0]}', f'len({child[0]}) == 0', f'{child[0]} == {{}}')
            if gs in empties:
                ctx.check('C13.Z9', True, vpk, n, 'emptiness test', func=f'VPK.{name}', text=f'{name}: drop of {cont}[{key}] guarded by emptiness of {child[0]}')
            elif re.search(r'\b(any|all)\(\s*' + re.escape(child[0]) + r'\s*\)', gs):
                ctx.check('C13.Z9', False, vpk, n, f'VPK.{name} drops `{cont}[{key}]` when `{gs}`: any()/all() over a dict look at the truthiness of its KEYS, and the archive root is stored under the empty string - '
                          'with only root-level files left the whole level is removed although it still holds files', func=f'VPK.{name}', text=f'{name}: drop of {cont}[{key}] guarded by emptiness of {child[0]}')
            else:
                ctx.shape('C13.Z9', False, vpk, n, f'guard `{gs}` of the drop of `{cont}[{key}]` is not an enumerated emptiness test', func=f'VPK.{name}', text=f'{name}: drop of {cont}[{key}] guarded by emptiness of {child[0]}')
    if n_drop < 2:
        raise AnalysisError(f'Z9: only {n_drop} index sub-tree removals found (2 confirmed by hand in VPK.__delitem__)')
    # ---- Z8 ------------------------------------------------------------------------------------------------
    ins_ = vpk.func('iter_nullstr')
    n_z8 = 0
    for lp in [n for n in ast.walk(ins_) if isinstance(n, (ast.While, ast.For))]:
        fresh = {t.id: st for st in lp.body if isinstance(st, ast.Assign) and isinstance(st.value, (ast.Call, ast.Constant, ast.List)) and U(st.value) in ('bytearray()', '[]', "b''", "''", 'list()')
                 for t in st.targets if isinstance(t, ast.Name)}
        for name, st in fresh.items():
            for br in ast.walk(lp):
                if isinstance(br, ast.If):
                    for arm in (br.body, br.orelse):
                        grows = any((isinstance(x, ast.Call) and isinstance(x.func, ast.Attribute) and x.func.attr in ('extend', 'append') and dotted(x.func.value) == name)
                                    or (isinstance(x, ast.AugAssign) and dotted(x.target) == name) for s_ in arm for x in ast.walk(s_))
                        if grows and arm and isinstance(arm[-1], ast.Continue):
                            n_z8 += 1
                            ctx.check('C13.Z8', False, vpk, st, f'`{name}` is re-created at the top of every loop iteration, so what the branch ending in `continue` (line {arm[-1].lineno}) has just added to it is thrown away: '
                                      'a string longer than one read block comes back as only its last part', func='iter_nullstr', text=f'{name} survives the continue')
    acc = [n for n in ins_.body if isinstance(n, ast.Assign) and U(n.value) in ('bytearray()', '[]')]
    ctx.check('C13.Z8', True, vpk, ins_, 'no accumulator is reset inside the loop before a continue' + (' (accumulator created before the loop)' if acc else ''), func='iter_nullstr', text='accumulator scan')
    # ---- Z4 ------------------------------------------------------------------------------------------------
    for name in ('__getitem__', '__contains__', '__delitem__', 'new_file'):
        fn = vm[name]
        uses = any(isinstance(c, ast.Call) and dotted(c.func) == '_get_file_parts' for c in walk_no_nested(fn))
        raw_params = {a.arg for a in fn.args.args[1:2]}
        raw = [n for n in walk_no_nested(fn) if isinstance(n, ast.Subscript) and dotted(n.value) == 'self._fileinfo' and dotted(n.slice) in ('item', 'filename')]
        # any other table of the archive keyed by the argument as the caller spelled it ('a/b.c', ('a', 'b.c') and ('a', 'b', 'c') are one file)
        raw += [n for n in walk_no_nested(fn) if isinstance(n, ast.Subscript) and (dotted(n.value) or '').startswith('self.') and dotted(n.slice) in raw_params]
        raw += [n for n in walk_no_nested(fn) if isinstance(n, ast.Call) and isinstance(n.func, ast.Attribute) and n.func.attr in ('get', 'pop', 'setdefault', '__contains__') and (dotted(n.func.value) or '').startswith('self.')
                and n.args and dotted(n.args[0]) in raw_params]
        raw += [n for n in walk_no_nested(fn) if isinstance(n, ast.Compare) and len(n.ops) == 1 and isinstance(n.ops[0], (ast.In, ast.NotIn)) and dotted(n.left) in raw_params and (dotted(n.comparators[0]) or '').startswith('self.')]
        ctx.check('C13.Z4', uses and not raw, vpk, raw[0] if raw else fn, f'VPK.{name} must obtain (path, name, ext) from _get_file_parts and never index the table with the raw argument', func=f'VPK.{name}', text=f'{name} normalises')
    # the three spellings must give one decomposition: the 3-tuple form names the extension explicitly (the part after the LAST
    # dot, which is also how the directory tree groups files), so the string and 2-tuple forms have to split at the last dot too
    gfp = vpk.func('_get_file_parts')
    # the name part is the middle element of the returned (path, name, ext) triple
    ret3 = [r.value for r in walk_no_nested(gfp) if isinstance(r, ast.Return) and isinstance(r.value, ast.Tuple) and len(r.value.elts) == 3 and isinstance(r.value.elts[1], ast.Name)]
    fname_var = ret3[0].elts[1].id if ret3 else 'filename'
    splits = [c for c in walk_no_nested(gfp) if isinstance(c, ast.Call) and isinstance(c.func, ast.Attribute) and c.func.attr in ('rsplit', 'split', 'partition', 'rpartition')
              and dotted(c.func.value) == fname_var and c.args and isinstance(c.args[0], ast.Constant) and c.args[0].value == '.']
    splitext = [c for c in walk_no_nested(gfp) if isinstance(c, ast.Call) and dotted(c.func) == 'os.path.splitext']
    if len(splits) + len(splitext) != 1:
        raise AnalysisError('_get_file_parts: the extension split was not found')
    if splits:
        c = splits[0]
        last = c.func.attr == 'rpartition' or (c.func.attr == 'rsplit' and len(c.args) == 2 and isinstance(c.args[1], ast.Constant) and c.args[1].value == 1)
        ctx.check('C13.Z4', last, vpk, c, f'`{U(c)}` does not split at the last dot: "crate.dx90.vtx" decomposes differently from the explicit 3-tuple ("crate.dx90", "vtx"), so the forms address different entries',
                  func='_get_file_parts', text='extension split at the last dot')
    else:
        ctx.check('C13.Z4', True, vpk, splitext[0], 'os.path.splitext splits at the last dot', func='_get_file_parts', text='extension split at the last dot')
    # ---- Z13: the unchanged-content shortcut of FileInfo.write leaves the entry as it was ------------------------------------------------
    # `if <new checksum> == self.crc: return` skips the storing of the data; every field of the entry (start_data, arch_len, offset,
    # arch_index) must then still describe the old placement: nothing may have been stored into the entry before that return.
    ctx.rule('C13.Z13', 'FileInfo.write stores nothing into the entry before its unchanged-content early return', floor=1)
    fw = vpk.func('FileInfo.write')
    early = [st for st in fw.body if isinstance(st, ast.If) and any(isinstance(x, ast.Attribute) and x.attr == 'crc' for x in ast.walk(st.test))
             and st.body and isinstance(st.body[-1], ast.Return)]
    for st in early:
        before = fw.body[:fw.body.index(st)]
        stores = [x for b in before + st.body for x in ast.walk(b) if isinstance(x, ast.Attribute) and isinstance(x.ctx, (ast.Store, ast.Del)) and isinstance(x.value, ast.Name) and x.value.id == fw.args.args[0].arg]
        stores += [c for b in before + st.body for c in ast.walk(b) if isinstance(c, ast.Call) and isinstance(c.func, ast.Attribute) and isinstance(c.func.value, ast.Attribute)
                   and isinstance(c.func.value.value, ast.Name) and c.func.value.value.id == fw.args.args[0].arg and c.func.attr in ('append', 'extend', 'clear', 'update', 'pop', 'insert')]
        ctx.check('C13.Z13', not stores, vpk, stores[0] if stores else st, f'FileInfo.write assigns `{U(stores[0]) if stores else ""}` and can then return early because the checksum is unchanged: the entry keeps its old '
                  'archive part (arch_len / offset / arch_index) next to a freshly split preload, so read() returns other bytes than were written', func='FileInfo.write', text='entry untouched before the unchanged-content return')
    if not early:
        ctx.check('C13.Z13', True, vpk, fw, 'FileInfo.write has no unchanged-content shortcut', func='FileInfo.write', text='no early return on equal checksum')

    # ---- Z14: bookkeeping of one archive object is not shared with the others -----------------------------------------------------------------
    # a list/dict/set written as a class-level default and changed in place through `self` is one object for every VPK of the process: opening
    # a second archive (even read-only) then resets or pollutes what the first one remembers about its own numbered files
    ctx.rule('C13.Z14', 'per-archive state that is changed in place is created per object, not as a class-level default', floor=1)
    from engine.model import shared_mutable_class_attrs
    shared14 = shared_mutable_class_attrs(vpk.tree, ['VPK', 'FileInfo'])
    for cn14, at14, st14 in shared14:
        ctx.check('C13.Z14', False, vpk, st14, f'{cn14}.{at14} has the class-level default `{U(st14.value)[:30]}`, is changed in place by the methods and is not assigned in __init__: every {cn14} object shares it, so what one archive '
                  'records is wiped or altered by constructing or loading another one', func=cn14, text=f'{cn14}.{at14} is per-object state')
    ctx.check('C13.Z14', True, vpk, vpk.tree, f'{len(shared14)} shared mutable class attributes found in VPK / FileInfo', func='<module>', text='VPK / FileInfo class-level containers examined')

    # ---- Z4 (continued): the parts are used as _get_file_parts returned them -----------------------------------------------------------------
    # adding, looking up and deleting all go through the same split; a method that rewrites one of the three parts afterwards (`ext = ext.lower()`
    # in new_file) files the entry under a key the other methods do not compute for the same name
    for mq, mfl in vpk.all_funcs().items():
        for mf in mfl:
            for a in walk_no_nested(mf):
                if isinstance(a, ast.Assign) and isinstance(a.value, ast.Call) and dotted(a.value.func) == '_get_file_parts' and len(a.targets) == 1 and isinstance(a.targets[0], ast.Tuple):
                    parts_ = [e.id for e in a.targets[0].elts if isinstance(e, ast.Name)]
                    rew = [n for n in walk_no_nested(mf) if isinstance(n, (ast.Assign, ast.AugAssign)) and n is not a
                           and any(isinstance(t, ast.Name) and t.id in parts_ and isinstance(t.ctx, ast.Store) for t0 in (n.targets if isinstance(n, ast.Assign) else [n.target]) for t in ast.walk(t0)) and n.lineno > a.lineno]
                    ctx.check('C13.Z4', not rew, vpk, rew[0] if rew else a, f'{mq} rewrites a part of the split name after _get_file_parts (`{U(rew[0])[:50] if rew else ""}`): the other entry points use the parts as returned, so the '
                              'same name is filed and looked up under different keys', func=mq, text=f'{mq}: parts of the name used as split')

    # ---- Z12: a listed name leads back to its entry ---------------------------------------------------------------------------------------
    # FileInfo.filename / iteration / extract_all hand out `_join_file_parts(dir, name, ext)`; every lookup splits a name with `_get_file_parts`.
    # The two are interpreted (engine.minieval, stdlib path functions modelled by posixpath) on a small family of names: the split of a
    # joined triple must be that triple again, otherwise the archive lists a name that it cannot find.
    ctx.rule('C13.Z12', 'joining the parts of a file name and splitting the result gives the same (folder, name, extension)', floor=6)
    from engine.minieval import MiniEval, Raised, Unsupported
    mod_fns = {q: fl[0] for q, fl in vpk.all_funcs().items() if '.' not in q}
    gp, jp = mod_fns.get('_get_file_parts'), mod_fns.get('_join_file_parts')
    if gp is None or jp is None:
        raise AnalysisError('Z12: _get_file_parts / _join_file_parts not found in vpk.py')
    for nm12 in ['a.txt', 'dir/a.txt', '.gitignore', 'dir/.hidden', 'noext', 'dir/sub/noext', 'a.b.c', 'dir/sub/a.b.c', 'x y/z.vmt', '.cache/index.dat', 'dir/.git/pack.idx', './plain/a.txt']:
        try:
            me12 = MiniEval({}, mod_fns)
            parts = me12.inline(gp, [nm12], {}, None)
            joined = me12.inline(jp, list(parts), {}, None)
            again = me12.inline(gp, [joined], {}, None)
        except (Unsupported, Raised) as exc12:
            ctx.shape('C13.Z12', False, vpk, jp, f'name handling could not be interpreted on {nm12!r} ({exc12})', func='_join_file_parts', text=f'round trip of {nm12!r}')
            continue
        ctx.check('C13.Z12', again == parts, vpk, jp, f'{nm12!r} is stored as {parts!r} and listed as {joined!r}, which splits into {again!r}: the archive lists a name that does not lead back to the entry '
                  '(`vpk[name]` / `name in vpk` fail for a name it has just handed out)', func='_join_file_parts', text=f'round trip of {nm12!r}')
        # ... and the split keeps the name: a name in normal form (no leading `./`, no doubled or trailing slash) is listed as it was given.
        # Normalisation that eats more than that (every leading `.` and `/`) files `.cache/x` under `cache/x` - a different, possibly existing, name
        want12 = nm12[2:] if nm12.startswith('./') else nm12
        ctx.check('C13.Z12', joined == want12, vpk, gp, f'{nm12!r} is split into {parts!r}, i.e. stored and listed as {joined!r} instead of {want12!r}: the name the archive keeps is not the name it was given '
                  '(two different names can collapse into one entry)', func='_get_file_parts', text=f'{nm12!r} keeps its name')

    # ---- Z16: archive data is on disk when the call that wrote it returns ---------------------------------------------------------------------
    # write_dirfile() may be called at any time and records offsets into the numbered archives; a reopened VPK reads them from disk.  Every
    # `open(<archive>, 'ab' / 'r+b' ...)` in vpk.py is therefore the context expression of a `with` (closed - flushed - before the function
    # returns); a handle parked on the object (a cache of open archives) keeps the last block in a buffer that nothing flushes before the
    # directory is written.
    ctx.rule('C13.Z16', 'archive files opened for writing are closed by the function that opened them', floor=1)
    n16 = 0
    for q16, fl16 in vpk.all_funcs().items():
        for f16 in fl16:
            for c16 in walk_no_nested(f16):
                if not (isinstance(c16, ast.Call) and dotted(c16.func) in ('open', 'io.open') and len(c16.args) >= 2 and isinstance(c16.args[1], ast.Constant) and isinstance(c16.args[1].value, str)
                        and any(ch in c16.args[1].value for ch in 'aw+')):
                    continue
                n16 += 1
                par16 = vpk.parents.get(c16)
                in_with = isinstance(par16, ast.withitem) or (isinstance(par16, ast.Attribute) and par16.attr == 'close' and isinstance(vpk.parents.get(par16), ast.Call))          # `open(p, 'wb').close()`: created and closed at once
                if not in_with and isinstance(par16, ast.Assign) and len(par16.targets) == 1 and isinstance(par16.targets[0], ast.Name):
                    # `f = open(...)` ... `f.close()` in the same function (try/finally style) is closed where it was opened as well
                    hv = par16.targets[0].id
                    closed = any(isinstance(x, ast.Call) and isinstance(x.func, ast.Attribute) and x.func.attr == 'close' and dotted(x.func.value) == hv for x in walk_no_nested(f16))
                    escapes = any(isinstance(x, ast.Return) and x.value is not None and any(isinstance(y, ast.Name) and y.id == hv for y in ast.walk(x.value)) for x in walk_no_nested(f16)) \
                        or any(isinstance(x, ast.Assign) and any(isinstance(t, (ast.Attribute, ast.Subscript)) for t in x.targets) and any(isinstance(y, ast.Name) and y.id == hv for y in ast.walk(x.value)) for x in walk_no_nested(f16))
                    if closed and not escapes:
                        in_with = True
                    elif not escapes:
                        ctx.shape('C13.Z16', False, vpk, c16, f'{q16}: what happens to the handle `{hv}` opened for writing was not recognised', func=q16, text=f'{q16}: `{U(c16)[:40]}` closed where it was opened')
                        continue
                ctx.check('C13.Z16', in_with, vpk, c16, f'{q16} opens `{U(c16)[:60]}` outside a `with` block and keeps the handle: what was appended last stays in the handle\'s buffer, so after write_dirfile() the '
                          'directory lists a file whose bytes are not in the archive yet (a reopened VPK reads it back short)', func=q16, text=f'{q16}: `{U(c16)[:40]}` closed where it was opened')
    ctx.shape('C13.Z16', n16 >= 2, vpk, vpk.tree, f'{n16} opens for writing found in vpk.py (FileInfo.write and write_dirfile confirmed by hand)', text='opens for writing')

    # ---- Z17: mode 'w' never reads the old directory ----------------------------------------------------------------------------------
    # Opening in WRITE mode starts from an empty archive ("reopening lists exactly the files that should exist"): load_dirfile must not reach
    # its read of the existing directory file when self.mode is OpenModes.WRITE.  The set of modes that can reach the read-open is computed
    # from the tests on self.mode along the way (is / is not / == / in / .writable, early returns and raises, single-assignment locals).
    ctx.rule('C13.Z17', 'load_dirfile never reads the existing directory file in WRITE mode (the old contents are ignored)', floor=1)
    om17 = vpk.cls('OpenModes')
    members17 = {t.id: a.value.value for a in om17.body if isinstance(a, ast.Assign) and isinstance(a.value, ast.Constant) for t in a.targets if isinstance(t, ast.Name)}
    wr17 = next((f for f in om17.body if isinstance(f, ast.FunctionDef) and f.name == 'writable'), None)
    writable17: Optional[Set[str]] = None
    if wr17 is not None:
        rets = [r for r in ast.walk(wr17) if isinstance(r, ast.Return)]
        if len(rets) == 1 and isinstance(rets[0].value, ast.Compare) and dotted(rets[0].value.left) == 'self.value' and isinstance(rets[0].value.ops[0], ast.In) and isinstance(rets[0].value.comparators[0], ast.Constant):
            writable17 = {k for k, v in members17.items() if isinstance(v, str) and v in rets[0].value.comparators[0].value}
    ctx.shape('C13.Z17', 'WRITE' in members17 and writable17 is not None, vpk, om17, 'OpenModes: members and the `writable` property (value in a constant string) not recognised', text='OpenModes table')
    ld17 = vpk.methods('VPK').get('load_dirfile')
    if ld17 is None:
        raise AnalysisError('anchor vanished: VPK.load_dirfile')
    loc17: Dict[str, List[ast.AST]] = {}
    for a in walk_no_nested(ld17):
        if isinstance(a, ast.Assign):
            for t in a.targets:
                if isinstance(t, ast.Name):
                    loc17.setdefault(t.id, []).append(a.value)
    ALL17 = set(members17)
    def _mem17(e: ast.AST) -> Optional[str]:
        d = dotted(e) or ''
        return d.split('.')[-1] if d.startswith('OpenModes.') and d.split('.')[-1] in members17 else None
    def narrow17(t: ast.AST, pol: bool, depth: int = 0) -> Optional[Set[str]]:
        """Modes for which `t` evaluates to `pol`; None: a test on the mode that is not understood."""
        if isinstance(t, ast.UnaryOp) and isinstance(t.op, ast.Not):
            return narrow17(t.operand, not pol, depth)
        if isinstance(t, ast.BoolOp):
            parts = [narrow17(v, pol, depth) for v in t.values]
            if any(p_ is None for p_ in parts):
                return None
            conj = isinstance(t.op, ast.And) == pol
            out = set(ALL17) if conj else set()
            for p_ in parts:
                out = (out & p_) if conj else (out | p_)      # type: ignore[operator]
            return out
        if isinstance(t, ast.Compare) and len(t.ops) == 1 and dotted(t.left) == 'self.mode':
            op, rhs = t.ops[0], t.comparators[0]
            if isinstance(op, (ast.Is, ast.Eq, ast.IsNot, ast.NotEq)) and _mem17(rhs):
                pos = {_mem17(rhs)}
                return pos if isinstance(op, (ast.Is, ast.Eq)) == pol else ALL17 - pos      # type: ignore[return-value]
            if isinstance(op, (ast.In, ast.NotIn)) and isinstance(rhs, (ast.Tuple, ast.List, ast.Set)) and all(_mem17(e) for e in rhs.elts):
                pos = {_mem17(e) for e in rhs.elts}
                return pos if isinstance(op, ast.In) == pol else ALL17 - pos      # type: ignore[return-value]
            return None
        if dotted(t) == 'self.mode.writable' and writable17 is not None:
            return set(writable17) if pol else ALL17 - writable17
        if isinstance(t, ast.Name) and len(loc17.get(t.id, [])) == 1 and depth < 3:
            return narrow17(loc17[t.id][0], pol, depth + 1)
        if any(isinstance(x, ast.Attribute) and x.attr == 'mode' for x in ast.walk(t)) or (isinstance(t, ast.Name) and any('mode' in U(v) for v in loc17.get(t.id, []))):
            return None
        return set(ALL17)
    def _terminates17(block: List[ast.stmt]) -> bool:
        return bool(block) and isinstance(block[-1], (ast.Return, ast.Raise))
    n17 = 0
    for c17 in walk_no_nested(ld17):
        if not (isinstance(c17, ast.Call) and dotted(c17.func) in ('open', 'io.open') and c17.args and dotted(c17.args[0]) == 'self.path'):
            continue
        md = c17.args[1].value if len(c17.args) > 1 and isinstance(c17.args[1], ast.Constant) else next((k.value.value for k in c17.keywords if k.arg == 'mode' and isinstance(k.value, ast.Constant)), 'r')
        if not isinstance(md, str) or any(ch in md for ch in 'wax+'):
            continue
        n17 += 1
        modes = set(ALL17)
        unknown = None
        child: ast.AST = c17
        par = vpk.parents.get(child)
        while par is not None and child is not ld17:
            for fld in ('body', 'orelse', 'finalbody', 'handlers'):
                blk = getattr(par, fld, None)
                if isinstance(blk, list) and child in blk:
                    if isinstance(par, ast.If) and fld in ('body', 'orelse'):
                        nr = narrow17(par.test, fld == 'body')
                        if nr is None:
                            unknown = par.test
                        else:
                            modes &= nr
                    for st in blk[:blk.index(child)]:
                        if isinstance(st, ast.If):
                            for blk2, pol in ((st.body, False), (st.orelse, True)):
                                if _terminates17(blk2):
                                    nr = narrow17(st.test, pol)
                                    if nr is None:
                                        unknown = st.test
                                    else:
                                        modes &= nr
            child, par = par, vpk.parents.get(par)
        if unknown is not None and 'WRITE' in modes:
            ctx.shape('C13.Z17', False, vpk, unknown, f'load_dirfile: the test `{U(unknown)[:60]}` on the open mode was not understood', func='VPK.load_dirfile', text='read of the old directory excluded in WRITE mode')
            continue
        ctx.check('C13.Z17', 'WRITE' not in modes, vpk, c17, f'VPK.load_dirfile reaches `{U(c17)[:40]}` in modes {sorted(modes)}: a VPK opened with mode "w" over an existing archive reads the old directory '
                  'instead of starting empty, so files that were never added to it are listed (and written back) after write_dirfile()', func='VPK.load_dirfile', text='read of the old directory excluded in WRITE mode')
    if n17 < 1:
        raise AnalysisError('Z17: VPK.load_dirfile no longer opens self.path for reading: anchor vanished')

    # ---- Z18: every field of a directory entry is computed for that entry -------------------------------------------------------------------
    # A local packed into the per-file record of write_dirfile must be assigned on every path of the iteration that packs it: a "default
    # set once before the loop, overridden when needed" keeps the previous file's value (its archive index) for the next file.
    ctx.rule('C13.Z18', 'values packed into a directory entry are assigned in the iteration that packs them, on every path', floor=1)
    from rules.c16 import stale_loop_values as _stale
    wd18 = vpk.methods('VPK')['write_dirfile']
    packs18 = [c for l in ast.walk(wd18) if isinstance(l, (ast.For, ast.While)) for c in ast.walk(l) if isinstance(c, ast.Call) and (dotted(c.func) or '').split('.')[-1] == 'pack']
    ctx.shape('C13.Z18', len({id(c) for c in packs18}) >= 1, vpk, wd18, 'no pack() call inside the file loops of write_dirfile', func='VPK.write_dirfile', text='entry fields assigned per file')
    hz18 = _stale(wd18, {'pack'})
    seen18 = set()
    for c18, v18, lp18 in hz18:
        if (id(c18), v18) in seen18:
            continue
        seen18.add((id(c18), v18))
        ctx.check('C13.Z18', False, vpk, c18, f'VPK.write_dirfile packs `{v18}` into the entry of every file, but an iteration assigns it only on some paths: a file for which none of them runs is written with the value '
                  'left over from the previous file (a directory-stored file gets the archive index of its neighbour and reads back other bytes)', func='VPK.write_dirfile', text=f'`{v18}` assigned per file')
    if not hz18:
        ctx.check('C13.Z18', True, vpk, wd18, 'every packed local is assigned per iteration', func='VPK.write_dirfile', text='entry fields assigned per file')

    # ---- Z19: the recorded offset is where this write put the data ---------------------------------------------------------------------------
    # FileInfo.write records (arch_index, offset, arch_len) and appends the data to that storage.  The offset is therefore the end of that
    # storage taken right before the append (`len(self.vpk.footer_data)`, `file.seek(0, SEEK_END)` / `file.tell()`), or the constant 0 of a
    # file without archive part - never a position remembered from another write, which belongs to whatever archive that write went to.
    ctx.rule('C13.Z19', 'FileInfo.write records as offset the end of the storage it then appends to', floor=3)
    fw19 = vpk.methods('FileInfo')['write']
    n19 = 0
    for a19 in [a for a in walk_no_nested(fw19) if isinstance(a, ast.Assign) and any(dotted(t) == 'self.offset' for t in a.targets)]:
        v19 = a19.value
        ok19 = (isinstance(v19, ast.Constant) and v19.value == 0) \
            or (isinstance(v19, ast.Call) and dotted(v19.func) == 'len' and len(v19.args) == 1 and (dotted(v19.args[0]) or '').endswith('footer_data')) \
            or (isinstance(v19, ast.Call) and isinstance(v19.func, ast.Attribute) and v19.func.attr in ('seek', 'tell') and isinstance(v19.func.value, ast.Name))
        n19 += 1
        if not ok19 and isinstance(v19, ast.Name):
            ctx.shape('C13.Z19', False, vpk, a19, f'FileInfo.write sets the offset from the local `{v19.id}`: where that comes from is not followed', func='FileInfo.write', text=f'offset `{U(v19)[:40]}` is the end of the storage')
            continue
        ctx.check('C13.Z19', ok19, vpk, a19, f'FileInfo.write records the offset `{U(v19)[:50]}`, which is not the end of the storage this write appends to: the entry then names the requested archive (self.arch_index) '
                  'together with a position that belongs to another write - in another archive the bytes there are different, or missing', func='FileInfo.write', text=f'offset `{U(v19)[:40]}` is the end of the storage')
    ctx.shape('C13.Z19', n19 >= 3, vpk, fw19, f'{n19} assignments of self.offset found in FileInfo.write (directory tail, numbered archive, no archive part)', func='FileInfo.write', text='offset assignments')

    # ---- Z20: a write that changes the contents sets the whole placement --------------------------------------------------------------------
    # An entry is (crc, start_data, arch_index, offset, arch_len).  Once FileInfo.write has accepted new data (it stores the new crc) every way
    # out of the function has assigned all four placement fields: one left at its old value (the tail length of the previous, longer
    # contents) makes read() append bytes that belong to the previous version or to another file.
    ctx.rule('C13.Z20', 'every exit of FileInfo.write after the new checksum is stored has assigned start_data, arch_len, arch_index and offset', floor=1)
    REQ20 = {'start_data', 'arch_len', 'arch_index', 'offset'}
    exits20: List[Tuple[ast.AST, Set[str]]] = []

    def _flow20(stmts: List[ast.stmt], have: Optional[Set[str]]) -> Optional[Set[str]]:
        """have: attributes of self assigned since the crc store (None: crc not stored yet).  Returns the set at fall-through, or a
        set containing '<dead>' when every path has left."""
        for st in stmts:
            if have is not None and '<dead>' in have:
                break
            if isinstance(st, ast.Return):
                if have is not None:
                    exits20.append((st, set(have)))
                return (have or set()) | {'<dead>'}
            if isinstance(st, ast.Raise):
                return (have or set()) | {'<dead>'}
            if isinstance(st, (ast.Assign, ast.AugAssign, ast.AnnAssign)):
                tg = st.targets if isinstance(st, ast.Assign) else [st.target]
                names = {x.attr for t in tg for x in ast.walk(t) if isinstance(x, ast.Attribute) and dotted(x.value) == 'self' and isinstance(x.ctx, ast.Store)}
                if 'crc' in names and have is None:
                    have = set()
                if have is not None:
                    have |= names
            elif isinstance(st, ast.If):
                a = _flow20(st.body, None if have is None else set(have))
                b = _flow20(st.orelse, None if have is None else set(have))
                da, db = a is not None and '<dead>' in a, b is not None and '<dead>' in b
                if da and db:
                    return (have or set()) | {'<dead>'}
                if da:
                    have = b
                elif db:
                    have = a
                else:
                    have = None if (a is None and b is None) else (a if b is None else (b if a is None else a & b))
            elif isinstance(st, (ast.With, ast.Try)):
                have = _flow20(st.body, have)
            elif isinstance(st, (ast.For, ast.While)):
                _flow20(st.body, None if have is None else set(have))
        return have
    fw20 = vpk.methods('FileInfo')['write']
    end20 = _flow20(list(fw20.body), None)
    if end20 is not None and '<dead>' not in end20:
        exits20.append((fw20.body[-1], set(end20)))
    ctx.shape('C13.Z20', len(exits20) >= 1, vpk, fw20, 'no exit of FileInfo.write after the checksum store was found', func='FileInfo.write', text='placement fields assigned on every exit')
    for node20, have20 in exits20:
        miss20 = sorted(REQ20 - have20)
        ctx.check('C13.Z20', not miss20, vpk, node20, f'FileInfo.write can leave at line {node20.lineno} having stored the new checksum but not {miss20}: the entry keeps the value of the previous contents there (a stale tail '
                  'length makes read() append old bytes; verify() fails and the stale entry is written to the directory)', func='FileInfo.write', text=f'exit at `{U(node20)[:30]}` has the whole placement')

    # ---- Z21: the tree length in the header ends where the directory tree ends ---------------------------------------------------------------
    # Data kept in the _dir file itself sits at `header + tree_length + offset`.  write_dirfile measures the tree (`file.tell() - header_len`)
    # before it appends the footer data; measured afterwards the length includes the footer, and every other reader of the format looks for the
    # data (and the end of the tree) in the wrong place - only this library's own loader, which stops at the terminator, would not notice.
    ctx.rule('C13.Z21', 'write_dirfile measures the tree length before the footer data is written', floor=1)
    wd21 = vpk.methods('VPK')['write_dirfile']
    meas21 = [a for a in ast.walk(wd21) if isinstance(a, ast.Assign) and isinstance(a.value, ast.BinOp) and isinstance(a.value.op, ast.Sub) and isinstance(a.value.left, ast.Call)
              and isinstance(a.value.left.func, ast.Attribute) and a.value.left.func.attr == 'tell']
    foot21 = [c for c in ast.walk(wd21) if isinstance(c, ast.Call) and isinstance(c.func, ast.Attribute) and c.func.attr == 'write' and c.args and (dotted(c.args[0]) or '').endswith('footer_data')]
    ctx.shape('C13.Z21', len(meas21) == 1 and len(foot21) == 1, vpk, wd21, f'write_dirfile: {len(meas21)} measurements `file.tell() - <header>` and {len(foot21)} writes of footer_data found (one each expected)', func='VPK.write_dirfile',
              text='tree length measured before the footer')
    if len(meas21) == 1 and len(foot21) == 1:
        ctx.check('C13.Z21', meas21[0].lineno < foot21[0].lineno, vpk, meas21[0], f'write_dirfile computes `{U(meas21[0])[:50]}` after `{U(foot21[0])[:40]}`: the tree length stored in the header then includes the footer data, '
                  'so data stored in the directory file is looked for beyond its real position by any reader that follows the format', func='VPK.write_dirfile', text='tree length measured before the footer')

    # ---- Z15: file data in a numbered archive is read at the offset recorded for it ---------------------------------------------------------
    # Overwrites and removals leave dead blocks in the numbered archives and new data is appended, so the live blocks are neither contiguous
    # nor in directory order: a read of `<entry>.arch_len` bytes is right only directly after `seek(<entry>.offset)` on the same file object.
    ctx.rule('C13.Z15', 'every read of an entry\'s arch_len bytes from an archive file follows a seek to that entry\'s offset', floor=1)
    n15 = 0
    for q15, fl15 in vpk.all_funcs().items():
        for f15 in fl15:
            for c15 in walk_no_nested(f15):
                if not (isinstance(c15, ast.Call) and isinstance(c15.func, ast.Attribute) and c15.func.attr == 'read' and isinstance(c15.func.value, ast.Name) and len(c15.args) == 1
                        and isinstance(c15.args[0], ast.Attribute) and c15.args[0].attr == 'arch_len'):
                    continue
                fobj, ent15 = c15.func.value.id, U(c15.args[0].value)
                # the statement holding the read, and the block it is in
                st15: ast.AST = c15
                while not isinstance(st15, ast.stmt):
                    st15 = vpk.parents[st15]
                par15 = vpk.parents.get(st15)
                blk15 = next((getattr(par15, fld) for fld in ('body', 'orelse', 'finalbody') if isinstance(getattr(par15, fld, None), list) and st15 in getattr(par15, fld)), None)
                n15 += 1
                ok15 = False
                if blk15 is not None:
                    for prev in reversed(blk15[:blk15.index(st15)]):
                        calls_ = [x for x in ast.walk(prev) if isinstance(x, ast.Call) and isinstance(x.func, ast.Attribute) and dotted(x.func.value) == fobj]
                        if not calls_:
                            continue
                        ok15 = len(calls_) == 1 and calls_[0].func.attr == 'seek' and len(calls_[0].args) == 1 and U(calls_[0].args[0]) == f'{ent15}.offset'
                        break
                ctx.check('C13.Z15', ok15, vpk, c15, f'{q15} reads `{U(c15)}` without first seeking `{fobj}` to `{ent15}.offset`: it takes whatever bytes the file position happens to be at - after an overwrite or a removal the '
                          'blocks of a numbered archive are neither contiguous nor in order, so these are another file\'s (or dead) bytes', func=q15, text=f'{q15}: `{U(c15)}` after seek({ent15}.offset)')
    ctx.shape('C13.Z15', n15 >= 1, vpk, vpk.tree, f'{n15} reads of arch_len bytes found (FileInfo.read and FileInfo.verify confirmed by hand; a shared helper makes it one)', text='archive reads')

    # ---- Z11: nothing is read back from the directory file after write_dirfile has truncated it ------------------------------------------
    ctx.rule('C13.Z11', 'write_dirfile: what is used after the directory file was opened for writing is already in memory (no property that reads the file lazily)', floor=1)
    wd11 = vm['write_dirfile']
    trunc = [w for w in walk_no_nested(wd11) if isinstance(w, ast.With) and any(isinstance(i.context_expr, ast.Call) and dotted(i.context_expr.func) == 'open' and len(i.context_expr.args) >= 2
                                                                             and isinstance(i.context_expr.args[1], ast.Constant) and 'w' in str(i.context_expr.args[1].value) for i in w.items)]
    ctx.shape('C13.Z11', len(trunc) == 1, vpk, wd11, 'write_dirfile opens the directory file once for writing', func='VPK.write_dirfile', text='truncating open')
    lazy_props = {}
    for st in vpk.cls('VPK').body:
        if isinstance(st, ast.FunctionDef) and any(dotted(d) == 'property' for d in st.decorator_list):
            if any(isinstance(c, ast.Call) and dotted(c.func) in ('open', 'self._open', 'io.open') for c in ast.walk(st)):
                lazy_props[st.name] = st
    for w in trunc:
        reads = [a for st in w.body for a in ast.walk(st) if isinstance(a, ast.Attribute) and dotted(a.value) == 'self' and a.attr in lazy_props]
        ctx.check('C13.Z11', not reads, vpk, reads[0] if reads else w, f'write_dirfile reads self.{reads[0].attr if reads else ""} after the directory file has been opened with "wb": that property loads its value from the same '
                  'file on first use, which is now empty - the data of every file stored after the directory tree is written back as nothing', func='VPK.write_dirfile', text='no lazy read after truncation')
    # ---- Z5 ------------------------------------------------------------------------------------------------
    w = fm['write']
    crc_src = [n for n in walk_no_nested(w) if isinstance(n, ast.Assign) and isinstance(n.value, ast.Call) and dotted(n.value.func) == 'checksum' and len(n.value.args) == 1]
    stores_crc = [n for n in walk_no_nested(w) if isinstance(n, ast.Assign) and dotted(n.targets[0]) == 'self.crc']
    if len(crc_src) != 1 or len(stores_crc) != 1:
        ctx.shape('C13.Z5', False, vpk, w, 'checksum computation / store not found', func='FileInfo.write', text='crc of full data')
    else:
        arg = crc_src[0].value.args[0]
        if isinstance(arg, ast.Name) and arg.id == w.args.args[1].arg and dotted(stores_crc[0].value) == dotted(crc_src[0].targets[0]):
            ctx.check('C13.Z5', True, vpk, crc_src[0], 'crc of the whole data', func='FileInfo.write', text='crc of full data')
        elif isinstance(arg, ast.Subscript):
            ctx.check('C13.Z5', False, vpk, crc_src[0], f'the stored checksum covers only `{U(arg)}`: verify() chains the preload and the archive part, i.e. the whole file, so every file longer than that slice fails verification '
                      '(and a change beyond it is not noticed by the same-data shortcut)', func='FileInfo.write', text='crc of full data')
        else:
            ctx.shape('C13.Z5', False, vpk, crc_src[0], 'checksum argument not recognised', func='FileInfo.write', text='crc of full data')
    # amount read from a numbered archive: exactly arch_len bytes - one read of that size, or a loop whose every read is bounded by what
    # is still missing.  A block loop that bounds each read by arch_len (or by the block size alone) runs into the next file's data.
    for mname in ('read', 'verify'):
        mfn = fm[mname]
        for rd in [c for c in ast.walk(mfn) if isinstance(c, ast.Call) and isinstance(c.func, ast.Attribute) and c.func.attr == 'read' and c.args and isinstance(c.func.value, ast.Name)]:
            loop = None
            cur_ = vpk.parents.get(rd)
            while cur_ is not None and cur_ is not mfn:
                if isinstance(cur_, (ast.While, ast.For)):
                    loop = cur_
                    break
                cur_ = vpk.parents.get(cur_)
            size = rd.args[0]
            if loop is None:
                ctx.check('C13.Z5', dotted(size) == 'self.arch_len', vpk, rd, f'FileInfo.{mname} reads `{U(size)}` bytes from the archive in one go; the entry is self.arch_len bytes long', func=f'FileInfo.{mname}',
                          text=f'{mname}: archive read covers arch_len')
                continue
            # counters decremented inside the loop
            counters = {dotted(a.target) for a in ast.walk(loop) if isinstance(a, ast.AugAssign) and isinstance(a.op, ast.Sub)}
            uses_counter = any(isinstance(x, ast.Name) and x.id in counters for x in ast.walk(size))
            ctx.check('C13.Z5', uses_counter, vpk, rd, f'FileInfo.{mname} reads `{U(size)}` bytes per round of a loop that counts down {sorted(c for c in counters if c)}: the size does not depend on what is still missing, '
                      'so the last round reads past the end of the entry into the next file stored in the same archive (verify() then fails although read() is right)', func=f'FileInfo.{mname}', text=f'{mname}: archive read covers arch_len')
    v = fm['verify']
    vsrc = U(v)
    ok = 'chk = checksum(self.start_data)' in vsrc and vsrc.count('chk)') + vsrc.count(', chk') >= 2 and 'return chk == self.crc' in vsrc
    ctx.shape('C13.Z5', ok, vpk, v, 'verify() must chain checksum(start_data) into the checksum of the archive part and compare with crc', func='FileInfo.verify', text='verify chains')
    pre = [n for n in walk_no_nested(w) if isinstance(n, ast.Assign) and dotted(n.targets[0]) == 'self.start_data' and isinstance(n.value, ast.Subscript) and isinstance(n.value.slice, ast.Slice)]
    rest = [n for n in walk_no_nested(w) if isinstance(n, ast.Assign) and isinstance(n.value, ast.Subscript) and isinstance(n.value.slice, ast.Slice) and n.value.slice.lower is not None and n.value.slice.upper is None and dotted(n.value.value) == 'data']
    if len(pre) != 1 or len(rest) != 1 or pre[0].value.slice.lower is not None:
        ctx.shape('C13.Z5', False, vpk, w, 'preload / archive split not recognised', func='FileInfo.write', text='split covers data')
    else:
        ctx.check('C13.Z5', U(pre[0].value.slice.upper) == U(rest[0].value.slice.lower), vpk, rest[0], f'the preload is data[:{U(pre[0].value.slice.upper)}] but the archive part is data[{U(rest[0].value.slice.lower)}:]: '
                  'bytes between the two cut points are dropped or duplicated', func='FileInfo.write', text='split covers data')
    # ---- Z6 ------------------------------------------------------------------------------------------------
    if len(pre) == 1 and isinstance(pre[0].value.slice.upper, ast.Name):
        lim = pre[0].value.slice.upper.id
        clamps = [n for n in walk_no_nested(w) if (isinstance(n, ast.If) and lim in {x.id for x in ast.walk(n.test) if isinstance(x, ast.Name)} and any(isinstance(b, ast.Assign) and dotted(b.targets[0]) == lim for b in n.body))
                  or (isinstance(n, ast.Assign) and dotted(n.targets[0]) == lim and isinstance(n.value, ast.Call) and dotted(n.value.func) == 'min')]
        if not clamps:
            ctx.check('C13.Z6', False, vpk, pre[0], f'`{lim}` bounds the preload but is never clamped: with dir_limit=None (or a single-file VPK) the whole file becomes preload, and write_dirfile() cannot store a length above 65535 in the 16-bit field',
                      func='FileInfo.write', text='preload bounded to 16 bits')
        else:
            consts = {c.value for n in clamps for c in ast.walk(n) if isinstance(c, ast.Constant) and isinstance(c.value, int)}
            for n in clamps:                    # named module constants (`_MAX_DIR_DATA = 0xFFFF`) stand for their value
                for c in ast.walk(n):
                    if isinstance(c, ast.Name):
                        try:
                            v_ = fold.fold(c, {})
                        except Exception:
                            continue
                        if isinstance(v_, int) and not isinstance(v_, bool):
                            consts.add(v_)
            ctx.shape('C13.Z6', bool(consts & {0xffff, 0x10000}), vpk, clamps[0], 'clamp constant', func='FileInfo.write', text='preload bounded to 16 bits')
    else:
        ctx.shape('C13.Z6', False, vpk, w, 'preload slice bound not recognised', func='FileInfo.write', text='preload bounded to 16 bits')

MUTANTS = [
    {'id': 'tree_length_measured_after_footer', 'file': 'vpk.py', 'find': "            # Calculate the length of the header..\n            dir_len = file.tell() - header_len\n", 'replace': "", 'extra': [{'file': 'vpk.py', 'find': "            file.write(self.footer_data)\n", 'replace': "            file.write(self.footer_data)\n            dir_len = file.tell() - header_len\n"}], 'expect': 'C13.Z21', 'refuse_ok': True, 'note': 'round 14'},
    {'id': 'arch_len_kept_when_tail_vanishes', 'file': 'vpk.py', 'find': "        self.arch_len = len(arch_data)\n\n        if self.arch_len:", 'replace': "        if arch_data:\n            self.arch_len = len(arch_data)\n\n        if arch_data:", 'expect': 'C13.Z20', 'note': 'round 13'},
    {'id': 'offset_from_a_block_table', 'file': 'vpk.py', 'find': "                self.offset = len(self.vpk.footer_data)\n", 'replace': "                self.offset = self.vpk._fileinfo.get('blocks', {}).get(new_checksum, len(self.vpk.footer_data))\n", 'expect': 'C13.Z19', 'note': 'round 12'},
    {'id': 'archive_index_carried_over', 'file': 'vpk.py', 'find': "                        if info.arch_index is None:\n                            arch_ind = DIR_ARCH_INDEX\n                        else:\n                            arch_ind = info.arch_index\n", 'replace': "                        if info.arch_index is not None:\n                            arch_ind = info.arch_index\n", 'extra': [{'file': 'vpk.py', 'find': "            key_getter = operator.itemgetter(0)\n", 'replace': "            key_getter = operator.itemgetter(0)\n            arch_ind = DIR_ARCH_INDEX\n"}], 'expect': 'C13.Z18', 'note': 'round 12'},
    {'id': 'write_mode_reads_old_directory', 'file': 'vpk.py', 'find': "        if self.mode is OpenModes.WRITE:\n            # Erase the directory file, we ignore current contents.", 'replace': "        if self.mode is OpenModes.WRITE and not os.path.exists(self.path):\n            # Erase the directory file, we ignore current contents.", 'expect': 'C13.Z17', 'refuse_ok': True, 'note': 'round 11'},
    {'id': 'verify_reads_without_seek', 'file': 'vpk.py', 'find': "                    data.seek(self.offset)\n                    chk = checksum(", 'replace': "                    chk = checksum(", 'expect': 'C13.Z15'},
    {'id': 'file_parts_lstrip_dot_slash', 'file': 'vpk.py', 'find': "    path = os.path.normpath(path).replace('\\\\', '/').rstrip('/')\n", 'replace': "    path = os.path.normpath(path).replace('\\\\', '/').lstrip('./').rstrip('/')\n", 'expect': 'C13.Z12'},
    {'id': 'new_file_lowercases_extension', 'file': 'vpk.py', 'find': "        path, name, ext = _get_file_parts(filename, root)\n", 'replace': "        path, name, ext = _get_file_parts(filename, root)\n        ext = ext.lower()\n", 'expect': 'C13.Z4'},
    {'id': 'vpk_class_level_started_set', 'file': 'vpk.py', 'find': "    _fileinfo: dict[str, dict[str, dict[str, FileInfo]]]\n", 'replace': "    _fileinfo: dict[str, dict[str, dict[str, FileInfo]]]\n    _started_archives: set = set()\n", 'extra': [{'file': 'vpk.py', 'find': "        self._fileinfo.clear()\n        self.footer_data = b''", 'replace': "        self._fileinfo.clear()\n        self._started_archives.clear()\n        self.footer_data = b''"}], 'expect': 'C13.Z14'},
    {'id': 'dirfile_filename_encoded_by_hand', 'file': 'vpk.py', 'find': "                        _write_nullstring(file, filename)\n", 'replace': "                        file.write(filename.encode('ascii', 'surrogateescape') + b'\\x00')\n", 'expect': 'C13.Z2'},
    {'id': 'write_splits_preload_before_shortcut', 'file': 'vpk.py', 'find': "        new_checksum = checksum(data)\n\n        if new_checksum == self.crc:", 'replace': "        new_checksum = checksum(data)\n        self.start_data = data[:self.vpk.dir_limit or 0xFFFF]\n\n        if new_checksum == self.crc:", 'expect': 'C13.Z13'},
    {'id': 'join_parts_skips_blank_stem', 'file': 'vpk.py', 'find': """    return f"{path}{'/' if path else ''}{filename}{'.' if ext else ''}{ext}"\n""", 'replace': """    name = '.'.join(filter(None, (filename, ext)))\n    return '/'.join(filter(None, (path, name)))\n""", 'expect': 'C13.Z12'},
    {'id': 'ok_join_parts_by_concatenation', 'file': 'vpk.py', 'find': """    return f"{path}{'/' if path else ''}{filename}{'.' if ext else ''}{ext}"\n""", 'replace': """    name = filename + '.' + ext if ext else filename\n    return path + '/' + name if path else name\n""", 'expect': None},
    {'id': 'getitem_cache_keyed_by_raw_argument', 'file': 'vpk.py', 'find': "        path, filename, ext = _get_file_parts(item)\n\n        try:\n            return self._fileinfo[ext][path][filename]\n", 'replace': "        try:\n            return self._cache[item]\n        except (AttributeError, KeyError, TypeError):\n            pass\n        path, filename, ext = _get_file_parts(item)\n\n        try:\n            return self._fileinfo[ext][path][filename]\n", 'expect': 'C13.Z4'},
    {'id': 'footer_compacted_in_directory_order', 'file': 'vpk.py', 'find': "    def __iter__(self) -> Iterator[FileInfo]:\n        \"\"\"Yield all FileInfo objects.\"\"\"", 'replace': "    def _compact_footer(self) -> None:\n        footer = bytearray(self.footer_data)\n        pos = 0\n        for info in self:\n            if info.arch_index is not None or not info.arch_len:\n                continue\n            if info.offset != pos:\n                footer[pos: pos + info.arch_len] = footer[info.offset: info.offset + info.arch_len]\n                info.offset = pos\n            pos += info.arch_len\n        del footer[pos:]\n        self.footer_data = bytes(footer)\n\n    def __iter__(self) -> Iterator[FileInfo]:\n        \"\"\"Yield all FileInfo objects.\"\"\"", 'expect': 'C13.Z10'},
    {'id': 'verify_blockwise_overreads', 'file': 'vpk.py', 'find': "                    chk = checksum(\n                        data.read(self.arch_len),\n                        chk,\n                    )", 'replace': "                    remaining = self.arch_len\n                    while remaining > 0:\n                        block = data.read(min(self.arch_len, 65536))\n                        if not block:\n                            return False\n                        chk = checksum(block, chk)\n                        remaining -= len(block)", 'expect': 'C13.Z5'},
    {'id': 'verify_blockwise_correct', 'file': 'vpk.py', 'find': "                    chk = checksum(\n                        data.read(self.arch_len),\n                        chk,\n                    )", 'replace': "                    remaining = self.arch_len\n                    while remaining > 0:\n                        block = data.read(min(remaining, 65536))\n                        if not block:\n                            return False\n                        chk = checksum(block, chk)\n                        remaining -= len(block)", 'expect': None, 'refuse_ok': True},
    {'id': 'ext_dropped_when_no_truthy_folder', 'file': 'vpk.py', 'find': "            if not folders:\n                # Clear extension too.", 'replace': "            if not any(folders):\n                # Clear extension too.", 'expect': 'C13.Z9'},
    {'id': 'ext_dropped_len_zero', 'file': 'vpk.py', 'find': "            if not folders:\n                # Clear extension too.", 'replace': "            if len(folders) == 0:\n                # Clear extension too.", 'expect': None},
    {'id': 'delitem_unguarded', 'file': 'vpk.py', 'find': "        self._check_writable()\n\n        path, filename, ext = _get_file_parts(item)\n\n        try:\n            folders = self._fileinfo[ext]", 'replace': "        path, filename, ext = _get_file_parts(item)\n\n        try:\n            folders = self._fileinfo[ext]", 'expect': 'C13.Z1'},
    {'id': 'entry_fields_swapped', 'file': 'vpk.py', 'find': "                            info.offset,\n                            info.arch_len,\n                            0xffff,", 'replace': "                            info.arch_len,\n                            info.offset,\n                            0xffff,", 'expect': 'C13.Z2'},
    {'id': 'entry_format_changed', 'file': 'vpk.py', 'find': "                        file.write(struct.pack(\n                            '<IHHIIH',", 'replace': "                        file.write(struct.pack(\n                            '<IHHIIh',", 'expect': 'C13.Z2'},
    {'id': 'missing_level_terminator', 'file': 'vpk.py', 'find': "                    file.write(b'\\x00')\n                file.write(b'\\x00')\n            file.write(b'\\x00')", 'replace': "                    file.write(b'\\x00')\n                file.write(b'\\x00')", 'expect': 'C13.Z2'},
    {'id': 'tail_written_to_dir_file', 'file': 'vpk.py', 'find': "            if arch_index is None:\n                # Stored after the directory tree.", 'replace': "            if False:\n                # Stored after the directory tree.", 'expect': 'C13.Z3'},
    {'id': 'contains_raw_lookup', 'file': 'vpk.py', 'find': "        path, filename, ext = _get_file_parts(item)\n\n        try:\n            return filename in self._fileinfo[ext][path]", 'replace': "        path, filename, ext = os.path.dirname(item), os.path.basename(item), ''\n\n        try:\n            return filename in self._fileinfo[ext][path]", 'expect': 'C13.Z4'},
    {'id': 'ext_split_first_dot', 'file': 'vpk.py', 'find': "        filename, ext = filename.rsplit('.', 1)", 'replace': "        filename, ext = filename.split('.', 1)", 'expect': 'C13.Z4'},
    {'id': 'ext_split_rpartition', 'file': 'vpk.py', 'find': "        filename, ext = filename.rsplit('.', 1)", 'replace': "        filename, _, ext = filename.rpartition('.')", 'expect': None, 'note': 'negative control: same split point'},
    {'id': 'nullstr_block_reset', 'file': 'vpk.py', 'find': "    chars = bytearray()\n    while True:\n        char = file.read(1)\n        if char == b'\\x00':", 'replace': "    while True:\n        chars = bytearray()\n        char = file.read(4)\n        if b'\\x00' not in char and char:\n            chars.extend(char)\n            continue\n        if char == b'\\x00':", 'expect': 'C13.Z8'},
    {'id': 'crc_of_preload_only', 'file': 'vpk.py', 'find': "        new_checksum = checksum(data)\n", 'replace': "        new_checksum = checksum(data[:1024])\n", 'expect': 'C13.Z5'},
]
