"""C11 field linkage (L3), bit linkage of split fields (L10) and string-pool discipline (L11).

L3   which field a slot carries.  Reader side: the unpack target of a slot flows (def-use closure inside the reader) into
     arguments of record constructors, i.e. into record fields.  Writer side: the packed expression mentions attributes of the
     record being written.  For every slot where both sides are known the two field sets must intersect.  A writer that packs
     `plane.type` into the slot the reader stores into `Plane.dist` passes every slot-shape check (L1/L2) but is not an inverse.
     Components: when the reader wraps three consecutive slots as Vec(a, b, c)/Angle(a, b, c) and the writer packs `.x/.y/.z`
     (`.pitch/.yaw/.roll`), the component order must agree.
L10  a field split over several slots (static-prop flags: a byte, a 32-bit word in the lightmapped formats, a secondary word in
     the newer ones).  The reader's reconstruction is interpreted symbolically per StaticPropVersion member as an OR of shifted
     slots; the writer's accessor properties (value / value_prim / value_sec) are folded to (mask, shift) from their definitions.
     Every flag bit the reader takes from the file must be the same bit on the writer's side.
L11  a de-duplicated string pool whose reader cuts strings at a terminator: the writer must search the pool for the *terminated*
     string and append exactly what it searched for - otherwise a name that is a prefix of an earlier one gets that one's offset.
"""
from __future__ import annotations

import ast
import re
from typing import Any, Dict, List, Optional, Sequence, Set, Tuple

from engine.srcmatch import U
from engine.model import AnalysisError, Module, dotted, mro, walk_no_nested
from engine.wire import UNKNOWN, Atom, Config, Extractor, expand, value_count

COMPONENTS = {'Vec': ('x', 'y', 'z'), 'FrozenVec': ('x', 'y', 'z'), 'Angle': ('pitch', 'yaw', 'roll'), 'FrozenAngle': ('pitch', 'yaw', 'roll')}
WIDTH = {'b': 8, 'B': 8, '?': 8, 'h': 16, 'H': 16, 'i': 32, 'I': 32, 'l': 32, 'L': 32, 'q': 64, 'Q': 64}


class Slot:
    def __init__(self, atom: Atom, idx: int, code: str, name: Optional[str], expr: Optional[ast.AST]) -> None:
        self.atom, self.idx, self.code, self.name, self.expr = atom, idx, code, name, expr

    def __repr__(self) -> str:
        return f'<{self.code}:{self.name}>'


def value_codes(fmt: str) -> List[str]:
    out = []
    for m in re.finditer(r's\d+;|[a-zA-Z?]', expand(fmt)):
        if m.group(0) != 'x':
            out.append(m.group(0))
    return out


def slot_exprs(a: Atom) -> List[Optional[ast.AST]]:
    """reader: the unpack target element per slot; writer: the packed argument per slot (None when not syntactic)"""
    n = value_count(a.fmts[0])
    node = a.node
    if a.dir == 'w' and isinstance(node, ast.Call):
        args = node.args[1:] if dotted(node.func) in ('struct.pack', 'struct.pack_into') else node.args
        if not any(isinstance(x, ast.Starred) for x in args):
            return list(args) if len(args) == n else [None] * n
        # starred arguments fill an unknown number of slots in the middle: the plain arguments in front of the first star and behind the
        # last one are still the first / last slots
        first = next(i for i, x in enumerate(args) if isinstance(x, ast.Starred))
        last = max(i for i, x in enumerate(args) if isinstance(x, ast.Starred))
        head, tail = list(args[:first]), list(args[last + 1:])
        if len(head) + len(tail) > n:
            return [None] * n
        return head + [None] * (n - len(head) - len(tail)) + tail
    return [None] * n


def records(items: Sequence[Any], depth: int = 0) -> List[List[Slot]]:
    """Every maximal run of atoms (top level and each starred group) as a list of slots; undecided alternatives end the run."""
    out: List[List[Slot]] = []
    cur: List[Slot] = []
    for it in items:
        if isinstance(it, Atom):
            if len(it.fmts) != 1:
                if cur:
                    out.append(cur)
                cur = []
                continue
            codes = value_codes(it.fmts[0])
            exprs = slot_exprs(it)
            names = it.names if it.names and len(it.names) == len(codes) else [None] * len(codes)
            for i, c in enumerate(codes):
                cur.append(Slot(it, i, c, names[i], exprs[i] if i < len(exprs) else None))
        elif it[0] == 'star':
            if cur:
                out.append(cur)
            cur = []
            inner = it[1]
            # a star group that is a flat run of atoms is one record; nested groups recurse
            flat = [x for x in inner if isinstance(x, Atom)]
            if len(flat) == len(inner):
                out += records(inner, depth + 1)
            else:
                # atoms of this level form the record, nested stars are records of their own
                out += records(inner, depth + 1)
        elif it[0] == 'alt':
            if cur:
                out.append(cur)
            cur = []
    if cur:
        out.append(cur)
    return out


def sig(rec: List[Slot]) -> str:
    return rec[0].atom.tag + ':' + ''.join(s.code for s in rec)


# ---- reader side: variable -> record fields ------------------------------------------------------------------------------
def ctor_params(mod: Module, cls: str) -> Optional[List[str]]:
    if not mod.has_class(cls):
        return None
    ms = mod.methods(cls)
    if '__init__' in ms:
        a = ms['__init__'].args
        return [x.arg for x in a.args[1:]] + [x.arg for x in a.kwonlyargs]
    out: List[str] = []
    for c in reversed(mro(mod, cls)):
        if not mod.has_class(c):
            continue
        for st in mod.cls(c).body:
            if isinstance(st, ast.AnnAssign) and isinstance(st.target, ast.Name):
                ann = U(st.annotation)
                if 'ClassVar' in ann:
                    continue
                if st.value is not None and 'init=False' in U(st.value):
                    continue
                out.append(st.target.id.lstrip('_'))
    return out or None


def names_in(e: ast.AST) -> Set[str]:
    return {n.id for n in ast.walk(e) if isinstance(n, ast.Name)}


def flows(fn: ast.AST) -> Dict[str, Set[str]]:
    """flow-insensitive def-use closure: var -> every local variable computed from it"""
    direct: Dict[str, Set[str]] = {}

    def add(srcs: Set[str], tgt: ast.AST) -> None:
        tnames = set()
        for t in ast.walk(tgt):
            if isinstance(t, ast.Name):
                tnames.add(t.id)
        for s in srcs:
            direct.setdefault(s, set()).update(tnames)

    for n in ast.walk(fn):
        if isinstance(n, ast.Assign):
            for t in n.targets:
                add(names_in(n.value), t)
        elif isinstance(n, ast.AugAssign):
            add(names_in(n.value), n.target)
        elif isinstance(n, ast.AnnAssign) and n.value is not None:
            add(names_in(n.value), n.target)
        elif isinstance(n, (ast.For, ast.comprehension)):
            add(names_in(n.iter), n.target)
        elif isinstance(n, ast.NamedExpr):
            add(names_in(n.value), n.target)
        elif isinstance(n, ast.Call) and isinstance(n.func, ast.Attribute) and isinstance(n.func.value, ast.Name) and n.func.attr in ('append', 'add', 'extend', 'update', 'insert'):
            for a in n.args:
                direct_srcs = names_in(a)
                for s in direct_srcs:
                    direct.setdefault(s, set()).add(n.func.value.id)
    closure: Dict[str, Set[str]] = {}
    for v in direct:
        seen, todo = set(), [v]
        while todo:
            x = todo.pop()
            for y in direct.get(x, ()):
                if y not in seen:
                    seen.add(y)
                    todo.append(y)
        closure[v] = seen
    return closure


def reader_fields(mod: Module, fns: Sequence[ast.AST]) -> Tuple[Dict[str, Set[str]], Dict[str, Dict[str, str]]]:
    """var -> field names it reaches through constructor calls; and var -> {field: component} for Vec/Angle wraps"""
    reach: Dict[str, Set[str]] = {}
    comp: Dict[str, Dict[str, str]] = {}
    for fn in fns:
        cl = flows(fn)
        vars_ = set(cl) | {n.id for n in ast.walk(fn) if isinstance(n, ast.Name)}
        # local wraps: v = Vec(a, b, c)
        wraps: Dict[str, Dict[str, str]] = {}
        for n in ast.walk(fn):
            if isinstance(n, ast.Assign) and len(n.targets) == 1 and isinstance(n.targets[0], ast.Name) and isinstance(n.value, ast.Call) and dotted(n.value.func) in COMPONENTS:
                cs = COMPONENTS[dotted(n.value.func)]
                if len(n.value.args) == 3 and all(isinstance(a, ast.Name) for a in n.value.args):
                    for a, c in zip(n.value.args, cs):
                        wraps.setdefault(n.targets[0].id, {})[a.id] = c
        for c in ast.walk(fn):
            if not (isinstance(c, ast.Call) and isinstance(c.func, ast.Name)):
                continue
            params = ctor_params(mod, c.func.id)
            if params is None or c.func.id in COMPONENTS:
                continue
            pairs: List[Tuple[str, ast.AST]] = []
            if any(isinstance(a, ast.Starred) for a in c.args):
                continue
            for i, a in enumerate(c.args):
                if i < len(params):
                    pairs.append((params[i], a))
            for k in c.keywords:
                if k.arg:
                    pairs.append((k.arg.lstrip('_'), k.value))
            for fld, a in pairs:
                used = names_in(a)
                for v in vars_:
                    if v in used or cl.get(v, set()) & used:
                        reach.setdefault(v, set()).add(fld.lstrip('_'))
                # components
                if isinstance(a, ast.Call) and dotted(a.func) in COMPONENTS and len(a.args) == 3 and all(isinstance(x, ast.Name) for x in a.args):
                    for x, cname in zip(a.args, COMPONENTS[dotted(a.func)]):
                        comp.setdefault(x.id, {})[fld.lstrip('_')] = cname
                if isinstance(a, ast.Name) and a.id in wraps:
                    for x, cname in wraps[a.id].items():
                        comp.setdefault(x, {})[fld.lstrip('_')] = cname
    return reach, comp


def writer_fields(e: ast.AST, locals_: Dict[str, List[ast.AST]], depth: int = 0) -> Tuple[Set[str], Dict[str, str]]:
    """record fields mentioned by a packed expression: first attribute on a record variable (`prop.flags.value` -> flags).
    A name assigned in the writer is a local, not a record: its definitions are followed instead.  Also field -> component."""
    out: Set[str] = set()
    comp: Dict[str, str] = {}
    for n in ast.walk(e):
        if isinstance(n, ast.Attribute) and isinstance(n.value, ast.Name) and n.value.id != 'self' and n.value.id not in locals_:
            out.add(n.attr.lstrip('_'))
        if isinstance(n, ast.Attribute) and isinstance(n.value, ast.Attribute) and isinstance(n.value.value, ast.Name) and n.value.value.id != 'self' and n.value.value.id not in locals_:
            if n.attr in ('x', 'y', 'z', 'pitch', 'yaw', 'roll'):
                comp[n.value.attr.lstrip('_')] = n.attr
        if isinstance(n, ast.Name) and n.id in locals_ and depth < 2:
            for d in locals_[n.id]:
                f2, c2 = writer_fields(d, locals_, depth + 1)
                out |= f2
    return out, comp


def assigned_locals(fn: ast.AST) -> Dict[str, List[ast.AST]]:
    """names bound by assignment statements (not loop targets / parameters) -> their defining expressions"""
    out: Dict[str, List[ast.AST]] = {}
    for n in ast.walk(fn):
        if isinstance(n, ast.Assign):
            for t in n.targets:
                if isinstance(t, ast.Name):
                    out.setdefault(t.id, []).append(n.value)
        elif isinstance(n, ast.AnnAssign) and isinstance(n.target, ast.Name) and n.value is not None:
            out.setdefault(n.target.id, []).append(n.value)
        elif isinstance(n, ast.AugAssign) and isinstance(n.target, ast.Name):
            out.setdefault(n.target.id, []).append(n.value)
    return out


def single_defs(fn: ast.AST) -> Dict[str, ast.AST]:
    cnt: Dict[str, List[ast.AST]] = {}
    for n in ast.walk(fn):
        if isinstance(n, ast.Assign) and len(n.targets) == 1 and isinstance(n.targets[0], ast.Name):
            cnt.setdefault(n.targets[0].id, []).append(n.value)
        elif isinstance(n, (ast.AugAssign, ast.AnnAssign)) and isinstance(n.target, ast.Name):
            cnt.setdefault(n.target.id, []).append(n)
        elif isinstance(n, (ast.For, ast.comprehension)):
            for t in ast.walk(n.target):
                if isinstance(t, ast.Name):
                    cnt.setdefault(t.id, []).append(n)
    return {k: v[0] for k, v in cnt.items() if len(v) == 1 and isinstance(v[0], ast.expr)}


def link_records(ctx: Any, rule: str, mod: Module, label: str, rrecs: List[List[Slot]], wrecs: List[List[Slot]], rfns: Sequence[ast.AST], wfn: ast.AST, wname: str) -> int:
    reach, rcomp = reader_fields(mod, rfns)
    wlocals = assigned_locals(wfn)
    by_sig_r: Dict[str, List[List[Slot]]] = {}
    by_sig_w: Dict[str, List[List[Slot]]] = {}
    for r in rrecs:
        by_sig_r.setdefault(sig(r), []).append(r)
    for w in wrecs:
        by_sig_w.setdefault(sig(w), []).append(w)
    n = 0
    for s, rl in by_sig_r.items():
        wl = by_sig_w.get(s, [])
        if len(rl) != 1 or len(wl) != 1:
            continue
        for i, (rs, ws) in enumerate(zip(rl[0], wl[0])):
            if rs.name is None or ws.expr is None:
                continue
            rname = rs.name.split('.')[0].split('[')[0]
            fr = set(reach.get(rname, set()))
            fw, wcomp = writer_fields(ws.expr, wlocals)
            if fr and not fw and isinstance(ws.expr, ast.Name) and ws.expr.id in wlocals and all(isinstance(d, ast.Constant) for d in wlocals[ws.expr.id]):
                # the writer packs a local that is a constant on every path, where the reader stores the slot into a record field: whatever
                # the record held is replaced by that constant in the file
                n += 1
                ctx.check(rule, False, mod, ws.expr, f'{label}: slot {i} (`{rs.code}`) is stored by the reader into field(s) {sorted(fr)} (via `{rs.name}`) but the writer packs the local `{ws.expr.id}`, which is only ever '
                          f'assigned constants ({", ".join(sorted({U(d) for d in wlocals[ws.expr.id]}))}): the field is never written', func=wname, text=f'{label} slot {i} {rs.name}')
                continue
            if not fr or not fw:
                continue
            n += 1
            ok = bool(fr & fw)
            ctx.check(rule, ok, mod, ws.expr, f'{label}: slot {i} (`{rs.code}`) is stored by the reader into field(s) {sorted(fr)} (via `{rs.name}`) but the writer packs `{U(ws.expr)[:60]}` '
                      f'(field(s) {sorted(fw)}) into it', func=wname, text=f'{label} slot {i} {rs.name}')
            if ok and (fw - fr) and isinstance(ws.expr, ast.BinOp) and isinstance(ws.expr.op, (ast.BitOr, ast.Add, ast.LShift)):
                # the writer combines several fields into the slot (`area << k | flags`) while the reader takes the whole slot for one of
                # them: the other field's bits end up in that field
                n += 1
                ctx.check(rule, False, mod, ws.expr, f'{label}: slot {i} (`{rs.code}`) is stored by the reader into {sorted(fr)} only (via `{rs.name}`, unsplit) but the writer packs `{U(ws.expr)[:60]}`, which also '
                          f'carries {sorted(fw - fr)}: the combined value is read back as {sorted(fr)[0]}', func=wname, text=f'{label} slot {i} {rs.name} carries one field')
            if ok:
                for fld in fr & fw:
                    rc = rcomp.get(rname, {}).get(fld)
                    wc = wcomp.get(fld)
                    if rc and wc:
                        n += 1
                        ctx.check(rule, rc == wc, mod, ws.expr, f'{label}: slot {i} is component `{rc}` of {fld} for the reader but the writer packs `{U(ws.expr)[:60]}`', func=wname,
                                  text=f'{label} slot {i} {fld}.{rc}')
    return n


# ---- L10: split fields ---------------------------------------------------------------------------------------------------
def accessor_table(mod: Module) -> Dict[str, Tuple[int, int]]:
    """property name -> (mask, right shift) for properties of the form `return self.value & C` / `return self.value >> C`"""
    out: Dict[str, Tuple[int, int]] = {'value': (0xFFFFFFFF, 0)}
    for cname in mod.all_classes():
        for name, fn in mod.methods(cname).items():
            if not any(dotted(d) == 'property' for d in fn.decorator_list):
                continue
            rets = [r for r in ast.walk(fn) if isinstance(r, ast.Return) and r.value is not None]
            if len(rets) != 1 or not isinstance(rets[0].value, ast.BinOp):
                continue
            b = rets[0].value
            if dotted(b.left) != 'self.value' or not isinstance(b.right, ast.Constant) or not isinstance(b.right.value, int):
                continue
            if isinstance(b.op, ast.BitAnd):
                val = (b.right.value & 0xFFFFFFFF, 0)
            elif isinstance(b.op, ast.RShift):
                val = ((0xFFFFFFFF >> b.right.value) << b.right.value, b.right.value)
            else:
                continue
            if name in out and out[name] != val:
                raise AnalysisError(f'accessor property {name} has two different definitions')
            out[name] = val
    return out


def writer_bits(ex: Extractor, e: ast.AST, field: str, acc: Dict[str, Tuple[int, int]], defs: Optional[Dict[str, ast.AST]] = None, depth: int = 0) -> Optional[Tuple[int, int]]:
    """(mask, shift) of the record field carried by a packed expression; (0, 0) for the constant 0; None if the field is not involved"""
    if isinstance(e, ast.IfExp):
        t = ex.ev(e.test)
        if t is UNKNOWN:
            raise AnalysisError(f'line {e.lineno}: conditional packed value `{U(e)}` is not decided by the configuration')
        return writer_bits(ex, e.body if t else e.orelse, field, acc, defs, depth)
    if isinstance(e, ast.Name) and defs and e.id in defs and depth < 3:
        # a local assigned once (`flags_prim = prop.flags.value_prim`) stands for its definition
        return writer_bits(ex, defs[e.id], field, acc, defs, depth + 1)
    if isinstance(e, ast.Constant) and e.value == 0:
        return (0, 0)
    if isinstance(e, ast.Attribute) and isinstance(e.value, ast.Attribute) and e.value.attr == field and isinstance(e.value.value, ast.Name):
        if e.attr not in acc:
            raise AnalysisError(f'line {e.lineno}: accessor `{e.attr}` of split field {field} is not a mask/shift property')
        return acc[e.attr]
    if field in {n.attr for n in ast.walk(e) if isinstance(n, ast.Attribute)}:
        raise AnalysisError(f'line {e.lineno}: packed expression `{U(e)}` involves {field} in an unrecognised way')
    return None


def reader_terms(ex: Extractor, body: Sequence[ast.stmt], var: str, slot_of: Dict[int, Tuple[int, List[str]]], state: Optional[List[Tuple[int, int]]] = None) -> List[Tuple[int, int]]:
    """Symbolic value of `var` after the block: OR of (flat slot index, left shift).  Fails closed on anything else."""
    terms: List[Tuple[int, int]] = list(state or [])
    if not hasattr(ex, '_aux_slots'):
        ex._aux_slots = {}       # type: ignore[attr-defined]
    aux: Dict[str, int] = ex._aux_slots       # type: ignore[attr-defined]

    def slot_for(call: ast.AST, pos: int) -> int:
        if id(call) not in slot_of:
            raise AnalysisError(f'line {getattr(call, "lineno", 0)}: read `{U(call)[:50]}` is not one of the extracted atoms')
        return slot_of[id(call)][0] + pos

    for st in body:
        if isinstance(st, ast.If):
            t = ex.ev(st.test)
            touches = any(isinstance(n, ast.Name) and n.id == var and isinstance(n.ctx, ast.Store) for n in ast.walk(st))
            if t is UNKNOWN:
                if touches:
                    raise AnalysisError(f'line {st.lineno}: gate `{U(st.test)}` on the reconstruction of {var} is not decided')
                continue
            terms = reader_terms(ex, st.body if t else st.orelse, var, slot_of, terms)
            continue
        if isinstance(st, ast.Assign) and len(st.targets) == 1:
            tgt, val = st.targets[0], st.value
            # keep the configuration environment of the extractor in step (vers_num = 7 etc.) - already applied by extract()
            if isinstance(tgt, (ast.Tuple, ast.List)):
                names = [dotted(e) for e in tgt.elts]
                if var not in names and isinstance(val, ast.Call) and id(val) in slot_of:
                    # other locals read from slots (`[flags_secondary] = struct_read('<I', f)`): remembered, they may be OR-ed in later
                    for i_, nm_ in enumerate(names):
                        if nm_:
                            aux[nm_] = slot_for(val, i_)
                if var in names:
                    if not (isinstance(val, ast.Call) and id(val) in slot_of):
                        raise AnalysisError(f'line {st.lineno}: {var} unpacked from something that is not a struct read')
                    terms = [(slot_for(val, names.index(var)), 0)]
                continue
            if isinstance(tgt, ast.Name) and tgt.id == var:
                if isinstance(val, ast.Call) and isinstance(val.func, ast.Name) and len(val.args) == 1 and dotted(val.args[0]) == var:
                    continue                                   # flags = StaticPropFlags(flags)
                if isinstance(val, ast.Subscript) and id(val.value) in slot_of:
                    terms = [(slot_for(val.value, 0), 0)]
                    continue
                raise AnalysisError(f'line {st.lineno}: assignment `{U(st)[:60]}` to {var} is not a recognised reconstruction step')
            continue
        if isinstance(st, ast.AugAssign) and isinstance(st.target, ast.Name) and st.target.id == var:
            if not isinstance(st.op, ast.BitOr):
                raise AnalysisError(f'line {st.lineno}: `{U(st)[:60]}`: only |= combines slots')
            v = st.value
            shift = 0
            if isinstance(v, ast.BinOp) and isinstance(v.op, ast.LShift) and isinstance(v.right, ast.Constant):
                shift, v = v.right.value, v.left
            if isinstance(v, ast.Subscript) and id(v.value) in slot_of:
                terms.append((slot_for(v.value, 0), shift))
                continue
            if isinstance(v, ast.Name) and v.id in aux:
                terms.append((aux[v.id], shift))
                continue
            raise AnalysisError(f'line {st.lineno}: `{U(st)[:60]}` is not `|= <read>[0] << k`')
        if any(isinstance(n, ast.Name) and n.id == var and isinstance(n.ctx, ast.Store) for n in ast.walk(st)):
            raise AnalysisError(f'line {st.lineno}: statement stores {var} in an unrecognised way')
    return terms


def split_field_check(ctx: Any, rule: str, mod: Module, label: str, exr: Extractor, exw: Extractor, rrec: List[Slot], wrec: List[Slot], loop_body: Sequence[ast.stmt], var: str, field: str,
                      acc: Dict[str, Tuple[int, int]], wnode: ast.AST) -> None:
    slot_of: Dict[int, Tuple[int, List[str]]] = {}
    for i, s in enumerate(rrec):
        if s.idx == 0:
            slot_of[id(s.atom.node)] = (i, [])
    terms = reader_terms(exr, loop_body, var, slot_of)
    if not terms:
        raise AnalysisError(f'{label}: the reader never assigns {var} from the file')
    # reconstructed bit b <- set of writer-side flag bits (or None for a constant zero)
    problems: List[str] = []
    taken = 0
    for b in range(32):
        sources: Set[Optional[int]] = set()
        for slot, lshift in terms:
            i = b - lshift
            width = WIDTH.get(rrec[slot].code)
            if width is None:
                raise AnalysisError(f'{label}: slot {slot} feeding {var} has non-integer code {rrec[slot].code}')
            if not 0 <= i < width:
                continue
            wexpr = wrec[slot].expr
            if wexpr is None:
                raise AnalysisError(f'{label}: writer expression for slot {slot} is not syntactic')
            wb = writer_bits(exw, wexpr, field, acc, single_defs(wnode) if isinstance(wnode, (ast.FunctionDef, ast.AsyncFunctionDef)) else None)
            if wb is None:
                problems.append(f'slot {slot} is read into {var} but the writer packs `{U(wexpr)[:50]}` there')
                continue
            mask, rshift = wb
            src = i + rshift
            sources.add(src if (mask >> src) & 1 and src < 32 else None)
        if not sources:
            continue
        taken += 1
        wrong = {s for s in sources if s is not None and s != b}
        if wrong:
            problems.append(f'flag bit {b} is rebuilt from bit(s) {sorted(wrong)}')
        elif b not in sources:
            problems.append(f'bit {b}')
    lost = [p for p in problems if p.startswith('bit ')]
    other = [p for p in problems if not p.startswith('bit ')]
    detail = ''
    if lost:
        bits = [int(p.split()[1]) for p in lost]
        detail = f'the reader takes bits {bits[0]}..{bits[-1]} of {field} from the file but the writer stores zero there'
    if other:
        detail = '; '.join(other + ([detail] if detail else []))
    ctx.check(rule, not problems, mod, wnode, f'{label}: {detail} (reader: {var} = ' + ' | '.join(f'slot{s}<<{k}' for s, k in terms) + ')', func='BSP._lmp_write_props',
              text=f'{label} {field} bits ({taken} bits carried)' if not problems else f'{label} {field} bits')


# ---- L11: string pools -----------------------------------------------------------------------------------------------------
def bytes_shape(e: ast.AST, defs: Dict[str, ast.AST], depth: int = 0) -> List[Tuple[str, Any]]:
    """a byte-string expression as a list of pieces ('lit', b'..') / ('expr', source)"""
    if isinstance(e, ast.Constant) and isinstance(e.value, bytes):
        return [('lit', e.value)] if e.value else []
    if isinstance(e, ast.BinOp) and isinstance(e.op, ast.Add):
        return bytes_shape(e.left, defs, depth) + bytes_shape(e.right, defs, depth)
    if isinstance(e, ast.Name) and e.id in defs and depth < 3:
        return bytes_shape(defs[e.id], defs, depth + 1)
    return [('expr', U(e))]


def string_pool_check(ctx: Any, rule: str, mod: Module, fn: ast.AST, fname: str, terminator: bytes) -> int:
    defs = single_defs(fn)
    n = 0
    for c in walk_no_nested(fn):
        if not (isinstance(c, ast.Call) and isinstance(c.func, ast.Attribute) and c.func.attr in ('find', 'index', 'rfind') and isinstance(c.func.value, ast.Name) and len(c.args) >= 1):
            continue
        pool = c.func.value.id
        needle = bytes_shape(c.args[0], defs)
        # what is appended to the same pool
        appended: List[Tuple[ast.AST, List[Tuple[str, Any]]]] = []
        for a in walk_no_nested(fn):
            if isinstance(a, ast.Call) and isinstance(a.func, ast.Attribute) and a.func.attr == 'extend' and dotted(a.func.value) == pool and a.args:
                appended.append((a, bytes_shape(a.args[0], defs)))
            if isinstance(a, ast.AugAssign) and isinstance(a.op, ast.Add) and dotted(a.target) == pool:
                appended.append((a, bytes_shape(a.value, defs)))
        if not appended:
            continue
        n += 1
        term_ok = bool(needle) and needle[-1][0] == 'lit' and needle[-1][1].endswith(terminator)
        ctx.check(rule, term_ok, mod, c, f'`{U(c)[:60]}` searches the pool for an unterminated string: a name that is a prefix of an earlier entry is given that entry\'s offset and reads back as the longer name',
                  func=fname, text=f'{pool}: search needle is terminated')
        for a, shape in appended:
            n += 1
            ctx.check(rule, shape == needle or (not term_ok and bool(shape) and shape[-1][0] == 'lit' and shape[-1][1].endswith(terminator)), mod, a,
                      f'`{U(a)[:60]}` appends {shape} but the pool was searched for {needle}: offsets found by the search must point at exactly what a miss would have stored',
                      func=fname, text=f'{pool}: appended bytes equal the needle')
    return n
