"""C14 - DMX export / parse preserve the element graph: structural clauses (DESIGN.md C14).

  X1  type codes: for every ValueType t and scalar/array shape the code export_binary writes (VAL_TYPE_TO_IND[t] [+ ARRAY_OFFSET])
      is classified by parse_bin's comparison against ARRAY_OFFSET back to (t, shape); codes fit one unsigned byte;
      IND_TO_VALTYPE inverts VAL_TYPE_TO_IND.
  X2  version tables: the string-table index formats chosen per binary version 0..5 are identical in parse_bin and
      export_binary; both reject TIME attributes before version 3.
  X3  wire agreement: for every version 1..5, value type and scalar/array shape, the token sequence parse_bin consumes equals the
      one export_binary produces (struct slots, NUL-terminated strings *with their encoding*, raw byte runs: fixed 16 / per-type
      size / length-prefixed).  Element references: for each sentinel (-1 NULL, -2 stub, index) the bytes that follow the
      integer agree.
  X4  converters: every fixed-size value type has _struct_<t>, _conv_<t>_to_binary and _conv_binary_to_<t>, sharing one
      struct, with pack arity = slot count = constructor arity; every non-element type has both string converters; the
      matrix converters place each matrix cell at the same position on both sides (binary and text).
  X5  KeyValues2 text: every str written inside quotes goes through escape_text() (or is drawn from an alphabet that needs
      no escaping: UUIDs, ValueType values) and is encoded with the selected encoding; the reader tokenises with escapes
      enabled; the literal keywords written (id/elementid/name/string/element/_array) are the ones the parser compares against.
  X6  stubs: every StubElement a parser creates carries the UUID read from the file (a factory that is called without the
      key - collections.defaultdict - cannot).
  X7  name attribute: the attribute-count field and the loop that skips the name attribute use the same criterion.
  X8  KV1 bridge: from_kv1 and to_kv1 use the same three element type names, the `value` / `subkeys` keys, and the same
      reserved-name set.
"""
from __future__ import annotations

import ast
import copy
import re
from typing import Any, Dict, List, Optional, Sequence, Set, Tuple

from engine.srcmatch import U
from engine.fold import EnumMember, Folder, FoldError
from engine.model import AnalysisError, Program, dotted, walk_no_nested
from engine.wire import UNKNOWN, Config, Extractor, expand, value_count

LEVEL = 'other'


class Tok:
    def __init__(self, text: str, node: ast.AST, const: Any = None, lenof: Optional[str] = None) -> None:
        self.text, self.node, self.const, self.lenof = text, node, const, lenof

    def __repr__(self) -> str:
        return self.text


Item = Any   # Tok | ('star', [Item]) | ('alt', test_src, [Item], [Item], ast.If)


_READ_SIZES: Dict[int, Set[str]] = {}


def _anc14(mod: Any, n: ast.AST, stop: Any) -> List[ast.AST]:
    out = []
    p = mod.parents.get(n)
    while p is not None and p is not stop:
        out.append(p)
        p = mod.parents.get(p)
    return out


class DmxWire:
    """Token extraction for the binary reader / writer under a configuration (version, value type, array shape)."""

    def __init__(self, fold: Folder, mod: Any, values: Dict[str, Any]) -> None:
        self.ex = Extractor(mod, fold, Config(dict(values), None), 'Element')
        self.env = self.ex.env
        self.raised: Optional[ast.AST] = None
        self.streams: Set[str] = {'file'}           # the stream parameter and local aliases of it (`file_, size_ = file, size`)
        self.local_fns: Dict[str, Tuple[List[str], ast.AST]] = {}     # one-expression local helpers, expanded at their calls
        # locals used as the size argument of a read: `<stream>.read(<name>)`
        if id(mod) not in _READ_SIZES:
            _READ_SIZES[id(mod)] = {c.args[0].id for c in ast.walk(mod.tree) if isinstance(c, ast.Call) and isinstance(c.func, ast.Attribute) and c.func.attr == 'read' and len(c.args) == 1
                                    and isinstance(c.args[0], ast.Name)}
        self.read_sizes: Set[str] = _READ_SIZES[id(mod)]

    # -- helpers ----------------------------------------------------------------------------------------------------------
    def const_int(self, e: ast.AST) -> Optional[int]:
        """integer literal, or a module-level name that folds to one (`_BIN_ELEM_NULL: Final = -1`)"""
        if isinstance(e, ast.UnaryOp) and isinstance(e.op, ast.USub) and isinstance(e.operand, ast.Constant) and isinstance(e.operand.value, int):
            return -e.operand.value
        if isinstance(e, ast.Constant) and isinstance(e.value, int) and not isinstance(e.value, bool):
            return e.value
        if isinstance(e, ast.Name) and e.id not in self.env:
            try:
                v = self.ex.folder.fold(e, {})
            except Exception:
                return None
            return v if isinstance(v, int) and not isinstance(v, bool) else None
        return None

    def test_text(self, test: ast.AST) -> str:
        """source of a branch test with named integer constants replaced by their value (tests are matched on this text)"""
        me = self

        class _K(ast.NodeTransformer):
            def visit_Name(self, node: ast.Name) -> ast.AST:
                v = me.const_int(node)
                return ast.copy_location(ast.Constant(v), node) if v is not None else node
        return U(_K().visit(ast.parse(U(test), mode='eval').body))

    def counted_format(self, e: ast.AST) -> Optional[Tuple[str, Optional[int]]]:
        """f'<{n}i' -> ('i', value of n under this configuration, or None when it comes from the file)"""
        if not (isinstance(e, ast.JoinedStr) and len(e.values) == 3):
            return None
        a, v, b = e.values
        if not (isinstance(a, ast.Constant) and a.value in ('<', '=', '') and isinstance(v, ast.FormattedValue) and isinstance(v.value, ast.Name) and v.format_spec is None
                and isinstance(b, ast.Constant) and isinstance(b.value, str) and len(b.value) == 1 and b.value in 'bBhHiIlLqQfd'):
            return None
        bound = self.env.get(v.value.id)
        return (b.value, bound[1] if isinstance(bound, tuple) and bound and bound[0] == 'N' else None)

    def fmt(self, e: ast.AST) -> str:
        if isinstance(e, ast.Constant) and isinstance(e.value, str):
            return e.value
        if isinstance(e, ast.Name) and isinstance(self.env.get(e.id), str) and self.env[e.id] not in ('OBJ', 'FIX', 'VAR', 'ENC', 'BIN', 'ONE'):
            return self.env[e.id]
        raise AnalysisError(f'line {e.lineno}: struct format `{U(e)}` is not decided under this configuration')

    def enc(self, e: Optional[ast.AST]) -> str:
        if e is None:
            return 'ascii'
        if isinstance(e, ast.Constant):
            return str(e.value)
        if isinstance(e, ast.Name) and self.env.get(e.id) == 'ENC':
            return 'enc'
        raise AnalysisError(f'line {e.lineno}: encoding `{U(e)}` not recognised')

    def size_tok(self, e: ast.AST, node: ast.AST) -> Tok:
        if isinstance(e, ast.Constant) and isinstance(e.value, int):
            return Tok(f'R{e.value};', node)
        if isinstance(e, ast.Name) and self.env.get(e.id) in ('FIX', 'VAR'):
            return Tok('Rfix;' if self.env[e.id] == 'FIX' else 'Rvar;', node)
        raise AnalysisError(f'line {e.lineno}: read size `{U(e)}` not recognised')

    # -- expressions --------------------------------------------------------------------------------------------------------
    def expr(self, e: Optional[ast.AST]) -> List[Item]:
        if e is None:
            return []
        out: List[Item] = []
        if isinstance(e, (ast.ListComp, ast.GeneratorExp)):
            inner = self.expr(e.elt)
            head: List[Item] = []
            for g in e.generators:
                head += self.expr(g.iter)
            return head + ([('star', inner)] if inner else [])
        if isinstance(e, ast.Call):
            d = dotted(e.func) or ''
            kw = {k.arg: k.value for k in e.keywords}
            if d == 'binformat.struct_read':
                cnt_ = self.counted_format(e.args[0])
                if cnt_ is not None:
                    code_, n_ = cnt_
                    if n_ is None:
                        return [('star', [Tok('S' + code_ + ';', e)])]          # `<{n}c`: n values in a row, n from the file
                    return [Tok('S' + code_ * n_ + ';', e)]
                f = self.fmt(e.args[0])
                return [Tok('S' + expand(f) + ';', e)]
            if d == 'binformat.read_nullstr':
                return [Tok('Z' + self.enc(kw.get('encoding', e.args[2] if len(e.args) > 2 else None)) + ';', e)]
            if d == 'binformat.read_nullstr_array':
                return [('star', [Tok('Z' + self.enc(kw.get('encoding', e.args[2] if len(e.args) > 2 else None)) + ';', e)])]
            if isinstance(e.func, ast.Attribute) and e.func.attr == 'read' and (dotted(e.func.value) in self.streams or dotted(e.func.value) == 'file_') and e.args:
                return [self.size_tok(e.args[0], e)]
            if isinstance(e.func, ast.Attribute) and e.func.attr == 'write' and dotted(e.func.value) == 'file' and e.args:
                return self.written(e.args[0], e)
            if isinstance(e.func, ast.Name) and e.func.id in self.local_fns and not e.keywords and len(e.args) == len(self.local_fns[e.func.id][0]):
                params_, body_ = self.local_fns[e.func.id]
                sub_ = dict(zip(params_, e.args))

                class _Sub(ast.NodeTransformer):
                    def visit_Name(self, n: ast.Name) -> ast.AST:      # noqa: N802
                        return copy.deepcopy(sub_[n.id]) if n.id in sub_ and isinstance(n.ctx, ast.Load) else n
                inl = ast.fix_missing_locations(ast.copy_location(_Sub().visit(copy.deepcopy(body_)), e))
                for x_ in ast.walk(inl):
                    if not hasattr(x_, 'lineno'):
                        x_.lineno = e.lineno       # type: ignore[attr-defined]
                return self.expr(inl)
            for a in list(e.args) + [k.value for k in e.keywords]:
                out += self.expr(a)
            if isinstance(e.func, ast.Attribute):
                out = self.expr(e.func.value) + out
            return out
        for child in ast.iter_child_nodes(e):
            if isinstance(child, ast.expr):
                out += self.expr(child)
            elif isinstance(child, ast.keyword):
                out += self.expr(child.value)
        return out

    def written(self, x: ast.AST, node: ast.AST) -> List[Item]:
        if isinstance(x, ast.Call) and dotted(x.func) in ('pack', 'struct.pack'):
            f = self.fmt(x.args[0])
            const = None
            lenof = None
            if len(x.args) == 2:
                a = x.args[1]
                if self.const_int(a) is not None:
                    const = self.const_int(a)
                elif isinstance(a, ast.Constant):
                    const = a.value
                elif isinstance(a, ast.Call) and dotted(a.func) == 'len' and a.args:
                    lenof = dotted(a.args[0])
            return [Tok('S' + expand(f) + ';', node, const, lenof)]
        if isinstance(x, ast.BinOp) and isinstance(x.op, ast.Add) and isinstance(x.right, ast.Constant) and x.right.value == b'\0' \
                and isinstance(x.left, ast.Call) and isinstance(x.left.func, ast.Attribute) and x.left.func.attr == 'encode':
            c = x.left
            return [Tok('Z' + self.enc(c.args[0] if c.args else None) + ';', node)]
        if isinstance(x, ast.Call) and isinstance(x.func, ast.Attribute) and x.func.attr == 'encode' and isinstance(x.func.value, ast.BinOp) and isinstance(x.func.value.op, ast.Add) \
                and isinstance(x.func.value.right, ast.Constant) and x.func.value.right.value == '\0' and isinstance(x.func.value.left, ast.Call) and isinstance(x.func.value.left.func, ast.Attribute) \
                and x.func.value.left.func.attr == 'join' and isinstance(x.func.value.left.func.value, ast.Constant) and x.func.value.left.func.value.value == '\0' and x.func.value.left.args:
            # ('\0'.join(seq) + '\0').encode(enc): one terminated string per item - and a lone terminator when seq is empty
            seq_ = x.func.value.left.args[0]
            z_ = 'Z' + self.enc(x.args[0] if x.args else None) + ';'
            is_arr_keys = [k for k in self.ex.cfg.values if k.endswith('.is_array')]
            scalar_ = isinstance(seq_, ast.Call) and isinstance(seq_.func, ast.Attribute) and seq_.func.attr.startswith('iter_') and isinstance(seq_.func.value, ast.Name) \
                and is_arr_keys and is_arr_keys[0] == f'{seq_.func.value.id}.is_array' and self.ex.cfg.values.get(is_arr_keys[0]) is False
            if scalar_:
                return [Tok(z_, node)]
            return [('star', [Tok(z_, node)]), Tok('NUL-when-the-sequence-is-empty;', node)]
        if isinstance(x, ast.Attribute) and x.attr == 'bytes_le':
            return [Tok('R16;', node)]
        if isinstance(x, ast.Name) and self.env.get(x.id) == 'BIN':
            return [Tok('Rbin:' + x.id + ';', node)]
        if isinstance(x, ast.BinOp) and isinstance(x.op, ast.Mod) and isinstance(x.left, ast.Constant) and isinstance(x.left.value, bytes):
            tail = x.left.value
            if tail.endswith(b'-->\n\0'):
                return [Tok('R2;', node)]            # the reader is entered after the comment and consumes b'\n\0'
            raise AnalysisError(f'line {x.lineno}: header template does not end with the comment terminator + newline + NUL')
        raise AnalysisError(f'line {x.lineno}: written value `{U(x)[:60]}` not recognised')

    # -- statements ---------------------------------------------------------------------------------------------------------
    def block(self, stmts: Sequence[ast.stmt]) -> List[Item]:
        out: List[Item] = []
        for st in stmts:
            out += self.stmt(st)
            if self.raised is not None or isinstance(st, (ast.Return, ast.Continue, ast.Break)):
                break
        return out

    def bind(self, tgt: ast.AST, val: ast.AST) -> None:
        if isinstance(tgt, ast.Name) and isinstance(val, ast.IfExp) and not all(isinstance(b, ast.Constant) and b.value in ('utf8', 'ascii') for b in (val.body, val.orelse)):
            t_ = self.ex.ev(val.test)
            if t_ is not UNKNOWN:
                self.bind(tgt, val.body if t_ else val.orelse)
                return
        if isinstance(tgt, ast.Name) and isinstance(val, ast.Constant) and isinstance(val.value, int) and not isinstance(val.value, bool):
            self.env[tgt.id] = ('N', val.value)          # a count known under this configuration
            return
        if isinstance(tgt, ast.Name):
            name = tgt.id
            if isinstance(val, ast.Constant) and (isinstance(val.value, str) or val.value is None):
                self.env[name] = val.value
            elif isinstance(val, ast.IfExp) and all(isinstance(b, ast.Constant) and b.value in ('utf8', 'ascii') for b in (val.body, val.orelse)):
                self.env[name] = 'ENC'
            elif isinstance(val, ast.Tuple) and len(val.elts) == 1 and isinstance(val.elts[0], ast.Constant):
                self.env[name] = 'ONE'
            elif isinstance(val, ast.Subscript) and dotted(val.value) == 'SIZES':
                self.env[name] = 'FIX'
            elif isinstance(val, ast.Name) and val.id in self.streams:
                self.streams.add(name)
            elif isinstance(val, ast.Name) and val.id in self.env:
                self.env[name] = self.env[val.id]
            elif name in ('stringdb',):
                self.env[name] = 'OBJ'
            elif name in self.env:
                self.env.pop(name)
        elif isinstance(tgt, (ast.Tuple, ast.List)) and isinstance(val, (ast.Tuple, ast.List)) and len(tgt.elts) == len(val.elts):
            for t, v in zip(tgt.elts, val.elts):
                self.bind(t, v)
        elif isinstance(tgt, (ast.Tuple, ast.List)) and isinstance(val, ast.Call) and isinstance(val.func, ast.Name) and len(val.args) == 1 and isinstance(val.args[0], ast.Name) \
                and val.args[0].id in self.ex.cfg.values and val.func.id in {q for q, fl in self.ex.mod.all_funcs().items() if '.' not in q and len(fl) == 1}:
            # `a, b = _helper(version)`: a module-level helper whose if-chain on its parameter returns tuples of constants is decided by the configuration
            hfn = self.ex.mod.func(val.func.id)
            hps = [a.arg for a in hfn.args.args]
            if len(hps) == 1:
                had = hps[0] in self.ex.cfg.values
                old_v = self.ex.cfg.values.get(hps[0])
                self.ex.cfg.values[hps[0]] = self.ex.cfg.values[val.args[0].id]
                try:
                    def _run(stmts: List[ast.stmt]) -> Optional[ast.AST]:
                        for h_ in stmts:
                            if isinstance(h_, ast.Expr) and isinstance(h_.value, ast.Constant):
                                continue
                            if isinstance(h_, ast.Return):
                                return h_.value
                            if isinstance(h_, ast.If):
                                t_ = self.ex.ev(h_.test)
                                if t_ is UNKNOWN:
                                    return None
                                r_ = _run(h_.body if t_ else h_.orelse)
                                if r_ is not None:
                                    return r_
                                continue
                            return None
                        return None
                    ret_ = _run(hfn.body)
                finally:
                    if had:
                        self.ex.cfg.values[hps[0]] = old_v
                    else:
                        self.ex.cfg.values.pop(hps[0], None)
                if isinstance(ret_, (ast.Tuple, ast.List)) and len(ret_.elts) == len(tgt.elts):
                    for t, v in zip(tgt.elts, ret_.elts):
                        self.bind(t, v)
        elif isinstance(tgt, (ast.Tuple, ast.List)) and len(tgt.elts) == 1 and isinstance(tgt.elts[0], ast.Name) and isinstance(val, ast.Call) \
                and dotted(val.func) == 'binformat.struct_read' and tgt.elts[0].id in self.read_sizes:
            self.env[tgt.elts[0].id] = 'VAR'          # `[n] = struct_read(...)` where n is later the argument of `<stream>.read(n)`: a length taken from the file

    def stmt(self, st: ast.stmt) -> List[Item]:
        if isinstance(st, ast.If):
            t = self.ex.ev(st.test)
            if t is UNKNOWN:
                saved = dict(self.env)
                a = self.block(st.body)
                ra, self.raised = self.raised, None
                env_a = dict(self.env)
                self.env.clear(); self.env.update(saved)
                b = self.block(st.orelse)
                rb, self.raised = self.raised, None
                if env_a != self.env and (a or b):
                    pass
                if not a and not b:
                    return []
                return [('alt', self.test_text(st.test), a, b, st)]
            return self.block(st.body if t else st.orelse)
        if isinstance(st, (ast.For, ast.While)):
            head = self.expr(st.iter) if isinstance(st, ast.For) else self.expr(st.test)
            once = False
            if isinstance(st, ast.For):
                # a scalar attribute is iterated exactly once: `for x in attr.iter_*()` (writer), `for _ in (0,)` (reader)
                is_arr_keys = [k for k in self.ex.cfg.values if k.endswith('.is_array')]
                if isinstance(st.iter, ast.Call) and isinstance(st.iter.func, ast.Attribute) and st.iter.func.attr.startswith('iter_') and isinstance(st.iter.func.value, ast.Name) \
                        and is_arr_keys and is_arr_keys[0] == f'{st.iter.func.value.id}.is_array' and self.ex.cfg.values.get(is_arr_keys[0]) is False:
                    once = True
                if isinstance(st.iter, ast.Name) and self.env.get(st.iter.id) == 'ONE':
                    once = True
                if isinstance(st.iter, ast.Call) and dotted(st.iter.func) == 'binformat.struct_read' and st.iter.args and (self.counted_format(st.iter.args[0]) or ('', None))[1] == 1:
                    once = True
            if isinstance(st, ast.For) and isinstance(st.iter, ast.Call) and dotted(st.iter.func) == 'attr.iter_binary' and isinstance(st.target, ast.Name):
                self.env[st.target.id] = 'BIN'
            body = self.block(st.body)
            if self.raised is not None or once:
                return head + body
            return head + ([('star', body)] if body else [])
        if isinstance(st, ast.Assign):
            toks = self.expr(st.value)
            for t in st.targets:
                self.bind(t, st.value)
            return toks
        if isinstance(st, ast.AnnAssign):
            if st.value is not None:
                toks = self.expr(st.value)
                self.bind(st.target, st.value)
                return toks
            return []
        if isinstance(st, ast.AugAssign):
            return self.expr(st.value)
        if isinstance(st, (ast.Expr, ast.Return)):
            return self.expr(st.value)
        if isinstance(st, ast.Raise):
            self.raised = st
            return []
        if isinstance(st, ast.Try):
            out = self.block(st.body)
            for h in st.handlers:
                hb = self.block(h.body)
                self.raised = None
                if hb:
                    raise AnalysisError(f'line {h.lineno}: exception handler performs I/O')
            return out + self.block(st.orelse) + self.block(st.finalbody)
        if isinstance(st, (ast.Assert, ast.Pass, ast.Continue, ast.Break)):
            return []
        if isinstance(st, ast.FunctionDef):
            # a local one-expression helper (`def write_nullstr(text): file.write(text.encode(encoding) + b'\\0')`): expanded at its calls
            body = [b for b in st.body if not (isinstance(b, ast.Expr) and isinstance(b.value, ast.Constant))]
            a_ = st.args
            if len(body) == 1 and isinstance(body[0], (ast.Expr, ast.Return)) and body[0].value is not None and not (a_.vararg or a_.kwarg or a_.kwonlyargs or a_.defaults or a_.posonlyargs):
                self.local_fns[st.name] = ([x.arg for x in a_.args], body[0].value)
                return []
        raise AnalysisError(f'line {st.lineno}: statement kind {type(st).__name__} not handled by the DMX wire extractor')


def resolve_bin(items: List[Item]) -> List[Item]:
    """`Rbin:x` (a bytes value from iter_binary) is length-prefixed when the preceding token packs len(x), else of the type's fixed size"""
    out: List[Item] = []
    for it in items:
        if isinstance(it, Tok):
            if it.text.startswith('Rbin:'):
                var = it.text[5:-1]
                prev = out[-1] if out else None
                out.append(Tok('Rvar;' if isinstance(prev, Tok) and prev.lenof == var else 'Rfix;', it.node))
            else:
                out.append(it)
        elif it[0] == 'star':
            out.append(('star', resolve_bin(it[1])))
        else:
            out.append(('alt', it[1], resolve_bin(it[2]), resolve_bin(it[3]), it[4]))
    return out


def flat(items: List[Item]) -> str:
    out = []
    for it in items:
        if isinstance(it, Tok):
            out.append(it.text)
        elif it[0] == 'star':
            inner = flat(it[1])
            if inner:
                out.append(f'({inner})*')
        else:
            a, b = flat(it[2]), flat(it[3])
            out.append(a if a == b else f'[{a}|{b}]')
    s = ''.join(out)
    prev = None
    while prev != s:
        prev = s
        s = re.sub(r'\(\(([^()]*)\)\*\)\*', r'(\1)*', s)
    return s


def find_alts(items: List[Item]) -> List[Any]:
    out = []
    for it in items:
        if isinstance(it, Tok):
            continue
        if it[0] == 'star':
            out += find_alts(it[1])
        else:
            out.append(it)
    return out


def reader_ref_cases(alt: Any, var: str) -> Dict[Any, str]:
    """if VAR == C1: ... elif VAR == C2: ... else: ...  ->  {C1: tokens, C2: tokens, '*': tokens}"""
    cases: Dict[Any, str] = {}
    cur = alt
    while True:
        m = re.fullmatch((re.escape(var) if var else r'[A-Za-z_]\w*') + r' == (-?\d+)', cur[1])
        if m and not var:
            var = cur[1].split(' ')[0]         # the local holding the reference index: whatever the first sentinel test compares
        if not m:
            raise AnalysisError(f'reference decoding: test `{cur[1]}` is not a sentinel comparison of {var}')
        cases[int(m.group(1))] = flat(cur[2])
        rest = cur[3]
        nested = [x for x in rest if not isinstance(x, Tok) and x[0] == 'alt']
        if len(rest) == 1 and nested:
            cur = nested[0]
            continue
        cases['*'] = flat(rest)
        return cases


def writer_ref_cases(alt: Any) -> Dict[Any, str]:
    """each branch starts with pack('<i', K): K constant -> sentinel, otherwise the index case"""
    cases: Dict[Any, str] = {}

    def branch(items: List[Item]) -> None:
        if len(items) == 1 and not isinstance(items[0], Tok) and items[0][0] == 'alt':
            branch(items[0][2])
            branch(items[0][3])
            return
        if not items or not isinstance(items[0], Tok) or items[0].text != 'Si;':
            raise AnalysisError('reference encoding: a branch does not start with the 32-bit reference slot')
        key = items[0].const if items[0].const is not None else '*'
        if key in cases:
            raise AnalysisError(f'reference encoding: two branches write the sentinel {key}')
        cases[key] = flat(items[1:])
    branch([alt])
    return cases


def strip_ref(items: List[Item], reader: bool) -> List[Item]:
    """replace the reference construct by a single REF token so the rest of the sequence can be compared textually"""
    out: List[Item] = []
    i = 0
    while i < len(items):
        it = items[i]
        if isinstance(it, Tok):
            if reader and it.text == 'Si;' and i + 1 < len(items) and not isinstance(items[i + 1], Tok) and items[i + 1][0] == 'alt' and ' == -' in items[i + 1][1]:
                out.append(Tok('REF;', it.node))
                i += 2
                continue
            out.append(it)
        elif it[0] == 'star':
            out.append(('star', strip_ref(it[1], reader)))
        elif it[0] == 'alt':
            if not reader and ('NULL' in it[1] or 'is_stub' in it[1] or 'is_null' in it[1]):
                out.append(Tok('REF;', it[4]))
            elif reader and ' == -' in it[1]:
                # the case dispatch on a reference value whose own read is not the token in front of it: the values were read somewhere else
                # (all of them in one block), so what a case consumes does not follow its value in the file
                out.append(Tok('cases-of-a-reference-read-earlier;', it[4]))
            else:
                out.append(('alt', it[1], strip_ref(it[2], reader), strip_ref(it[3], reader), it[4]))
        i += 1
    return out


# ---- KV2 text ---------------------------------------------------------------------------------------------------------------
def template_slots(tmpl: bytes) -> List[bool]:
    """for each %b / %i / %s placeholder: is it inside double quotes?"""
    out = []
    inq = False
    i = 0
    while i < len(tmpl):
        ch = tmpl[i:i + 1]
        if ch == b'"':
            inq = not inq
        elif ch == b'%' and i + 1 < len(tmpl):
            if tmpl[i + 1:i + 2] != b'%':
                out.append(inq)
            i += 1
        i += 1
    return out


def symbolic_text_cells(fn: ast.AST) -> Dict[str, int]:
    """Evaluate a small pure string-building function on a symbolic matrix: `mat[i, j]` becomes the word <i,j>; loops over range(<int>)
    and comprehensions are unrolled.  Returns {"i, j": index of that word in the whitespace-split result}.  Unsupported constructs raise."""
    param = fn.args.args[0].arg    # type: ignore[attr-defined]
    MARK = '\x00'

    class Unsupported(Exception):
        pass

    def ev(e: ast.AST, env: Dict[str, Any]) -> Any:
        if isinstance(e, ast.Constant):
            return e.value
        if isinstance(e, ast.Name):
            if e.id in env:
                return env[e.id]
            raise Unsupported(e.id)
        if isinstance(e, ast.Tuple):
            return tuple(ev(x, env) for x in e.elts)
        if isinstance(e, ast.List):
            return [ev(x, env) for x in e.elts]
        if isinstance(e, ast.Subscript) and dotted(e.value) == param:
            idx = ev(e.slice, env)
            if isinstance(idx, tuple) and len(idx) == 2 and all(isinstance(i, int) for i in idx):
                return f'{MARK}{idx[0]},{idx[1]}{MARK}'
            raise Unsupported('matrix index')
        if isinstance(e, ast.JoinedStr):
            out = ''
            for v in e.values:
                if isinstance(v, ast.Constant):
                    out += str(v.value)
                elif isinstance(v, ast.FormattedValue):
                    out += str(ev(v.value, env))
                else:
                    raise Unsupported('fstring part')
            return out
        if isinstance(e, ast.BinOp) and isinstance(e.op, ast.Add):
            a, b = ev(e.left, env), ev(e.right, env)
            if type(a) is type(b) and isinstance(a, (str, list)):
                return a + b
            raise Unsupported('+')
        if isinstance(e, (ast.ListComp, ast.GeneratorExp)):
            res: List[Any] = []

            def gen(k: int, env2: Dict[str, Any]) -> None:
                if k == len(e.generators):
                    res.append(ev(e.elt, env2))
                    return
                g = e.generators[k]
                if g.ifs or not isinstance(g.target, ast.Name):
                    raise Unsupported('comprehension shape')
                for item in ev(g.iter, env2):
                    gen(k + 1, {**env2, g.target.id: item})
            gen(0, env)
            return res
        if isinstance(e, ast.Call):
            d = dotted(e.func) or ''
            if d == 'range':
                args = [ev(a, env) for a in e.args]
                if all(isinstance(a, int) for a in args):
                    return list(range(*args))
                raise Unsupported('range of a non-constant')
            if d in ('str', 'repr', 'format', 'format_float') and e.args:
                return str(ev(e.args[0], env))
            if isinstance(e.func, ast.Attribute) and e.func.attr == 'join' and len(e.args) == 1:
                sep = ev(e.func.value, env)
                items = ev(e.args[0], env)
                if isinstance(sep, str) and isinstance(items, list) and all(isinstance(i, str) for i in items):
                    return sep.join(items)
            if isinstance(e.func, ast.Attribute) and e.func.attr == 'format' and isinstance(e.func.value, ast.Constant) and isinstance(e.func.value.value, str):
                return e.func.value.value.format(*[ev(a, env) for a in e.args])
            raise Unsupported(f'call {d}')
        raise Unsupported(type(e).__name__)

    def run_block(stmts: Any, env: Dict[str, Any]) -> Any:
        for st in stmts:
            if isinstance(st, ast.Expr) and isinstance(st.value, ast.Constant):
                continue
            if isinstance(st, ast.Return):
                return ('ret', ev(st.value, env))
            if isinstance(st, (ast.Assign, ast.AnnAssign)) and st.value is not None:
                tg = st.targets[0] if isinstance(st, ast.Assign) else st.target
                if not isinstance(tg, ast.Name):
                    raise Unsupported('assignment target')
                env[tg.id] = ev(st.value, env)
                continue
            if isinstance(st, ast.AugAssign) and isinstance(st.target, ast.Name) and isinstance(st.op, ast.Add):
                env[st.target.id] = env[st.target.id] + ev(st.value, env)
                continue
            if isinstance(st, ast.Expr) and isinstance(st.value, ast.Call) and isinstance(st.value.func, ast.Attribute) and st.value.func.attr in ('append', 'extend') \
                    and isinstance(st.value.func.value, ast.Name):
                lst = env[st.value.func.value.id]
                v = ev(st.value.args[0], env)
                lst.append(v) if st.value.func.attr == 'append' else lst.extend(v)
                continue
            if isinstance(st, ast.For) and isinstance(st.target, ast.Name):
                for item in ev(st.iter, env):
                    env[st.target.id] = item
                    r = run_block(st.body, env)
                    if r is not None:
                        return r
                continue
            raise Unsupported(type(st).__name__)
        return None
    try:
        r = run_block(fn.body, {})     # type: ignore[attr-defined]
    except (Unsupported, KeyError, StopIteration, TypeError, ValueError, IndexError) as exc:
        raise AnalysisError(f'{getattr(fn, "name", "?")}: text construction not evaluable symbolically ({exc})') from None
    if r is None or not isinstance(r[1], str):
        raise AnalysisError(f'{getattr(fn, "name", "?")}: no string result')
    out: Dict[str, int] = {}
    for i, w in enumerate(r[1].split()):
        if w.startswith(MARK) and w.endswith(MARK) and len(w) > 2:
            out[w[1:-1].replace(',', ', ')] = i
    return out


def _ancestors(mod: Any, n: ast.AST, stop: ast.AST) -> List[ast.AST]:
    out = []
    p = mod.parents.get(n)
    while p is not None and p is not stop:
        out.append(p)
        p = mod.parents.get(p)
    return out


def x_names(e: ast.AST) -> List[ast.Name]:
    return [n for n in ast.walk(e) if isinstance(n, ast.Name)]


def run(ctx: Any, prog: Program) -> None:
    dmx = prog.module('dmx')
    fold = Folder(prog, dmx)
    em = dmx.methods('Element')
    ctx.not_decided += ['graph isomorphism (sharing, cycles) and UUID fix-ups', 'float text precision beyond the 6-decimal formatter', 'KV1 bridge equality beyond its constants', 'legacy (version 0) header']
    ctx.rule('C14.X1', 'every (type, shape) code written is classified back to the same (type, shape) by the reader', floor=28)
    ctx.rule('C14.X2', 'string-table formats per version and the TIME/version-3 gate agree between reader and writer', floor=8)
    ctx.rule('C14.X3', 'binary token sequences (slots, terminated strings with encoding, byte runs, reference sentinels) agree per version, type and shape', floor=100)
    ctx.rule('C14.X4', 'binary/string converters exist per type, share one struct, and agree on arity and matrix cell positions', floor=40)
    ctx.rule('C14.X5', 'KeyValues2: quoted str slots are escaped and encoded with the selected encoding; keywords agree; reader decodes escapes', floor=12)
    ctx.rule('C14.X6', 'stub elements created by the parsers carry the UUID read from the file; writers never queue a stub as an element', floor=4)
    # per-object state that methods change in place must not be a class-level container shared by every instance (see engine.model)
    from engine.model import shared_mutable_class_attrs as _smca
    for _m in (dmx,):
        _hits = _smca(_m.tree, [c.name for c in _m.tree.body if isinstance(c, ast.ClassDef)])
        for _cn, _attr, _st in _hits:
            ctx.check('C14.X6', False, _m, _st, f'{_cn}.{_attr} is a class-level container (`{U(_st.value)[:30]}`) that methods change in place and no __init__ assigns: all {_cn} objects share it, so attributes or references of one element tree appear in another',
                      func=_cn, text=f'{_cn}.{_attr} is per-object state')
        ctx.check('C14.X6', True, _m, _m.tree, f'{len(_hits)} shared class-level containers in {_m.relpath}', func='<module>', text=f'{_m.relpath}: class-level containers examined')
    ctx.rule('C14.X7', 'the attribute count and the loop skipping the name attribute use the same criterion', floor=1)
    ctx.rule('C14.X8', 'KV1 bridge: both directions use the same type names, keys and reserved names', floor=5)
    ctx.rule('C14.X9', 'index tables (values that can be 0) are consulted with `in` / `is None`, never through the truthiness of .get()', floor=1)

    vt = fold.enum_table('ValueType')
    members: List[EnumMember] = []
    for m in vt:
        if m not in members:
            members.append(m)
    pb, eb = em['parse_bin'], em['export_binary']
    # ---- X1 ------------------------------------------------------------------------------------------------
    v2i = fold.global_('VAL_TYPE_TO_IND')
    off = fold.global_('ARRAY_OFFSET')
    if not isinstance(v2i, dict) or not isinstance(off, int):
        raise AnalysisError('VAL_TYPE_TO_IND / ARRAY_OFFSET could not be folded')
    i2v_node = dmx.global_assign('IND_TO_VALTYPE')
    ok = isinstance(i2v_node, ast.DictComp) and 'VAL_TYPE_TO_IND.items()' in U(i2v_node) and U(i2v_node.key) == 'ind' and U(i2v_node.value) == 'val_type'
    ctx.shape('C14.X1', ok, dmx, i2v_node, 'IND_TO_VALTYPE is the inverse comprehension over VAL_TYPE_TO_IND', func='<module>', text='IND_TO_VALTYPE inverts VAL_TYPE_TO_IND')
    ctx.check('C14.X1', len(set(v2i.values())) == len(v2i), dmx, dmx.global_assign('VAL_TYPE_TO_IND'), 'two value types share a wire code', func='<module>', text='VAL_TYPE_TO_IND injective')
    i2v = {v: k for k, v in v2i.items()}
    # reader classification
    cls_if = [n for n in walk_no_nested(pb) if isinstance(n, ast.If) and isinstance(n.test, ast.Compare) and isinstance(n.test.left, ast.Name) and dotted(n.test.comparators[0]) == 'ARRAY_OFFSET']
    if len(cls_if) != 1:
        raise AnalysisError('parse_bin: the scalar/array classification of attr_type_data was not found')
    cif = cls_if[0]
    op = cif.test.ops[0]
    atd_var = cif.test.left.id
    sub_ok = any(isinstance(s, ast.AugAssign) and isinstance(s.op, ast.Sub) and dotted(s.target) == atd_var and dotted(s.value) == 'ARRAY_OFFSET' for s in cif.body)
    # reader locals by role: the value type looked up from the code, and the array length that is None for a scalar
    rtype_vars = sorted({t.id for a in walk_no_nested(pb) if isinstance(a, ast.Assign) and isinstance(a.value, ast.Subscript) and dotted(a.value.value) == 'IND_TO_VALTYPE' for t in a.targets if isinstance(t, ast.Name)})
    rsize_vars = sorted({t.id for st_ in cif.orelse for a in ast.walk(st_) if isinstance(a, ast.Assign) and isinstance(a.value, ast.Constant) and a.value.value is None for t in a.targets if isinstance(t, ast.Name)})
    if len(rtype_vars) != 1 or len(rsize_vars) != 1:
        raise AnalysisError(f'parse_bin: the locals holding the decoded value type / array size were not found ({rtype_vars}, {rsize_vars})')
    rtype_var, rsize_var = rtype_vars[0], rsize_vars[0]
    if not sub_ok or not isinstance(op, (ast.Gt, ast.GtE)):
        raise AnalysisError('parse_bin: classification idiom changed (expected `if attr_type_data >[=] ARRAY_OFFSET: attr_type_data -= ARRAY_OFFSET`)')
    # writer encoding
    wsrc = U(eb)
    code_defs = [a for a in walk_no_nested(eb) if isinstance(a, ast.Assign) and isinstance(a.value, ast.Subscript) and dotted(a.value.value) == 'VAL_TYPE_TO_IND' and isinstance(a.value.slice, ast.Attribute)
                 and a.value.slice.attr == 'type' and isinstance(a.value.slice.value, ast.Name) and isinstance(a.targets[0], ast.Name)]
    def _offset_added(cv: str) -> bool:
        # `code += ARRAY_OFFSET` under the array test, or `pack('B', code + ARRAY_OFFSET)` in the array arm
        for g in walk_no_nested(eb):
            if isinstance(g, ast.AugAssign) and isinstance(g.op, ast.Add) and dotted(g.target) == cv and dotted(g.value) == 'ARRAY_OFFSET':
                return True
            if isinstance(g, ast.If) and 'is_array' in U(g.test) and not (isinstance(g.test, ast.UnaryOp) and isinstance(g.test.op, ast.Not)):
                for c_ in [x for b in g.body for x in ast.walk(b)]:
                    if isinstance(c_, ast.BinOp) and isinstance(c_.op, ast.Add) and {dotted(c_.left), dotted(c_.right)} == {cv, 'ARRAY_OFFSET'}:
                        return True
        return False
    if len(code_defs) != 1 or not _offset_added(code_defs[0].targets[0].id):
        raise AnalysisError('export_binary: type code computation idiom changed')
    wattr_var = code_defs[0].value.slice.value.id
    for m in members:
        if m not in v2i:
            ctx.check('C14.X1', False, dmx, dmx.global_assign('VAL_TYPE_TO_IND'), f'{m} has no wire code', func='<module>', text=f'{m.name} has a code')
            continue
        for arr in (False, True):
            code = v2i[m] + (off if arr else 0)
            is_arr = code > off if isinstance(op, ast.Gt) else code >= off
            idx = code - off if is_arr else code
            back = i2v.get(idx)
            ok = code < 256 and back == m and is_arr == arr
            ctx.check('C14.X1', ok, dmx, cif, f'{m.name} {"array" if arr else "scalar"} is written as code {code}; the reader classifies it as {"array" if is_arr else "scalar"} of index {idx} '
                      f'({back.name if back is not None else "no such type"})', func='Element.parse_bin', text=f'code of {m.name} {"array" if arr else "scalar"}')
    # ---- X2 ------------------------------------------------------------------------------------------------
    def table(fn: ast.AST, version: int) -> Tuple[Any, Any]:
        w = DmxWire(fold, dmx, {'version': version})
        for i_st, st in enumerate(fn.body):
            if not (isinstance(st, ast.If) and 'version' in U(st.test)):
                continue
            # the two locals the version test gives struct formats to ('<i' / '<h' / nothing): the table size format and the index format.
            # The size format is the one the code following the test consults first (count of strings), the other is the per-reference index.
            fmt_names = sorted({t.id for a in ast.walk(st) if isinstance(a, ast.Assign) and isinstance(a.value, ast.Constant) and (a.value.value is None or (isinstance(a.value.value, str) and (a.value.value == '' or a.value.value.startswith('<'))))
                                for t in a.targets if isinstance(t, ast.Name)})
            if len(fmt_names) != 2:
                continue
            # the size format is used for ONE read/write (the count of strings); the index format once per reference
            uses_ = {nm: sum(1 for c in ast.walk(fn) if isinstance(c, ast.Call) and c.args and isinstance(c.args[0], ast.Name) and c.args[0].id == nm) for nm in fmt_names}
            sizes_ = [n for n in fmt_names if uses_[n] == 1 and uses_[[m for m in fmt_names if m != n][0]] > 1]
            if len(sizes_) != 1:
                continue
            size_var = sizes_[0]
            ind_var = [n for n in fmt_names if n != size_var][0]
            w.stmt(st)
            return w.env.get(size_var) or None, w.env.get(ind_var) or None
        # the same selection in a module-level helper: `size_fmt, ind_fmt = _formats(version)` whose if-chain on its parameter returns pairs
        for st in fn.body:
            if not (isinstance(st, ast.Assign) and len(st.targets) == 1 and isinstance(st.targets[0], ast.Tuple) and len(st.targets[0].elts) == 2 and all(isinstance(e, ast.Name) for e in st.targets[0].elts)
                    and isinstance(st.value, ast.Call) and isinstance(st.value.func, ast.Name) and len(st.value.args) == 1 and dotted(st.value.args[0]) == 'version'):
                continue
            try:
                hfn = dmx.func(st.value.func.id)
            except AnalysisError:
                continue
            hp = hfn.args.args[0].arg if hfn.args.args else None
            opf_ = {ast.Lt: lambda a, b: a < b, ast.LtE: lambda a, b: a <= b, ast.Gt: lambda a, b: a > b, ast.GtE: lambda a, b: a >= b, ast.Eq: lambda a, b: a == b, ast.NotEq: lambda a, b: a != b}

            def _run(stmts: List[ast.stmt]) -> Optional[ast.AST]:
                for h_ in stmts:
                    if isinstance(h_, ast.Expr) and isinstance(h_.value, ast.Constant):
                        continue
                    if isinstance(h_, ast.Return):
                        return h_.value
                    if isinstance(h_, ast.If) and isinstance(h_.test, ast.Compare) and len(h_.test.ops) == 1 and isinstance(h_.test.left, ast.Name) and h_.test.left.id == hp \
                            and isinstance(h_.test.comparators[0], ast.Constant) and type(h_.test.ops[0]) in opf_:
                        r_ = _run(h_.body if opf_[type(h_.test.ops[0])](version, h_.test.comparators[0].value) else h_.orelse)
                        if r_ is not None:
                            return r_
                        continue
                    raise AnalysisError(f'{st.value.func.id}: statement `{U(h_)[:50]}` of the string-table format helper is not understood')
                return None
            ret_ = _run(hfn.body)
            if not (isinstance(ret_, ast.Tuple) and len(ret_.elts) == 2 and all(isinstance(e, ast.Constant) for e in ret_.elts)):
                raise AnalysisError(f'{st.value.func.id}: does not return a pair of constant formats for version {version}')
            names2 = [e.id for e in st.targets[0].elts]
            uses_ = {nm: sum(1 for c in ast.walk(fn) if isinstance(c, ast.Call) and c.args and isinstance(c.args[0], ast.Name) and c.args[0].id == nm) for nm in names2}
            sizes_ = [n for n in names2 if uses_[n] == 1 and uses_[[m for m in names2 if m != n][0]] > 1]
            if len(sizes_) != 1:
                continue
            vals2 = dict(zip(names2, [e.value for e in ret_.elts]))
            return vals2[sizes_[0]] or None, vals2[[n for n in names2 if n != sizes_[0]][0]] or None
        raise AnalysisError('string-table format selection not found')
    for v in range(0, 6):
        r, w_ = table(pb, v), table(eb, v)
        ctx.check('C14.X2', r == w_, dmx, eb, f'binary version {v}: reader uses string-table formats {r}, writer {w_}', func='Element.export_binary', text=f'string table formats v{v}')
    for fn, nm in ((pb, 'parse_bin'), (eb, 'export_binary')):
        def expand_local(t_: ast.AST) -> ast.AST:
            # `time_allowed = version >= 3` ... `if attr.type is TIME and not time_allowed`: the local's definition stands for it
            class _Sub(ast.NodeTransformer):
                def visit_Name(self, node: ast.Name) -> ast.AST:
                    d_ = [a.value for a in walk_no_nested(fn) if isinstance(a, ast.Assign) and any(isinstance(t, ast.Name) and t.id == node.id for t in a.targets)]
                    if len(d_) == 1 and isinstance(d_[0], ast.Compare) and isinstance(d_[0].left, ast.Name) and isinstance(d_[0].comparators[0], ast.Constant):
                        return d_[0]
                    return node
            import copy as _copy
            return _Sub().visit(_copy.deepcopy(t_))
        gate = [n for n in ast.walk(fn) if isinstance(n, ast.If) and any(isinstance(x, ast.Attribute) and x.attr == 'TIME' for x in ast.walk(n.test)) and any(isinstance(s, ast.Raise) for s in n.body)
                and any(isinstance(c, ast.Compare) and isinstance(c.left, ast.Name) and len(c.ops) == 1 and isinstance(c.comparators[0], ast.Constant) and isinstance(c.comparators[0].value, int) for c in ast.walk(expand_local(n.test)))]
        if len(gate) != 1:
            ctx.shape('C14.X2', False, dmx, gate[0] if gate else fn, f'{nm} must reject TIME attributes before binary version 3', func=f'Element.{nm}', text='TIME rejected before v3')
            continue
        # which versions are refused: the version comparison of the gate, decided for every version
        gtest = expand_local(gate[0].test)
        cmp_ = next(c for c in ast.walk(gtest) if isinstance(c, ast.Compare) and isinstance(c.left, ast.Name) and len(c.ops) == 1 and isinstance(c.comparators[0], ast.Constant) and isinstance(c.comparators[0].value, int))
        k_ = cmp_.comparators[0].value
        opf = {ast.Lt: lambda a, b: a < b, ast.LtE: lambda a, b: a <= b, ast.Gt: lambda a, b: a > b, ast.GtE: lambda a, b: a >= b, ast.Eq: lambda a, b: a == b, ast.NotEq: lambda a, b: a != b}.get(type(cmp_.ops[0]))
        if opf is None:
            ctx.shape('C14.X2', False, dmx, gate[0], f'version comparison `{U(cmp_)}` of the TIME gate not evaluable', func=f'Element.{nm}', text='TIME rejected before v3')
            continue
        # the comparison may sit under `not` (`and not time_allowed`): polarity by the number of enclosing negations inside the test
        neg_ = False
        def find_neg(t_: ast.AST, n_: bool) -> None:
            nonlocal neg_
            if t_ is cmp_:
                neg_ = n_
                return
            if isinstance(t_, ast.UnaryOp) and isinstance(t_.op, ast.Not):
                find_neg(t_.operand, not n_)
            else:
                for ch_ in ast.iter_child_nodes(t_):
                    find_neg(ch_, n_)
        find_neg(gtest, False)
        refused = [v for v in range(1, 6) if opf(v, k_) != neg_]
        ctx.check('C14.X2', refused == [1, 2], dmx, gate[0], f'{nm} refuses TIME attributes for binary versions {refused} (`{U(cmp_)}`): the type exists from version 3 on, so exactly versions 1 and 2 must be refused - '
                  'a TIME value in a version-3 file is valid on the other side', func=f'Element.{nm}', text='TIME rejected before v3')
    # ---- X3 ------------------------------------------------------------------------------------------------
    for v in range(1, 6):
        for m in members:
            if m.name == 'TIME' and v < 3:
                continue
            for arr in (False, True):
                rv = {'version': v, rtype_var: m, f'{rsize_var} is not None': arr, f'{rsize_var} is None': not arr, str(U(cif.test)): arr}
                wv = {'version': v, f'{wattr_var}.type': m, f'{wattr_var}.is_array': arr}
                rw, ww = DmxWire(fold, dmx, rv), DmxWire(fold, dmx, wv)
                ri = rw.block(pb.body)
                wi = resolve_bin(ww.block(eb.body))
                label = f'v{v} {m.name} {"array" if arr else "scalar"}'
                if m.name == 'ELEMENT':
                    ralts = [a for a in find_alts(ri) if ' == -' in a[1]]
                    walts = [a for a in find_alts(wi) if 'NULL' in a[1] or 'is_null' in a[1]]
                    if len(ralts) != 1 or len(walts) != 1:
                        raise AnalysisError(f'{label}: element reference decode/encode construct not found')
                    rc, wc = reader_ref_cases(ralts[0], ''), writer_ref_cases(walts[0])
                    for key in sorted(set(rc) | set(wc), key=str):
                        what = {-1: 'NULL (-1)', -2: 'stub (-2)', '*': 'index'}.get(key, str(key))
                        ok = key in rc and key in wc and rc[key] == wc[key]
                        ctx.check('C14.X3', ok, dmx, walts[0][4], f'{label}: after the reference value for {what} the reader consumes `{rc.get(key, "<no such case>")}` but the writer produces `{wc.get(key, "<no such case>")}`',
                                  func='Element.export_binary', text=f'{label} reference {what}')
                    ri, wi = strip_ref(ri, True), strip_ref(wi, False)
                rs, ws = flat(ri), flat(wi)
                undecided = '[' in rs or '[' in ws
                if undecided:
                    # a branch whose test the configuration does not decide: the two token strings are not comparable - no verdict
                    ctx.shape('C14.X3', False, dmx, eb, f'{label}: a gate is not decided by the configuration (reader `{rs}`, writer `{ws}`)', func='Element.export_binary', text=label)
                else:
                    ctx.check('C14.X3', rs == ws, dmx, eb, f'{label}: the reader consumes `{rs}` but the writer produces `{ws}`', func='Element.export_binary', text=label)
    # ---- X10: float components in text ----------------------------------------------------------------------------------------------
    # KV2 text carries floats to 6 decimals (_fmt_float: '.6f' without trailing zeros).  The converters for the float-vector types are siblings:
    # every component of every one of them goes through _fmt_float - a format spec such as ':.6g' keeps 6 *significant* digits instead.
    ctx.rule('C14.X10', 'the to-string converters of the float vector types format every component with _fmt_float', floor=15)
    FLOAT_VEC_CONVERTERS = ('_conv_vec2_to_string', '_conv_vec3_to_string', '_conv_vec4_to_string', '_conv_angle_to_string', '_conv_quaternion_to_string')
    for cname in FLOAT_VEC_CONVERTERS:
        cf = dmx.func(cname)
        prm = cf.args.args[0].arg
        rets_ = [r.value for r in walk_no_nested(cf) if isinstance(r, ast.Return) and r.value is not None]
        ctx.shape('C14.X10', len(rets_) == 1 and isinstance(rets_[0], ast.JoinedStr), dmx, cf, f'{cname} returns one f-string', func=cname, text=f'{cname} shape')
        if len(rets_) != 1 or not isinstance(rets_[0], ast.JoinedStr):
            continue
        for fv in [v for v in rets_[0].values if isinstance(v, ast.FormattedValue)]:
            ok_ = isinstance(fv.value, ast.Call) and dotted(fv.value.func) == '_fmt_float' and len(fv.value.args) == 1 and isinstance(fv.value.args[0], ast.Attribute) \
                and dotted(fv.value.args[0].value) == prm and fv.format_spec is None and fv.conversion == -1
            comp = fv.value.args[0].attr if isinstance(fv.value, ast.Call) and fv.value.args and isinstance(fv.value.args[0], ast.Attribute) else (fv.value.attr if isinstance(fv.value, ast.Attribute) else '?')
            ctx.check('C14.X10', ok_, dmx, fv, f'{cname} writes component `{comp}` as `{U(fv)[:40]}` instead of _fmt_float({prm}.{comp}): the text then does not carry the value to 6 decimals '
                      "(':.6g' keeps 6 significant digits - 1048.515625 becomes 1048.52)", func=cname, text=f'{cname}: {comp} through _fmt_float')
    ff = dmx.func('_fmt_float')
    fmt_calls = [c for c in ast.walk(ff) if isinstance(c, ast.Call) and dotted(c.func) == 'format' and len(c.args) == 2 and isinstance(c.args[1], ast.Constant)]
    ctx.shape('C14.X10', len(fmt_calls) == 1, dmx, ff, "_fmt_float formats with format(x, '<spec>')", func='_fmt_float', text='_fmt_float precision')
    if len(fmt_calls) == 1:
        ctx.check('C14.X10', fmt_calls[0].args[1].value == '.6f', dmx, fmt_calls[0], f"_fmt_float uses the format {fmt_calls[0].args[1].value!r}; KV2 text carries 6 decimals ('.6f')", func='_fmt_float', text='_fmt_float precision')
    # ---- X9: zero is a valid index -------------------------------------------------------------------------------------------
    # tables whose values are positions (`{key: 0}`, `tbl[k] = len(seq)`, enumerate indexes): `tbl.get(k)` is falsy for the entry at
    # position 0 - in export_binary that entry is the root element, which then looks unseen and is written a second time
    n_tbl = 0
    for qn, fns in dmx.all_funcs().items():
        for fn in fns:
            index_tables: Set[str] = set()
            for a in ast.walk(fn):
                if isinstance(a, (ast.Assign, ast.AnnAssign)):
                    tg = a.targets[0] if isinstance(a, ast.Assign) else a.target
                    v = a.value
                    if isinstance(tg, ast.Name) and isinstance(v, ast.Dict) and v.values and all(isinstance(x, ast.Constant) and isinstance(x.value, int) and not isinstance(x.value, bool) for x in v.values):
                        index_tables.add(tg.id)
                    if isinstance(tg, ast.Subscript) and isinstance(tg.value, ast.Name) and isinstance(v, ast.Call) and dotted(v.func) == 'len':
                        index_tables.add(tg.value.id)
            if not index_tables:
                continue
            n_tbl += len(index_tables)
            for g in ast.walk(fn):
                if isinstance(g, ast.Call) and isinstance(g.func, ast.Attribute) and g.func.attr == 'get' and isinstance(g.func.value, ast.Name) and g.func.value.id in index_tables and len(g.args) == 1:
                    par = dmx.parents.get(g)
                    truthy = isinstance(par, (ast.If, ast.While, ast.BoolOp, ast.IfExp)) or (isinstance(par, ast.UnaryOp) and isinstance(par.op, ast.Not))
                    ctx.check('C14.X9', not truthy, dmx, g, f'`{U(par)[:70]}` tests the truthiness of `{U(g)}`, but `{g.func.value.id}` maps to positions and position 0 (the root element) is falsy: '
                              'the root is taken for unseen, appended to the element table again, and every reference to it points at the copy', func=qn, text=f'{qn}: {g.func.value.id}.get() used as a truth value')
            ctx.check('C14.X9', True, dmx, fn, 'index tables consulted with in / is None', func=qn, text=f'{qn}: index tables {sorted(index_tables)}')
    if n_tbl < 1:
        raise AnalysisError('X9: no index table found in dmx.py (elem_to_ind of export_binary confirmed by hand)')
    # ---- X4 ------------------------------------------------------------------------------------------------
    defined: Dict[str, ast.AST] = {}
    structs: Dict[str, str] = {}
    conv_struct: Dict[str, str] = {}
    tup_of: Dict[str, str] = {}
    for st in dmx.tree.body:
        if isinstance(st, ast.FunctionDef):
            defined[st.name] = st
        elif isinstance(st, ast.Assign) and len(st.targets) == 1 and isinstance(st.targets[0], ast.Name):
            defined[st.targets[0].id] = st
            if st.targets[0].id.startswith('_struct_') and isinstance(st.value, ast.Call) and dotted(st.value.func) in ('Struct', 'struct.Struct'):
                structs[st.targets[0].id[8:]] = st.value.args[0].value
        elif isinstance(st, ast.Expr) and isinstance(st.value, ast.Call) and dotted(st.value.func) in ('_binconv_basic', '_binconv_cls'):
            name, f = st.value.args[0].value, st.value.args[1].value
            structs[name] = f
            for k in (f'_struct_{name}', f'_conv_{name}_to_binary', f'_conv_binary_to_{name}'):
                defined[k] = st
            conv_struct[f'_conv_{name}_to_binary'] = conv_struct[f'_conv_binary_to_{name}'] = f'_struct_{name}'
            if dotted(st.value.func) == '_binconv_cls':
                tup_of[name] = dotted(st.value.args[2]) or ''
    for helper, uses in (('_binconv_basic', 1), ('_binconv_cls', 1)):
        h = dmx.func(helper)
        src = U(h)
        ok = "ns['_struct_' + name] = shape" in src and src.count('shape.pack') == 1 and src.count('shape.unpack') == 1
        ctx.shape('C14.X4', ok, dmx, h, f'{helper} must register one Struct and derive both converters from it', func=helper, text='one struct for both directions')
    for m in members:
        t = m.name.casefold()
        if m.name not in ('STRING', 'BINARY'):
            ok = f'_struct_{t}' in defined or t in structs
            ctx.check('C14.X4', ok, dmx, dmx.tree, f'SIZES needs _struct_{t}', func='<module>', text=f'_struct_{t} defined')
        if m.name not in ('STRING', 'BINARY', 'ELEMENT'):
            for k in (f'_conv_{t}_to_binary', f'_conv_binary_to_{t}'):
                ctx.check('C14.X4', k in defined, dmx, dmx.tree, f'fixed-size type {m.name} needs {k}', func='<module>', text=f'{k} defined')
                fn = defined.get(k)
                if isinstance(fn, ast.FunctionDef):
                    used = {n.id for n in ast.walk(fn) if isinstance(n, ast.Name) and n.id.startswith('_struct_')}
                    ctx.check('C14.X4', used == {f'_struct_{t}'}, dmx, fn, f'{k} must use _struct_{t} (uses {sorted(used)})', func=k, text=f'{k} uses _struct_{t}')
                    for c in ast.walk(fn):
                        if isinstance(c, ast.Call) and isinstance(c.func, ast.Attribute) and c.func.attr == 'pack' and not any(isinstance(a, ast.Starred) for a in c.args):
                            ctx.check('C14.X4', len(c.args) == value_count(structs[t]), dmx, c, f'{k} packs {len(c.args)} values into `{structs[t]}`', func=k, text=f'{k} pack arity')
        if m.name not in ('ELEMENT', 'STRING'):
            for k in (f'_conv_{t}_to_string', f'_conv_string_to_{t}'):
                ctx.check('C14.X4', k in defined, dmx, dmx.tree, f'text format needs {k}', func='<module>', text=f'{k} defined')
    arity = {'FrozenVec': 3, 'FrozenAngle': 3}
    for cname in ('Vec2', 'Vec4', 'Quaternion', 'Color'):
        c = dmx.cls(cname)
        arity[cname] = sum(1 for st in c.body if isinstance(st, ast.AnnAssign) and isinstance(st.target, ast.Name))
    for name, tup in tup_of.items():
        ctx.check('C14.X4', arity.get(tup) == value_count(structs[name]), dmx, defined[f'_struct_{name}'], f'{name}: `{structs[name]}` has {value_count(structs[name])} slots but {tup} takes {arity.get(tup)} values',
                  func='<module>', text=f'{name} tuple arity')
    # fixed-point time: same scale both ways, sign-symmetric rounding to nearest
    tw, tr = dmx.func('_conv_time_to_binary'), dmx.func('_conv_binary_to_time')
    def _num(e: ast.AST) -> Any:
        # a literal, or a module-level constant holding one (`_TIME_FIXED_SCALE = 10000.0`)
        if isinstance(e, ast.Constant) and isinstance(e.value, (int, float)):
            return e.value
        if isinstance(e, ast.Name):
            try:
                g_ = dmx.global_assign(e.id)
            except AnalysisError:
                return None
            return g_.value if isinstance(g_, ast.Constant) and isinstance(g_.value, (int, float)) else None
        return None
    scales_w = [_num(n.right) for n in ast.walk(tw) if isinstance(n, ast.BinOp) and isinstance(n.op, ast.Mult) and _num(n.right) is not None]
    scales_r = [_num(n.right) for n in ast.walk(tr) if isinstance(n, ast.BinOp) and isinstance(n.op, ast.Div) and _num(n.right) is not None]
    recips_r = [n.right.value for n in ast.walk(tr) if isinstance(n, ast.BinOp) and isinstance(n.op, ast.Mult) and isinstance(n.right, ast.Constant) and isinstance(n.right.value, float)] + \
        [n.left.value for n in ast.walk(tr) if isinstance(n, ast.BinOp) and isinstance(n.op, ast.Mult) and isinstance(n.left, ast.Constant) and isinstance(n.left.value, float)]
    if len(scales_w) == 1 and not scales_r and len(recips_r) == 1:
        # decoding by multiplying with the reciprocal: exact only when the reciprocal is a binary fraction; 0.0001 is not, and `n * 0.0001`
        # differs from `n / 10000.0` (the correctly rounded quotient, which is what the text form and the encoder agree with) for many n
        c_ = recips_r[0]
        exact = c_ != 0 and (1.0 / c_) == scales_w[0] and float(c_).hex().split('p')[0] in ('0x1.0000000000000', '-0x1.0000000000000')
        ctx.check('C14.X4', exact, dmx, tr, f'_conv_binary_to_time multiplies the tick count by {c_!r} instead of dividing by {scales_w[0]!r}: {c_!r} is not exactly 1/{scales_w[0]!r} in binary floating point, so about a third '
                  'of the tick counts decode one ulp away from the value that was written (3 ticks -> 0.00030000000000000003)', func='_conv_binary_to_time', text='time scale agrees')
        scales_r = [scales_w[0]]
    if len(scales_w) != 1 or len(scales_r) != 1:
        raise AnalysisError('time converters: fixed-point scale not found')
    ctx.check('C14.X4', scales_w == scales_r, dmx, tw, f'time is multiplied by {scales_w[0]} when written but divided by {scales_r[0]} when read', func='_conv_time_to_binary', text='time scale agrees')
    packs = [c for c in ast.walk(tw) if isinstance(c, ast.Call) and isinstance(c.func, ast.Attribute) and c.func.attr == 'pack']
    if len(packs) != 1 or len(packs[0].args) != 1:
        raise AnalysisError('_conv_time_to_binary: pack call not found')
    q = packs[0].args[0]
    if isinstance(q, ast.Name):
        qd_ = [a.value for a in ast.walk(tw) if isinstance(a, ast.Assign) and any(isinstance(t, ast.Name) and t.id == q.id for t in a.targets)]
        if len(qd_) == 1:
            q = qd_[0]
    if isinstance(q, ast.Call) and dotted(q.func) == 'int' and len(q.args) == 1 and isinstance(q.args[0], ast.Call) and dotted(q.args[0].func) == 'round':
        q = q.args[0]
    nearest = isinstance(q, ast.Call) and dotted(q.func) == 'round' and len(q.args) == 1
    floor_half = isinstance(q, ast.Call) and dotted(q.func) in ('math.floor', 'floor') and isinstance(q.args[0], ast.BinOp) and isinstance(q.args[0].op, ast.Add) \
        and isinstance(q.args[0].right, ast.Constant) and q.args[0].right.value == 0.5
    if not (nearest or floor_half) and not (isinstance(q, ast.Call) and dotted(q.func) in ('int', 'math.trunc', 'math.floor', 'math.ceil')):
        raise AnalysisError(f'_conv_time_to_binary: quantiser `{U(q)}` is not an enumerated rounding idiom')
    ctx.check('C14.X4', nearest or floor_half, dmx, packs[0], f'`{U(q)}` does not round to the nearest tick for every sign (int() truncates toward zero: -1.0 s becomes -9999 ticks): '
              'times that are exact tick multiples must survive', func='_conv_time_to_binary', text='time quantiser rounds to nearest for both signs')
    # matrix cell positions
    def cells_written(fn: ast.AST) -> Dict[str, int]:
        out: Dict[str, int] = {}
        for c in ast.walk(fn):
            if isinstance(c, ast.Call) and isinstance(c.func, ast.Attribute) and c.func.attr == 'pack':
                for i, a in enumerate(c.args):
                    if isinstance(a, ast.Subscript) and dotted(a.value) == 'mat':
                        out[U(a.slice)] = i
        if not out:   # text form: evaluate the string construction on a symbolic matrix
            out = symbolic_text_cells(fn)
        return out

    def cells_read(fn: ast.AST) -> Dict[str, int]:
        out: Dict[str, int] = {}
        for st in ast.walk(fn):
            if isinstance(st, ast.Assign) and isinstance(st.targets[0], ast.Tuple) and isinstance(st.value, ast.Subscript) and dotted(st.value.value) == 'data' and isinstance(st.value.slice, ast.Slice):
                lo = st.value.slice.lower.value
                for i, t in enumerate(st.targets[0].elts):
                    if isinstance(t, ast.Subscript) and dotted(t.value) == 'mat':
                        out[U(t.slice)] = lo + i
        return out
    for wname, rname in (('_conv_matrix_to_binary', '_conv_binary_to_matrix'), ('_conv_matrix_to_string', '_conv_string_to_matrix')):
        w_, r_ = cells_written(dmx.func(wname)), cells_read(dmx.func(rname))
        w_ = {k.strip('()').replace(' ', ''): v for k, v in w_.items()}
        r_ = {k.strip('()').replace(' ', ''): v for k, v in r_.items()}
        if len(w_) != 9 or len(r_) != 9:
            raise AnalysisError(f'{wname}/{rname}: 3x3 cell placement not recognised ({len(w_)}/{len(r_)} cells)')
        for cell in sorted(w_):
            ctx.check('C14.X4', w_[cell] == r_.get(cell), dmx, dmx.func(wname), f'matrix cell [{cell}] is written at position {w_[cell]} but read from position {r_.get(cell)}', func=wname, text=f'{wname} cell [{cell}]')
    # ---- X5 ------------------------------------------------------------------------------------------------
    ek = em['_export_kv2']
    safe_alphabet = all(re.fullmatch(r'[a-z0-9_]+', str(m.value)) for m in members)
    n_q = 0
    for c in walk_no_nested(ek):
        if not (isinstance(c, ast.Call) and isinstance(c.func, ast.Attribute) and c.func.attr == 'write' and c.args):
            continue
        x = c.args[0]
        if not (isinstance(x, ast.BinOp) and isinstance(x.op, ast.Mod) and isinstance(x.left, ast.Constant) and isinstance(x.left.value, bytes)):
            continue
        slots = template_slots(x.left.value)
        args = list(x.right.elts) if isinstance(x.right, ast.Tuple) else [x.right]
        if len(args) != len(slots):
            raise AnalysisError(f'line {c.lineno}: template/argument count mismatch')
        for quoted, a in zip(slots, args):
            if not quoted:
                continue
            n_q += 1
            src = U(a)
            label = f'quoted slot {src[:50]}'
            if not (isinstance(a, ast.Call) and isinstance(a.func, ast.Attribute) and a.func.attr == 'encode'):
                raise AnalysisError(f'line {c.lineno}: quoted slot `{src}` is not an encoded str')
            inner = a.func.value
            enc_arg = a.args[0] if a.args else None
            if isinstance(inner, ast.Call) and dotted(inner.func) == 'str' and 'uuid' in U(inner):
                ctx.check('C14.X5', True, dmx, c, 'UUID text needs no escaping', func='Element._export_kv2', text=label)
                continue
            if isinstance(inner, ast.Attribute) and dotted(inner) == 'attr.type.value':
                ctx.check('C14.X5', safe_alphabet, dmx, c, 'ValueType values must stay within [a-z0-9_] to be written raw', func='Element._export_kv2', text=label)
                continue
            esc = isinstance(inner, ast.Call) and dotted(inner.func) == 'escape_text'
            ctx.check('C14.X5', esc, dmx, c, f'`{src}` is written between quotes without escape_text(): a quote or backslash in it breaks the file for the escape-decoding parser', func='Element._export_kv2', text=label)
            enc_ok = isinstance(enc_arg, ast.Name) and enc_arg.id == 'encoding'
            ctx.check('C14.X5', enc_ok, dmx, c, f'`{src}` is not encoded with the selected encoding: a non-ASCII value raises although the unicode modes permit it', func='Element._export_kv2', text=label + ' encoding')
    if n_q < 6:
        raise AnalysisError('_export_kv2: quoted slots not found')
    pk = em['parse_kv2']
    tks = [c for c in walk_no_nested(pk) if isinstance(c, ast.Call) and dotted(c.func) == 'Tokenizer']
    ok = len(tks) == 1 and any(k.arg == 'allow_escapes' and isinstance(k.value, ast.Constant) and k.value.value is True for k in tks[0].keywords)
    ctx.check('C14.X5', ok, dmx, tks[0] if tks else pk, 'parse_kv2 must tokenise with allow_escapes=True', func='Element.parse_kv2', text='reader decodes escapes')
    # keywords
    written: Set[str] = set()
    for c in walk_no_nested(ek):
        for n in ast.walk(c):
            if isinstance(n, ast.Constant) and isinstance(n.value, bytes):
                for w_ in re.findall(rb'"([a-z_%]+)"', n.value):
                    if b'%' not in w_:
                        written.add(w_.decode())
                    elif w_.endswith(b'_array'):
                        written.add('*_array')
    pe = em['_parse_kv2_element']
    compared: Set[str] = set()
    for n in ast.walk(pe):
        if isinstance(n, ast.Compare) and isinstance(n.ops[0], (ast.Eq, ast.NotEq)) and isinstance(n.comparators[0], ast.Constant) and isinstance(n.comparators[0].value, str):
            compared.add(n.comparators[0].value)
        if isinstance(n, ast.Call) and isinstance(n.func, ast.Attribute) and n.func.attr == 'endswith' and n.args and isinstance(n.args[0], ast.Constant):
            suffix = n.args[0].value
            cut = [s for s in ast.walk(pe) if isinstance(s, ast.Subscript) and isinstance(s.slice, ast.Slice) and s.slice.upper is not None and U(s.slice.upper) == f'-{len(suffix)}']
            compared.add('*' + suffix if cut else '*' + suffix + ' (not cut by its length)')
    for w_ in sorted(written):
        ctx.check('C14.X5', w_ in compared, dmx, ek, f'keyword "{w_}" is written but the parser never compares against it (parser knows {sorted(compared)})', func='Element._export_kv2', text=f'keyword {w_}')
    # ---- X11: what the KeyValues2 writer puts where an element is referenced -----------------------------------------------------------------
    # the reader maps a blank id to NULL, any other id to the element / a stub with that id, and an inline block to a new element.  The writer
    # therefore has to write: NULL -> blank id, stub or root element -> its id, anything else -> inline.  Both reference positions (array member,
    # scalar attribute) are decision lists over the same four kinds of element; each list is evaluated on each kind.
    ctx.rule('C14.X11', 'KV2 writer: NULL is written as the blank id, stubs and root elements by id, other elements inline - in array and scalar position', floor=8)
    ek = dmx.func('Element._export_kv2')
    KINDS = {'NULL': {'is_null': True, 'is_stub': False, 'stubclass': True, 'in_roots': False}, 'stub': {'is_null': False, 'is_stub': True, 'stubclass': True, 'in_roots': False},
             'root element': {'is_null': False, 'is_stub': False, 'stubclass': False, 'in_roots': True}, 'other element': {'is_null': False, 'is_stub': False, 'stubclass': False, 'in_roots': False}}
    WANT = {'NULL': 'blank', 'stub': 'id', 'root element': 'id', 'other element': 'inline'}

    def atom(t: ast.AST, kind: Dict[str, bool]) -> Optional[bool]:
        if isinstance(t, ast.BoolOp):
            vals = [atom(v, kind) for v in t.values]
            if any(v is None for v in vals):
                return None
            return all(vals) if isinstance(t.op, ast.And) else any(vals)
        if isinstance(t, ast.UnaryOp) and isinstance(t.op, ast.Not):
            v = atom(t.operand, kind)
            return None if v is None else not v
        if isinstance(t, ast.Attribute) and t.attr in ('is_null', 'is_stub'):
            return kind[t.attr]
        if isinstance(t, ast.Call) and dotted(t.func) == 'isinstance' and len(t.args) == 2 and dotted(t.args[1]) == 'StubElement':
            return kind['stubclass']
        if isinstance(t, ast.Compare) and len(t.ops) == 1:
            l_, r_ = t.left, t.comparators[0]
            if isinstance(t.ops[0], (ast.Is, ast.IsNot, ast.Eq, ast.NotEq)) and 'NULL' in (dotted(l_), dotted(r_)):
                return kind['is_null'] == isinstance(t.ops[0], (ast.Is, ast.Eq))
            if isinstance(t.ops[0], (ast.In, ast.NotIn)) and isinstance(l_, ast.Attribute) and l_.attr == 'uuid':
                return kind['in_roots'] == isinstance(t.ops[0], ast.In)
        return None

    def outcome(body: List[ast.stmt]) -> Optional[str]:
        for st in body:
            for c in ast.walk(st):
                if isinstance(c, ast.Call) and isinstance(c.func, ast.Attribute) and c.func.attr == '_export_kv2':
                    return 'inline'
                if isinstance(c, ast.Constant) and isinstance(c.value, bytes) and c.value.startswith(b'"element" '):
                    return 'blank' if c.value.startswith(b'"element" ""') else 'id'
        return None

    def decide(ifn: ast.If, kind: Dict[str, bool]) -> Optional[str]:
        cur: Any = ifn
        while isinstance(cur, ast.If):
            v = atom(cur.test, kind)
            if v is None:
                return None
            if v:
                return outcome(cur.body)
            if len(cur.orelse) == 1 and isinstance(cur.orelse[0], ast.If):
                cur = cur.orelse[0]
            else:
                return outcome(cur.orelse)
        return None
    ref_ifs = [n for n in ast.walk(ek) if isinstance(n, ast.If) and outcome([b for b in n.body if not isinstance(b, (ast.If, ast.For, ast.While, ast.With, ast.Try))]) in ('blank', 'id')
               and not (isinstance(dmx.parents.get(n), ast.If) and n in dmx.parents.get(n).orelse)]
    ctx.shape('C14.X11', len(ref_ifs) == 2, dmx, ek, f'_export_kv2 has {len(ref_ifs)} element-reference decision lists (array member and scalar attribute expected)', func='Element._export_kv2', text='two reference positions')
    for ifn in ref_ifs:
        pos = 'array member' if any(isinstance(a, (ast.For, ast.While)) for a in _ancestors(dmx, ifn, ek)) else 'scalar attribute'
        for kname, kind in KINDS.items():
            got = decide(ifn, kind)
            if got is None:
                ctx.shape('C14.X11', False, dmx, ifn, f'{pos}: test chain not evaluable for {kname}', func='Element._export_kv2', text=f'{pos}: {kname}')
                continue
            ctx.check('C14.X11', got == WANT[kname], dmx, ifn, f'{pos}: a {kname} is written {"as the blank id" if got == "blank" else ("by its id" if got == "id" else "inline")}, but the reader needs it '
                      f'{"as the blank id" if WANT[kname] == "blank" else ("by its id" if WANT[kname] == "id" else "inline")}' + (' (a NULL written by id comes back as a stub with the all-zero id, not as NULL)' if kname == 'NULL' else ''),
                      func='Element._export_kv2', text=f'{pos}: {kname}')

    # ---- X13: terminated strings are decoded whole ------------------------------------------------------------------------------------------
    # a multi-byte UTF-8 character may sit anywhere in a string: bytes are collected up to the terminator and decoded once.  Decoding the
    # pieces of a block-wise read one by one cuts a character that straddles a block boundary in half (UnicodeDecodeError, or a wrong character).
    ctx.rule('C14.X13', 'binformat.read_nullstr decodes the complete byte string, not the blocks it was read in', floor=1)
    bfm = prog.module('binformat')
    rn = bfm.func('read_nullstr')
    decs = [c for c in ast.walk(rn) if isinstance(c, ast.Call) and isinstance(c.func, ast.Attribute) and c.func.attr == 'decode']
    ctx.shape('C14.X13', bool(decs), bfm, rn, 'read_nullstr decodes what it read', func='read_nullstr', text='decode site')
    for dc in decs:
        loop_ = next((a for a in _ancestors(bfm, dc, rn) if isinstance(a, (ast.While, ast.For))), None)
        partial = False
        why_ = ''
        if loop_ is not None:
            # what is decoded: a (slice of a) local read with more than one byte per iteration, instead of the joined collection
            base = dc.func.value
            while isinstance(base, ast.Subscript):
                base = base.value
            if isinstance(base, ast.Name):
                reads_ = [a.value for a in ast.walk(loop_) if isinstance(a, ast.Assign) and any(isinstance(t, ast.Name) and t.id == base.id for t in a.targets) and isinstance(a.value, ast.Call)
                          and isinstance(a.value.func, ast.Attribute) and a.value.func.attr == 'read']
                for r_ in reads_:
                    one = r_.args and isinstance(r_.args[0], ast.Constant) and r_.args[0].value == 1
                    if not one:
                        partial, why_ = True, U(r_)
        ctx.check('C14.X13', not partial, bfm, dc, f'read_nullstr decodes `{U(dc.func.value)[:40]}`, a piece of a block read with `{why_}`, on its own: a multi-byte character that straddles the block boundary is cut in two '
                  '(any string longer than a block with a non-ASCII character at the boundary fails to parse)', func='read_nullstr', text='decoded after joining')

    # ---- X14: the KV2 writer names every element ------------------------------------------------------------------------------------------
    # the reader gives an inline child the name of the attribute that holds it until it meets a `"name"` line, so a block without that line
    # does not come back unnamed: the line is written for every element, whatever the name is.
    ctx.rule('C14.X14', 'KV2 writer: the "name" line of an element block is written unconditionally', floor=1)
    ek14 = dmx.func('Element._export_kv2')
    name_writes = [c for c in ast.walk(ek14) if isinstance(c, ast.Call) and isinstance(c.func, ast.Attribute) and c.func.attr == 'write' and any(isinstance(x, ast.Constant) and isinstance(x.value, bytes) and b'"name" "string"' in x.value for x in ast.walk(c))]
    ctx.shape('C14.X14', len(name_writes) == 1, dmx, ek14, f'{len(name_writes)} writes of the name line in _export_kv2', func='Element._export_kv2', text='name line write')
    for nw in name_writes:
        guards14 = [a for a in _ancestors(dmx, nw, ek14) if isinstance(a, (ast.If, ast.IfExp, ast.For, ast.While))]
        ctx.check('C14.X14', not guards14, dmx, nw, f'the name line is written only under `{U(guards14[0].test)[:50] if guards14 and hasattr(guards14[0], "test") else "a loop"}`: an unnamed element written inline comes back named '
                  'after the attribute that holds it, because that is what the reader starts an inline child with', func='Element._export_kv2', text='name line unconditional')

    # ---- X12: a reference read from KeyValues2 holds a stub until it is resolved ---------------------------------------------------------------
    # the fix-up pass of parse_kv2 replaces a reference only when the id is defined in the file; a dangling id has to stay a stub *with that
    # id*.  So wherever the element parser queues a fix-up (`fixups.append((.., uuid, ..))`) the same block also stores
    # `StubElement.stub(uuid)` (directly or through `stubs.setdefault(uuid, ...)`) - in the array position and in the scalar position alike.
    # ---- X15: the word `element` is a reference marker only where elements are expected -----------------------------------------------------
    # `"name" "element_array" [ element "<uuid>", ... ]`: the bare word announces a reference.  In an array of any other type the same text is
    # an ordinary value (a string array may hold the string "element"), so the test for the word sits under the test for the ELEMENT type.
    ctx.rule('C14.X15', 'KV2 reader: `element` is treated as a reference marker only under the ELEMENT type test', floor=1)
    pk2 = dmx.func('Element._parse_kv2_element')
    n15 = 0
    for cmp_ in [c for c in ast.walk(pk2) if isinstance(c, ast.Compare) and len(c.ops) == 1 and isinstance(c.ops[0], ast.Eq) and isinstance(c.comparators[0], ast.Constant) and c.comparators[0].value == 'element']:
        n15 += 1
        under = False
        ch15: ast.AST = cmp_
        an15 = dmx.parents.get(cmp_)
        while an15 is not None and an15 is not pk2:
            if isinstance(an15, ast.If) and ch15 is not an15.test and 'ValueType.ELEMENT' in U(an15.test) and any(ch15 is b or any(ch15 is y for y in ast.walk(b)) for b in an15.body):
                under = True
            if isinstance(an15, ast.BoolOp) and isinstance(an15.op, ast.And) and any('ValueType.ELEMENT' in U(v) for v in an15.values if v is not ch15):
                under = True
            if isinstance(an15, ast.If) and ch15 is an15.test and 'ValueType.ELEMENT' in U(an15.test):
                under = True
            ch15, an15 = an15, dmx.parents.get(an15)
        ctx.check('C14.X15', under, dmx, cmp_, f'_parse_kv2_element tests `{U(cmp_)}` for every array type: a string array that contains the value "element" is read as a reference, the parser then demands a UUID string '
                  'and fails on the following `,` or `]` - text the writer produced cannot be read back', func='Element._parse_kv2_element', text='`element` marker under the ELEMENT type test')
    ctx.shape('C14.X15', n15 >= 1, dmx, pk2, 'no comparison with the word `element` found in _parse_kv2_element', func='Element._parse_kv2_element', text='`element` marker test')
    # ---- X16: the end of the header comment is the FIRST `-->` -------------------------------------------------------------------------------
    # Element.parse reads the file in blocks until it has seen the `-->` that closes the `<!-- dmx encoding ... -->` line; the block read last
    # also holds the beginning of the payload.  Searching from the right finds a `-->` inside the data (a string, a type name) instead.
    ctx.rule('C14.X16', 'Element.parse locates the end of the header comment by its first occurrence', floor=1)
    ep16 = dmx.func('Element.parse')
    finds = [c for c in ast.walk(ep16) if isinstance(c, ast.Call) and isinstance(c.func, ast.Attribute) and c.func.attr in ('find', 'rfind', 'index', 'rindex') and c.args and isinstance(c.args[0], ast.Constant) and c.args[0].value == b'-->']
    ctx.shape('C14.X16', len(finds) >= 1, dmx, ep16, 'search for the `-->` terminator not found in Element.parse', func='Element.parse', text='header terminator search')
    for f16 in finds:
        ctx.check('C14.X16', f16.func.attr in ('find', 'index'), dmx, f16, f'Element.parse looks for the end of the header with `{U(f16)}`: the block holds the start of the payload too, and the LAST `-->` in it may be part of '
                  'the data (a string or type name containing `-->`), so parsing resumes in the middle of the payload', func='Element.parse', text='header terminator: first occurrence')
    # ---- X17: the null element is recognised by identity ------------------------------------------------------------------------------------
    # Element is a Mapping: `==` compares the attribute dicts, and NULL has none - every element without attributes "equals" NULL.  A writer that
    # tests `subelem == NULL` writes such an element as the null reference (-1): the reference is lost on the round trip.
    ctx.rule('C14.X17', 'comparisons with the NULL element singleton are identity tests (is / is not)', floor=1)
    n17 = 0
    for cmp17 in [c for c in ast.walk(dmx.tree) if isinstance(c, ast.Compare)]:
        sides = [cmp17.left] + list(cmp17.comparators)
        for i17, op17 in enumerate(cmp17.ops):
            a17, b17 = sides[i17], sides[i17 + 1]
            direct = dotted(a17) == 'NULL' or dotted(b17) == 'NULL'
            member = isinstance(op17, (ast.In, ast.NotIn)) and isinstance(b17, (ast.Tuple, ast.List, ast.Set)) and any(dotted(e) == 'NULL' for e in b17.elts)
            if not (direct or member):
                continue
            n17 += 1
            ctx.check('C14.X17', direct and isinstance(op17, (ast.Is, ast.IsNot)), dmx, cmp17, f'`{U(cmp17)}` compares with the NULL element by value: Element equality is Mapping equality (the attribute dicts), so every element '
                      'without attributes counts as NULL and is written as the null reference', func=(dmx.qualname_of(dmx.enclosing_func(cmp17)) if dmx.enclosing_func(cmp17) is not None else None), text=f'`{U(cmp17)[:40]}` is an identity test')
    ctx.shape('C14.X17', '__eq__' not in dmx.methods('Element') and '__eq__' not in dmx.methods('StubElement'), dmx, dmx.cls('Element'), 'Element defines its own __eq__: whether `==` with NULL is by value is no longer what the rule assumes (Mapping equality)', text='Element equality is Mapping equality')
    ctx.shape('C14.X17', n17 >= 1, dmx, dmx.tree, 'no comparison with NULL found in dmx.py (one confirmed by hand: Element.export_binary)', text='NULL comparisons')
    # ---- X18: ids are taken from the file as they are ------------------------------------------------------------------------------------------
    # uuid.UUID(..., version=N) overwrites the version and variant bits of the value it is given.  An id read from a file with that keyword is a
    # different id: references by id (stubs, external elements, the 16 raw bytes of a binary file) no longer match what was written.
    ctx.rule('C14.X18', 'UUID values are built from file data without the version= keyword (which rewrites bits of the id)', floor=5)
    for u18 in [c for c in ast.walk(dmx.tree) if isinstance(c, ast.Call) and (dotted(c.func) or '').split('.')[-1] == 'UUID']:
        kws = {k.arg for k in u18.keywords}
        ctx.check('C14.X18', 'version' not in kws and None not in kws and len(u18.args) <= 1, dmx, u18, f'`{U(u18)[:60]}` passes version=: uuid.UUID then replaces the version and variant bits, so an id that is not already of that version '
                  'is read as a different id and exported differently', text=f'`{U(u18)[:40]}` keeps the id bits')
    # ---- X19: a missing target ends one reference, not the resolution pass --------------------------------------------------------------------
    # parse_kv2 resolves the queued references after the whole file was read; an id that is not in the file stays a stub.  The lookup that
    # can miss (`id_to_elem[uuid]`) is therefore handled per reference - inside the loop.  A `try` wrapped around the loop ends the pass at
    # the first stub: every reference queued after it (shared elements, cycles, the way back to the root) stays unresolved.
    ctx.rule('C14.X19', 'KV2 reader: the reference resolution loop handles a missing id per reference, not around the loop', floor=1)
    pk19 = dmx.func('Element.parse_kv2')
    loops19 = [l for l in walk_no_nested(pk19) if isinstance(l, ast.For) and any(isinstance(x, ast.Subscript) and isinstance(x.ctx, ast.Load) and isinstance(x.value, ast.Name) and 'id' in x.value.id and 'elem' in x.value.id for x in ast.walk(l))]
    ctx.shape('C14.X19', len(loops19) == 1, dmx, pk19, 'the loop of parse_kv2 that looks queued references up in the id table was not found once', func='Element.parse_kv2', text='reference resolution loop')
    for l19 in loops19[:1]:
        outer_try = [a for a in _anc14(dmx, l19, pk19) if isinstance(a, ast.Try) and any(l19 is x for b in a.body for x in ast.walk(b))
                     and any(h.type is None or any((dotted(t) or '') in ('KeyError', 'LookupError', 'Exception') for t in (h.type.elts if isinstance(h.type, ast.Tuple) else [h.type])) for h in a.handlers)]
        swallowing = [t for t in outer_try if any(not any(isinstance(x, ast.Raise) for x in ast.walk(h)) for h in t.handlers)]
        ctx.check('C14.X19', not swallowing, dmx, swallowing[0] if swallowing else l19, 'parse_kv2 wraps the whole reference resolution loop in `try ... except KeyError: pass`: the first reference to an element that is not in the file '
                  '(a stub) ends the loop, and every reference queued after it - shared elements, cycles, references back to the root - is left as a stub although its target was read', func='Element.parse_kv2',
                  text='a missing id is handled per reference')
    # ---- X20: strings are encoded strictly ---------------------------------------------------------------------------------------------------
    # `.encode(enc, 'backslashreplace' / 'replace' / 'ignore')` writes something for a character the encoding cannot hold instead of refusing:
    # the file parses, but the name or value that comes back is another string and nothing signalled it.
    ctx.rule('C14.X20', 'the DMX writers encode text with the strict error handler', floor=5)
    n20 = 0
    for q20, fl20 in dmx.all_funcs().items():
        for f20 in fl20:
            for c20 in [c for c in walk_no_nested(f20) if isinstance(c, ast.Call) and isinstance(c.func, ast.Attribute) and c.func.attr == 'encode']:
                n20 += 1
                errs = [a for a in c20.args[1:2]] + [k.value for k in c20.keywords if k.arg == 'errors']
                lossy = [e for e in errs if isinstance(e, ast.Constant) and e.value in ('backslashreplace', 'replace', 'ignore', 'xmlcharrefreplace', 'namereplace')]
                ctx.check('C14.X20', not lossy, dmx, c20, f'{q20} encodes with errors={lossy[0].value!r}' if lossy else 'strict', func=q20, text=f'{q20}: `{U(c20)[:40]}` is strict')
                if lossy:
                    pass
    ctx.shape('C14.X20', n20 >= 5, dmx, dmx.tree, f'{n20} encode() calls found in dmx.py', text='encode calls')
    # ---- X21: leaves and blocks under one KV1 parent force nesting, whichever comes first ----------------------------------------------------------
    # Element.from_kv1 may turn leaf children into attributes only when that cannot reorder the tree: with both leaves and sub-blocks present,
    # to_kv1 writes attributes before subkeys, so everything has to go into `subkeys`.  The detection must not depend on which kind it meets
    # first.
    ctx.rule('C14.X21', 'from_kv1: a parent with both leaves and blocks is never inlined, in either order', floor=1)
    fk21 = dmx.func('Element.from_kv1')
    sets21 = [a for a in ast.walk(fk21) if isinstance(a, ast.Assign) and any(isinstance(t, ast.Name) and t.id == 'no_inline' for t in a.targets) and isinstance(a.value, ast.Constant) and a.value.value is True]
    both_after, in_block_on_leaf, in_leaf_on_block = False, False, False
    for a21 in sets21:
        ancs = _anc14(dmx, a21, fk21)
        tests = [x for x in ancs if isinstance(x, ast.If)]
        names_t = {n_.id for t_ in tests for n_ in ast.walk(t_.test) if isinstance(n_, ast.Name)}
        in_loop = any(isinstance(x, (ast.For, ast.While)) for x in ancs)
        if {'has_block', 'has_leaf'} <= names_t and not in_loop:
            both_after = True
        if in_loop and tests:
            inner = tests[0]
            inner_names = {n_.id for n_ in ast.walk(inner.test) if isinstance(n_, ast.Name)}
            branch_if = next((t_ for t_ in tests[1:] if any(isinstance(c_, ast.Call) and isinstance(c_.func, ast.Attribute) and c_.func.attr == 'has_children' for c_ in ast.walk(t_.test))), None)
            if branch_if is not None:
                in_body = any(inner is y for b_ in branch_if.body for y in ast.walk(b_))
                if 'has_leaf' in inner_names and in_body:
                    in_block_on_leaf = True
                if 'has_block' in inner_names and not in_body:
                    in_leaf_on_block = True
    decided21 = both_after or in_block_on_leaf or in_leaf_on_block
    ctx.shape('C14.X21', decided21, dmx, fk21, 'from_kv1: how a parent holding both leaves and blocks is detected was not recognised', func='Element.from_kv1', text='mixed parents are nested')
    if decided21:
        ctx.check('C14.X21', both_after or (in_block_on_leaf and in_leaf_on_block), dmx, sets21[0] if sets21 else fk21, 'from_kv1 notices a mix of leaves and blocks only when the '
                  + ('leaf' if in_block_on_leaf else 'block') + ' comes first: in the other order the leaves are inlined as attributes while the blocks go to `subkeys`, and to_kv1 writes the leaves ahead of the blocks - '
                  'the tree comes back reordered', func='Element.from_kv1', text='mixed parents are nested')
    # ---- X22: the KV2 writer counts every reference to an element ---------------------------------------------------------------------------
    # export_kv2 decides from the use counts which elements are written once at top level and referred to by id (count > 1) and which are
    # nested inline.  Only stubs (not exported at all) are left out of the count: a reference that is not counted - an element's reference to
    # itself, say - leaves a cyclic element with count 1, it is written inline, and the inline writer follows the cycle for ever.
    ctx.rule('C14.X22', 'export_kv2 counts every reference except those to stub elements', floor=1)
    ek22 = dmx.func('Element.export_kv2')
    loops22 = [l for l in ast.walk(ek22) if isinstance(l, ast.For) and isinstance(l.iter, ast.Call) and isinstance(l.iter.func, ast.Attribute) and l.iter.func.attr == 'iter_elem'
               and any(isinstance(x, ast.Name) and x.id == 'use_count' for x in ast.walk(l))]
    ctx.shape('C14.X22', len(loops22) == 1, dmx, ek22, 'the loop of export_kv2 that counts the uses of sub-elements was not found once', func='Element.export_kv2', text='use-count loop')
    for l22 in loops22[:1]:
        for cont in [c for c in ast.walk(l22) if isinstance(c, ast.Continue)]:
            g22 = dmx.parents.get(cont)
            only_stub = isinstance(g22, ast.If) and isinstance(g22.test, ast.Call) and dotted(g22.test.func) == 'isinstance' and len(g22.test.args) == 2 and 'Stub' in U(g22.test.args[1])
            null_test = isinstance(g22, ast.If) and isinstance(g22.test, ast.Compare) and len(g22.test.ops) == 1 and isinstance(g22.test.ops[0], ast.Is) and dotted(g22.test.comparators[0]) == 'NULL'
            ctx.check('C14.X22', only_stub or null_test, dmx, g22 if isinstance(g22, ast.If) else cont, f'export_kv2 leaves a reference out of the use count when `{U(g22.test)[:60] if isinstance(g22, ast.If) else "?"}`: '
                      'an element whose other references are not counted is written inline, and if it refers to itself the inline writer never terminates', func='Element.export_kv2', text='only stubs are left out of the use count')
    ctx.rule('C14.X12', 'KV2 reader: every queued reference is given a stub carrying its id, in array and scalar position', floor=2)
    pk = dmx.func('Element._parse_kv2_element')
    for c in [x for x in ast.walk(pk) if isinstance(x, ast.Call) and isinstance(x.func, ast.Attribute) and x.func.attr == 'append' and isinstance(x.func.value, ast.Name) and x.func.value.id in [a.arg for a in pk.args.args]
              and x.args and isinstance(x.args[0], ast.Tuple)]:
        names_ = {e.id for e in x_names(c.args[0])}
        st_ = dmx.parents.get(c)
        while st_ is not None and not isinstance(st_, ast.stmt):
            st_ = dmx.parents.get(st_)
        holder = dmx.parents.get(st_)
        blk = next((getattr(holder, f_) for f_ in ('body', 'orelse', 'finalbody') if isinstance(getattr(holder, f_, None), list) and st_ in getattr(holder, f_)), [])
        stubbed = [y for b in blk for y in ast.walk(b) if isinstance(y, ast.Call) and (dotted(y.func) or '').endswith('StubElement.stub') and y.args and isinstance(y.args[0], ast.Name) and y.args[0].id in names_]
        stored = [b for b in blk if any(y in list(ast.walk(b)) for y in stubbed) and (isinstance(b, (ast.Assign, ast.AugAssign)) or (isinstance(b, ast.Expr) and isinstance(b.value, ast.Call) and isinstance(b.value.func, ast.Attribute)
                                                                                                                                 and b.value.func.attr in ('append', 'insert', 'extend')))]
        if not stored:
            # the stub may be made in a nested statement of the block (`try: s = stubs[id] / except KeyError: s = stubs[id] = StubElement.stub(id)`)
            # and stored from the local afterwards
            for y in stubbed:
                sy = dmx.parents.get(y)
                while sy is not None and not isinstance(sy, ast.stmt):
                    sy = dmx.parents.get(sy)
                if isinstance(sy, ast.Assign):
                    locs_ = {t.id for t in sy.targets if isinstance(t, ast.Name)}
                    kept_ = [b for b in blk if (isinstance(b, ast.Assign) and isinstance(b.value, ast.Name) and b.value.id in locs_ and any(isinstance(t, (ast.Attribute, ast.Subscript)) for t in b.targets))
                             or (isinstance(b, ast.Expr) and isinstance(b.value, ast.Call) and isinstance(b.value.func, ast.Attribute) and b.value.func.attr in ('append', 'insert') and any(isinstance(a_, ast.Name) and a_.id in locs_ for a_ in b.value.args))]
                    if kept_:
                        stored = kept_
        ctx.check('C14.X12', bool(stored), dmx, c, f'_parse_kv2_element queues the reference `{U(c.args[0])[:50]}` for the fix-up pass but stores no `StubElement.stub(<id>)` for it: an id that is not defined in the file is never '
                  'filled in, so the attribute silently stays NULL and the id is lost', func='Element._parse_kv2_element', text=f'queued reference at `{U(c)[:40]}` holds a stub')

    # ---- X6 ------------------------------------------------------------------------------------------------
    n6 = 0
    for fname in ('parse_bin', 'parse_kv2', '_parse_kv2_element'):
        fn = em[fname]
        for n in ast.walk(fn):
            if isinstance(n, ast.Attribute) and dotted(n) == 'StubElement.stub':
                par = dmx.parents.get(n)
                called = isinstance(par, ast.Call) and par.func is n
                n6 += 1
                if called:
                    ok = bool(par.args or par.keywords)
                    ctx.check('C14.X6', ok, dmx, par, 'StubElement.stub() without a UUID creates a stub with a random UUID', func=f'Element.{fname}', text=f'{fname}: stub created with uuid')
                else:
                    ctx.check('C14.X6', False, dmx, par or n, f'`{U(par)[:70] if par is not None else "StubElement.stub"}` hands StubElement.stub to a container as a key-less factory: stubs[uuid] then creates a stub '
                              'with a fresh random UUID instead of the referenced one', func=f'Element.{fname}', text=f'{fname}: stub factory receives the uuid')
    if n6 < 2:
        raise AnalysisError('stub construction sites not found in the parsers')
    # writer side: a stub (or NULL) reference is never queued for export as an element of its own
    for fname in ('export_binary', 'export_kv2'):
        fn = em[fname]
        queue = [c for c in ast.walk(fn) if isinstance(c, ast.Call) and dotted(c.func) == 'elements.append' and c.args and isinstance(c.args[0], ast.Name)]
        if not queue:
            ctx.shape('C14.X6', False, dmx, fn, 'element queue of the pre-pass not found', func=f'Element.{fname}', text=f'{fname}: stubs not queued')
            continue
        var = queue[0].args[0].id
        # conditions under which the loop body skips / includes the element
        loop = next((l for l in ast.walk(fn) if isinstance(l, ast.For) and isinstance(l.target, ast.Name) and l.target.id == var and any(c is queue[0] for c in ast.walk(l))), None)
        tests = [U(n.test) for n in ast.walk(loop) if isinstance(n, ast.If)] if loop is not None else []
        excludes_all = any(f'isinstance({var}, StubElement)' in t for t in tests) or any(f'{var}.is_stub' in t and (f'{var}.is_null' in t or f'{var} is NULL' in t) for t in tests)
        only_null = any(t in (f'{var} is NULL', f'{var}.is_null') for t in tests)
        if excludes_all:
            ctx.check('C14.X6', True, dmx, queue[0], 'stub and NULL references are skipped by the pre-pass', func=f'Element.{fname}', text=f'{fname}: stubs not queued')
        elif only_null:
            ctx.check('C14.X6', False, dmx, queue[0], f'the pre-pass of {fname} only skips NULL: a stub reference is queued and written out as an ordinary (empty) element, so after parsing the reference '
                      'points at that element and is no longer a stub', func=f'Element.{fname}', text=f'{fname}: stubs not queued')
        else:
            ctx.shape('C14.X6', False, dmx, queue[0], f'guard around the element queue not recognised: {tests}', func=f'Element.{fname}', text=f'{fname}: stubs not queued')
    # ---- X7 ------------------------------------------------------------------------------------------------
    loop = [n for n in walk_no_nested(eb) if isinstance(n, ast.For) and isinstance(n.iter, ast.Call) and isinstance(n.iter.func, ast.Attribute) and n.iter.func.attr == 'values' and isinstance(n.iter.func.value, ast.Name)]
    loop = [l for l in loop if any(isinstance(c, ast.Call) and dotted(c.func) == 'pack' for c in ast.walk(l))]
    if not loop:
        # the attributes may be filtered into a list first, which is then counted with len() and iterated: one criterion by construction
        pre = [l for l in walk_no_nested(eb) if isinstance(l, ast.For) and isinstance(l.iter, ast.Name) and any(isinstance(c, ast.Call) and dotted(c.func) == 'pack' for c in ast.walk(l))
               and any(isinstance(a, ast.Assign) and dotted(a.targets[0]) == l.iter.id and isinstance(a.value, ast.ListComp) and isinstance(a.value.generators[0].iter, ast.Call)
                       and isinstance(a.value.generators[0].iter.func, ast.Attribute) and a.value.generators[0].iter.func.attr == 'values' for a in walk_no_nested(eb))]
        if len(pre) == 1:
            lst_name = pre[0].iter.id
            counted = any(isinstance(c, ast.Call) and dotted(c.func) == 'pack' and any(isinstance(a, ast.Call) and dotted(a.func) == 'len' and a.args and dotted(a.args[0]) == lst_name for a in c.args[1:]) for c in walk_no_nested(eb))
            ctx.check('C14.X7', counted, dmx, pre[0], f'export_binary iterates the pre-filtered list `{lst_name}`; the attribute count written must be len({lst_name})', func='Element.export_binary', text='attribute count criterion = skip criterion')
            loop = None
    if loop is not None and len(loop) != 1:
        raise AnalysisError('export_binary: attribute writing loop not found')
    if loop is not None:
        # the attribute count: the local that is packed in the statements right in front of that loop
        holder = eb_parent_body = None
        par_l = dmx.parents.get(loop[0])
        for fld_ in ('body', 'orelse'):
            seq_ = getattr(par_l, fld_, None)
            if isinstance(seq_, list) and loop[0] in seq_:
                eb_parent_body = seq_[:seq_.index(loop[0])]
        cnt_names = [a.id for st_ in (eb_parent_body or []) for c in ast.walk(st_) if isinstance(c, ast.Call) and dotted(c.func) == 'pack' for a in c.args[1:] if isinstance(a, ast.Name)]
        cnt = [n for n in walk_no_nested(eb) if isinstance(n, ast.Assign) and isinstance(n.targets[0], ast.Name) and cnt_names and n.targets[0].id == cnt_names[-1]]
        if len(cnt) != 1:
            raise AnalysisError('export_binary: attr_count computation not found')
        skip = [s for s in loop[0].body if isinstance(s, ast.If) and any(isinstance(x, ast.Continue) for x in s.body)]
        if len(skip) != 1:
            raise AnalysisError('export_binary: the name-attribute skip was not found')
        skip_src = U(skip[0].test)
        cnt_src = U(cnt[0].value)
        adj = [n for n in walk_no_nested(eb) if isinstance(n, ast.If) and any(isinstance(s, ast.AugAssign) and cnt and dotted(s.target) == cnt[0].targets[0].id for s in n.body)]
        folded_skip = 'casefold()' in skip_src
        if adj:
            adj_src = U(adj[0].test)
            folded_cnt = "in elem._members" in adj_src or 'casefold()' in adj_src
            same = folded_cnt == folded_skip
            detail = f'the count drops one when `{adj_src}` (case-insensitive key) but the loop skips when `{skip_src}` (exact spelling): an attribute spelled e.g. "Name" is counted out yet written'
        else:
            same = skip_src.replace(' ', '') in cnt_src.replace(' ', '').replace('!=', '==') or ('!=' in cnt_src and skip_src.replace('==', '!=') in cnt_src)
            detail = f'count `{cnt_src}` vs skip `{skip_src}`'
        ctx.check('C14.X7', same, dmx, cnt[0], detail, func='Element.export_binary', text='attribute count criterion = skip criterion')
    # ---- X8 ------------------------------------------------------------------------------------------------
    fk, tk = em['from_kv1'], em['to_kv1']
    fsrc, tsrc = U(fk), U(tk)
    produced = {a.id for c in ast.walk(fk) if isinstance(c, ast.Call) and dotted(c.func) == 'cls' for a in c.args[1:2] if isinstance(a, ast.Name) and a.id.startswith('NAME_KV1')}
    dispatched = {n.comparators[0].id for n in ast.walk(tk) if isinstance(n, ast.Compare) and dotted(n.left) == 'self.type' and isinstance(n.comparators[0], ast.Name)}
    if not produced or not dispatched:
        ctx.shape('C14.X8', False, dmx, tk, 'KV1 element type constants not found', func='Element.to_kv1', text='KV1 type names both ways')
    for const in sorted(produced | dispatched):
        ctx.check('C14.X8', const in produced and const in dispatched, dmx, tk, f'{const} is ' + ('produced by from_kv1 but to_kv1 has no branch for it' if const in produced else 'dispatched on by to_kv1 but never produced by from_kv1'),
                  func='Element.to_kv1', text=f'{const} both ways')
    vals = {fold.global_(c) for c in ('NAME_KV1_LEAF', 'NAME_KV1', 'NAME_KV1_ROOT')}
    ctx.check('C14.X8', len(vals) == 3, dmx, dmx.global_assign('NAME_KV1'), 'the three KV1 element type names must be distinct', func='<module>', text='type names distinct')
    ok = "elem['value'] = props.value" in fsrc and "self['value'].val_str" in tsrc
    ctx.shape('C14.X8', ok, dmx, tk, 'leaf value stored under and read from the `value` attribute', func='Element.to_kv1', text='leaf value key')
    reserved = [n for n in ast.walk(fk) if isinstance(n, ast.Compare) and isinstance(n.ops[0], ast.In) and isinstance(n.comparators[0], ast.Set)]
    rset = {e.value for e in reserved[0].comparators[0].elts} if reserved else set()
    special = {n.comparators[0].value for n in ast.walk(tk) if isinstance(n, ast.Compare) and dotted(n.left) == 'attr.name' and isinstance(n.comparators[0], ast.Constant)}
    ctx.check('C14.X8', rset == special and bool(rset), dmx, fk, f'from_kv1 reserves {sorted(rset)} but to_kv1 treats {sorted(special)} specially', func='Element.from_kv1', text='reserved names agree')
    # Element keys are case-insensitive (Element.__setitem__ folds), so reserved / duplicate tests must use the folded Keyvalues.name
    kvm = prog.module('keyvalues').methods('Keyvalues')
    folded_prop = 'name' in kvm and '_folded_name' in U(kvm['name'])
    tests = [n for n in ast.walk(fk) if isinstance(n, ast.Compare) and isinstance(n.ops[0], (ast.In, ast.NotIn)) and isinstance(n.left, ast.Attribute) and dotted(n.left.value) == 'child']
    if len(tests) < 2 or not folded_prop:
        raise AnalysisError('from_kv1: reserved-name / duplicate membership tests not found')
    for t in tests:
        ctx.check('C14.X8', t.left.attr == 'name', dmx, t, f'`{U(t)}` tests the original spelling: Element attribute keys are case-insensitive, so a leaf spelt "Name" is inlined over the element\'s own name attribute',
                  func='Element.from_kv1', text=f'membership test on folded name: {U(t.comparators[0])[:30]}')
    ok = "elem['subkeys'] = subkeys = Attribute.array('subkeys', ValueType.ELEMENT)" in fsrc and 'subkeys.iter_elem()' in tsrc
    ctx.shape('C14.X8', ok, dmx, fk, 'nested blocks travel in the `subkeys` element array', func='Element.from_kv1', text='subkeys array')


MUTANTS: List[Dict[str, Any]] = [
    {'id': 'kv2_self_reference_not_counted', 'file': 'dmx.py', 'find': "                    if isinstance(subelem, StubElement):\n                        continue\n                    if subelem.uuid not in use_count:", 'replace': "                    if isinstance(subelem, StubElement) or subelem is elem:\n                        continue\n                    if subelem.uuid not in use_count:", 'expect': 'C14.X22', 'note': 'round 14'},
    {'id': 'element_name_encoded_lossily', 'file': 'dmx.py', 'find': "                file.write(elem.name.encode(encoding) + b'\\0')", 'replace': "                file.write(elem.name.encode(encoding, 'replace') + b'\\0')", 'expect': 'C14.X20', 'note': 'round 13'},
    {'id': 'kv2_fixup_try_around_loop', 'file': 'dmx.py', 'find': "        for attr, index, uuid, line_num in fixups:\n            try:\n                elem = id_to_elem[uuid]\n            except KeyError:\n                continue  # It'll be a stub element.\n            if index is None:\n                attr._value = elem\n            else:\n                attr._value[index] = elem\n", 'replace': "        try:\n            for attr, index, uuid, line_num in fixups:\n                elem = id_to_elem[uuid]\n                if index is None:\n                    attr._value = elem\n                else:\n                    attr._value[index] = elem\n        except KeyError:\n            pass\n", 'expect': 'C14.X19', 'note': 'round 12'},
    {'id': 'time_decoded_by_reciprocal', 'file': 'dmx.py', 'find': "    return Time(num / 10000.0)", 'replace': "    return Time(num * 1e-4)", 'expect': 'C14.X4', 'note': 'round 12'},
    {'id': 'null_compared_by_value', 'file': 'dmx.py', 'find': "                        if subelem is NULL:  # It's a singleton.", 'replace': "                        if subelem == NULL:", 'expect': 'C14.X17', 'note': 'round 11'},
    {'id': 'uuid_version_forced', 'file': 'dmx.py', 'find': "                            uuid = UUID(binformat.read_nullstr(file))", 'replace': "                            uuid = UUID(binformat.read_nullstr(file), version=4)", 'expect': 'C14.X18', 'note': 'round 11'},
    {'id': 'header_end_found_from_the_right', 'file': 'dmx.py', 'find': "            header_len = header.find(b'-->', -260)", 'replace': "            header_len = header.rfind(b'-->')", 'expect': 'C14.X16'},
    {'id': 'element_indexes_read_in_one_block', 'file': 'dmx.py', 'find': "                    for _ in array_iter:\n                        [ind] = binformat.struct_read('<i', file)\n", 'replace': "                    elem_count = 1 if array_size is None else array_size\n                    for ind in binformat.struct_read(f'<{elem_count}i', file):\n", 'expect': 'C14.X3'},
    {'id': 'string_array_joined_with_terminator', 'file': 'dmx.py', 'find': "                        for text in attr.iter_string():\n                            file.write(text.encode(encoding) + b'\\0')\n", 'replace': "                        file.write(('\\0'.join(attr.iter_string()) + '\\0').encode(encoding))\n", 'expect': 'C14.X3'},
    {'id': 'kv2_name_line_only_when_named', 'file': 'dmx.py', 'find': "        file.write(b'%b\"name\" \"string\" \"%b\"\\r\\n' % (indent_child, escape_text(self.name).encode(encoding)))", 'replace': "        if self.name:\n            file.write(b'%b\"name\" \"string\" \"%b\"\\r\\n' % (indent_child, escape_text(self.name).encode(encoding)))", 'expect': 'C14.X14'},
    {'id': 'kv2_scalar_reference_without_stub', 'file': 'dmx.py', 'find': "                    attr.val_elem = stubs.setdefault(uuid, StubElement.stub(uuid))\n", 'replace': "", 'expect': 'C14.X12'},
    {'id': 'time_refused_at_v3', 'file': 'dmx.py', 'find': "                if attr.type is ValueType.TIME and version < 3:", 'replace': "                if attr.type is ValueType.TIME and version <= 3:", 'expect': 'C14.X2'},
    {'id': 'ok_time_gate_le_2', 'file': 'dmx.py', 'find': "                if attr.type is ValueType.TIME and version < 3:", 'replace': "                if attr.type is ValueType.TIME and version <= 2:", 'expect': None},
    {'id': 'kv2_array_null_by_id', 'file': 'dmx.py', 'find': "                        if child.is_null:\n                            file.write(b'\"element\" \"\"')\n                        elif child.uuid in roots or child.is_stub:", 'replace': "                        if child.uuid in roots or isinstance(child, StubElement):", 'expect': 'C14.X11'},
    {'id': 'ok_kv2_array_null_by_identity', 'file': 'dmx.py', 'find': "                        if child.is_null:\n                            file.write(b'\"element\" \"\"')\n                        elif child.uuid in roots or child.is_stub:", 'replace': "                        if child is NULL:\n                            file.write(b'\"element\" \"\"')\n                        elif isinstance(child, StubElement) or child.uuid in roots:", 'expect': None},
    {'id': 'vec4_text_six_significant_digits', 'file': 'dmx.py', 'find': "    return f'{_fmt_float(v.x)} {_fmt_float(v.y)} {_fmt_float(v.z)} {_fmt_float(v.w)}'", 'replace': "    return f'{v.x:.6g} {v.y:.6g} {v.z:.6g} {v.w:.6g}'", 'expect': 'C14.X10'},
    {'id': 'root_index_zero_taken_for_missing', 'file': 'dmx.py', 'find': "                        if not isinstance(subelem, StubElement) and subelem.uuid not in elem_to_ind:", 'replace': "                        if not isinstance(subelem, StubElement) and not elem_to_ind.get(subelem.uuid):", 'expect': 'C14.X9'},
    {'id': 'matrix_text_rows_are_columns', 'file': 'dmx.py', 'find': "    return (\n        f'{mat[0, 0]} {mat[0, 1]} {mat[0, 2]} 0.0\\n'\n        f'{mat[1, 0]} {mat[1, 1]} {mat[1, 2]} 0.0\\n'\n        f'{mat[2, 0]} {mat[2, 1]} {mat[2, 2]} 0.0\\n'\n        '0.0 0.0 0.0 1.0'\n    )", 'replace': "    rows = [' '.join([str(mat[x, y]) for x in range(3)]) + ' 0.0' for y in range(3)]\n    rows.append('0.0 0.0 0.0 1.0')\n    return '\\n'.join(rows)", 'expect': 'C14.X4'},
    {'id': 'matrix_text_rows_by_comprehension', 'file': 'dmx.py', 'find': "    return (\n        f'{mat[0, 0]} {mat[0, 1]} {mat[0, 2]} 0.0\\n'\n        f'{mat[1, 0]} {mat[1, 1]} {mat[1, 2]} 0.0\\n'\n        f'{mat[2, 0]} {mat[2, 1]} {mat[2, 2]} 0.0\\n'\n        '0.0 0.0 0.0 1.0'\n    )", 'replace': "    rows = [' '.join([str(mat[y, x]) for x in range(3)]) + ' 0.0' for y in range(3)]\n    rows.append('0.0 0.0 0.0 1.0')\n    return '\\n'.join(rows)", 'expect': None},
    {'id': 'array_code_ge', 'file': 'dmx.py', 'find': "                if attr_type_data > ARRAY_OFFSET:", 'replace': "                if attr_type_data >= ARRAY_OFFSET:", 'expect': 'C14.X1'},
    {'id': 'array_offset_13', 'file': 'dmx.py', 'find': "ARRAY_OFFSET: Final = 14", 'replace': "ARRAY_OFFSET: Final = 13", 'expect': 'C14.X1'},
    {'id': 'array_offset_16_ok', 'file': 'dmx.py', 'find': "ARRAY_OFFSET: Final = 14", 'replace': "ARRAY_OFFSET: Final = 16", 'expect': None, 'note': 'negative control: a different but still bijective code layout'},
    {'id': 'v4_index_width_writer', 'file': 'dmx.py', 'find': "        elif version >= 4:\n            stringdb_size = '<i'\n            stringdb_ind = '<h'\n        elif version >= 2:\n            stringdb_size = stringdb_ind = '<h'\n        else:\n            stringdb_size = stringdb_ind = None", 'replace': "        elif version >= 4:\n            stringdb_size = '<i'\n            stringdb_ind = '<i'\n        elif version >= 2:\n            stringdb_size = stringdb_ind = '<h'\n        else:\n            stringdb_size = stringdb_ind = None", 'expect': 'C14.X2'},
    {'id': 'stub_uuid_dropped', 'file': 'dmx.py', 'find': "                            file.write(str(subelem.uuid).encode('ascii') + b'\\0')\n", 'replace': "", 'expect': 'C14.X3'},
    {'id': 'string_array_ascii', 'file': 'dmx.py', 'find': "binformat.read_nullstr_array(file, array_size, encoding)", 'replace': "binformat.read_nullstr_array(file, array_size)", 'expect': 'C14.X3'},
    {'id': 'binary_len_short', 'file': 'dmx.py', 'find': "                    for bin_data in attr.iter_binary():\n                        file.write(pack('<i', len(bin_data)))", 'replace': "                    for bin_data in attr.iter_binary():\n                        file.write(pack('<h', len(bin_data)))", 'expect': 'C14.X3'},
    {'id': 'scalar_string_v4_raw', 'file': 'dmx.py', 'find': "                    if version >= 4 and not attr.is_array:\n                        assert stringdb_ind is not None\n                        file.write(pack(stringdb_ind, string_to_ind[attr.val_str]))", 'replace': "                    if version >= 5 and not attr.is_array:\n                        assert stringdb_ind is not None\n                        file.write(pack(stringdb_ind, string_to_ind[attr.val_str]))", 'expect': 'C14.X3'},
    {'id': 'uuid_be', 'file': 'dmx.py', 'find': "            file.write(elem.uuid.bytes_le)", 'replace': "            file.write(elem.uuid.bytes_le[:12])", 'expect': None, 'note': 'unrecognised written value -> analysis error, not a verdict', 'skip': True},
    {'id': 'time_struct_mismatch', 'file': 'dmx.py', 'find': "    [num] = _struct_time.unpack(byt)", 'replace': "    [num] = _struct_integer.unpack(byt)", 'expect': 'C14.X4'},
    {'id': 'matrix_cell_shift', 'file': 'dmx.py', 'find': "    data = _struct_matrix.unpack(byt)\n    mat = Matrix()\n    mat[0, 0], mat[0, 1], mat[0, 2] = data[0:3]\n    mat[1, 0], mat[1, 1], mat[1, 2] = data[4:7]", 'replace': "    data = _struct_matrix.unpack(byt)\n    mat = Matrix()\n    mat[0, 0], mat[0, 1], mat[0, 2] = data[0:3]\n    mat[1, 0], mat[1, 1], mat[1, 2] = data[3:6]", 'expect': 'C14.X4'},
    {'id': 'color_3B', 'file': 'dmx.py', 'find': "_binconv_cls('color', '<4B', Color)", 'replace': "_binconv_cls('color', '<3B', Color)", 'expect': 'C14.X4'},
    {'id': 'kv2_attr_name_raw', 'file': 'dmx.py', 'find': "                escape_text(attr.name).encode(encoding),", 'replace': "                attr.name.encode(encoding),", 'expect': 'C14.X5'},
    {'id': 'kv2_value_raw', 'file': 'dmx.py', 'find': "                    escape_text(attr.val_str).encode(encoding),", 'replace': "                    attr.val_str.encode(encoding),", 'expect': 'C14.X5'},
    {'id': 'kv2_reader_no_escapes', 'file': 'dmx.py', 'find': "        tok = Tokenizer(file, allow_escapes=True)\n        for token, tok_value in tok:\n            if token is Token.STRING:\n                elem_name = tok_value", 'replace': "        tok = Tokenizer(file, allow_escapes=False)\n        for token, tok_value in tok:\n            if token is Token.STRING:\n                elem_name = tok_value", 'expect': 'C14.X5'},
    {'id': 'kv2_keyword_changed', 'file': 'dmx.py', 'find': "            if attr_name == 'id' and typ_name == 'elementid':", 'replace': "            if attr_name == 'id' and typ_name == 'element_id':", 'expect': 'C14.X5'},
    {'id': 'kv2_stub_queued', 'file': 'dmx.py', 'find': "                for subelem in attr.iter_elem():\n                    if isinstance(subelem, StubElement):\n                        continue", 'replace': "                for subelem in attr.iter_elem():\n                    if subelem is NULL:\n                        continue", 'expect': 'C14.X6'},
    {'id': 'stub_defaultdict', 'file': 'dmx.py', 'find': "        stubs: dict[UUID, StubElement] = {}\n\n        elements = []", 'replace': "        stubs: dict[UUID, StubElement] = collections.defaultdict(StubElement.stub)\n\n        elements = []", 'expect': 'C14.X6'},
    {'id': 'stub_no_uuid', 'file': 'dmx.py', 'find': "                                child_elem = stubs[uuid] = StubElement.stub(uuid)", 'replace': "                                child_elem = stubs[uuid] = StubElement.stub()", 'expect': 'C14.X6'},
    {'id': 'count_by_folded_key', 'file': 'dmx.py', 'find': "            attr_count = sum(1 for attr in elem.values() if attr.name != 'name')\n", 'replace': "            attr_count = len(elem)\n            if 'name' in elem._members:\n                attr_count -= 1\n", 'expect': 'C14.X7'},
    {'id': 'kv1_reserved_set', 'file': 'dmx.py', 'find': "                if child.name in {'name', 'subkeys'}:", 'replace': "                if child.name in {'name'}:", 'expect': 'C14.X8'},
    {'id': 'kv1_reserved_real_name', 'file': 'dmx.py', 'find': "                if child.name in {'name', 'subkeys'}:", 'replace': "                if child.real_name in {'name', 'subkeys'}:", 'expect': 'C14.X8'},
    {'id': 'time_trunc', 'file': 'dmx.py', 'find': "    return _struct_time.pack(round(tim.value * 10000.0))", 'replace': "    return _struct_time.pack(int(tim.value * 10000.0 + 0.5))", 'expect': 'C14.X4'},
    {'id': 'time_scale', 'file': 'dmx.py', 'find': "    return Time(num / 10000.0)", 'replace': "    return Time(num / 1000.0)", 'expect': 'C14.X4'},
    {'id': 'kv1_leaf_type', 'file': 'dmx.py', 'find': "        if self.type == NAME_KV1_LEAF:\n            return Keyvalues(self.name, self['value'].val_str)", 'replace': "        if self.type == NAME_KV1:\n            return Keyvalues(self.name, self['value'].val_str)", 'expect': 'C14.X8'},
]
MUTANTS = [m for m in MUTANTS if not m.get('skip')]
