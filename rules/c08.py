"""C08 - IDs unique per kind, positive, not reused while live (DESIGN.md C08).

  D1  allocator shape (IDMan.get_id): every returned value was added to _used on that path and tested free;
      `desired` is returned only under `desired > 0`; the search starts at search_pos and only increases;
      search_pos is written only by __init__/clear (1), get_id (poss_id + 1) and discard/remove (guarded lowering).
  D2  who-may-write: _used is mutated only inside IDMan/NullIDMan; `.id` of Entity/Solid/Side/VisGroup/EntityGroup is
      assigned only from `<map>.<manager>.get_id(...)` in the constructor (package-wide scan of `.id =` stores).
  D3  manager pairing: acquire and release of one class use the same manager attribute; `.map`/`.vmf` is not re-assigned.
  D4  release typestate: an object's ID is handed back to its manager only in that object's __del__; any other release
      (while the object stays reachable and re-addable) permits two live objects with one ID.  Node IDs (a keyvalue,
      not object identity) are released in remove_ent/__setitem__/__delitem__ and re-acquired in add_ent/add_ents.
  D5  fixup indexes: EntityFixup.__init__ keeps an index only if unused and routes duplicates through __setitem__, which
      picks the lowest index >= 1 not in the current index set; copies keep indexes.
"""
from __future__ import annotations

import ast
from typing import Any, Dict, List, Optional, Set, Tuple

from engine.srcmatch import U
from engine.model import AnalysisError, Program, dotted, walk_no_nested

LEVEL = 'other'

MANAGERS = {'Solid': 'solid_id', 'Side': 'face_id', 'Entity': 'ent_id', 'EntityGroup': 'group_id', 'VisGroup': 'vis_id'}
MAP_ATTR = {'Solid': 'map', 'Side': 'map', 'Entity': 'map', 'EntityGroup': 'vmf', 'VisGroup': 'vmf'}
ALL_MGRS = set(MANAGERS.values()) | {'node_id'}


def mgr_call(n: ast.AST) -> Optional[tuple]:
    """(manager attr, method, call) for `<...>.<mgr>.<method>(...)`."""
    if isinstance(n, ast.Call) and isinstance(n.func, ast.Attribute) and isinstance(n.func.value, ast.Attribute) \
            and n.func.value.attr in ALL_MGRS and n.func.attr in ('get_id', 'discard', 'remove', 'clear', 'add'):
        return n.func.value.attr, n.func.attr, n
    return None


def _anc08(mod: Any, n: ast.AST, stop: Any) -> List[ast.AST]:
    out = []
    p = mod.parents.get(n)
    while p is not None and p is not stop:
        out.append(p)
        p = mod.parents.get(p)
    return out


def run(ctx: Any, prog: Program) -> None:
    vm = prog.module('vmf')
    ctx.not_decided += ['garbage-collection timing of __del__', 'parsing of replaceNN names',
                        'objects created for one map and added to another (documented as unsupported)',
                        ]
    ctx.rule('C08.D1', 'IDMan.get_id returns only values it has just reserved; desired ids must be positive; search_pos discipline', floor=8)
    ctx.rule('C08.D2', '_used is private to the managers; object ids are assigned only from get_id in constructors', floor=8)
    # per-object state that methods change in place must not be a class-level container shared by every instance (see engine.model)
    from engine.model import shared_mutable_class_attrs as _smca
    for _m in (vm,):
        _hits = _smca(_m.tree, [c.name for c in _m.tree.body if isinstance(c, ast.ClassDef)])
        for _cn, _attr, _st in _hits:
            ctx.check('C08.D2', False, _m, _st, f'{_cn}.{_attr} is a class-level container (`{U(_st.value)[:30]}`) that methods change in place and no __init__ assigns: all {_cn} objects share it, so ids or indexes recorded for one map leak into every other map',
                      func=_cn, text=f'{_cn}.{_attr} is per-object state')
        ctx.check('C08.D2', True, _m, _m.tree, f'{len(_hits)} shared class-level containers in {_m.relpath}', func='<module>', text=f'{_m.relpath}: class-level containers examined')
    ctx.rule('C08.D3', 'each class acquires and releases through its own manager; map reference never re-assigned', floor=8)
    ctx.rule('C08.D4', 'object ids are released only in __del__; node ids released on removal are re-acquired on add', floor=6)
    ctx.rule('C08.D5', 'fixup indexes: lowest unused index >= 1, duplicates re-indexed, copies keep indexes', floor=4)

    # ---- D1 --------------------------------------------------------------------------------------------
    gi = vm.func('IDMan.get_id')
    params = [a.arg for a in gi.args.args]
    desired = params[1] if len(params) > 1 else None
    rets = [n for n in walk_no_nested(gi) if isinstance(n, ast.Return)]
    if not rets:
        raise AnalysisError('IDMan.get_id has no return')
    for r in rets:
        if not isinstance(r.value, ast.Name):
            ctx.check('C08.D1', False, vm, r, 'get_id must return a plain variable that was reserved', text='return ' + U(r.value) if r.value else 'return')
            continue
        var = r.value.id
        # the enclosing block must contain self._used.add(var) before the return
        blk = None
        p = vm.parents.get(r)
        for field in ('body', 'orelse'):
            if isinstance(getattr(p, field, None), list) and r in getattr(p, field):
                blk = getattr(p, field)
        added = False
        if blk is not None:
            for st in blk[:blk.index(r)]:
                for c in ast.walk(st):
                    if isinstance(c, ast.Call) and dotted(c.func) == 'self._used.add' and len(c.args) == 1 and dotted(c.args[0]) == var:
                        added = True
        ctx.check('C08.D1', added, vm, r, f'`return {var}` is not preceded in its block by self._used.add({var}): the id would be handed out again', text=f'return {var} reserved')
        # guard: tested as free
        guard = U(p.test) if isinstance(p, ast.If) else ''
        free = (f'{var} not in self' in guard) or (f'{var} not in self._used' in guard)
        if not free and blk is not None:
            # `while var in self: var += 1` before the return: the loop can only be left with var free
            for st in blk[:blk.index(r)]:
                if isinstance(st, ast.While) and U(st.test) in (f'{var} in self', f'{var} in self._used') and not any(isinstance(x, ast.Break) for x in ast.walk(st)):
                    free = True
                    guard = 'exit of `while ' + U(st.test) + '`'
        if free:
            ctx.check('C08.D1', True, vm, r, f'`return {var}` is reached only with {var} free ({guard})', text=f'return {var} tested free')
        else:
            tests_var = any(isinstance(n, ast.Compare) and isinstance(n.ops[0], (ast.In, ast.NotIn)) and dotted(n.left) == var and (dotted(n.comparators[0]) or '').startswith('self') for n in ast.walk(gi))
            # a value assigned in this very block and returned without any membership test in between is definitely untested
            fresh_def = None
            if blk is not None:
                for st in blk[:blk.index(r)]:
                    if isinstance(st, ast.Assign) and any(dotted(t) == var for t in st.targets):
                        fresh_def = st
            tested_between = fresh_def is not None and any(isinstance(n, ast.Compare) and isinstance(n.ops[0], (ast.In, ast.NotIn)) and dotted(n.left) == var
                                                             for st in blk[blk.index(fresh_def) + 1:blk.index(r)] for n in ast.walk(st))
            if fresh_def is not None and not tested_between:
                ctx.check('C08.D1', False, vm, r, f'`{U(fresh_def)}` is returned without being tested against the ids in use (guard of the block: `{guard}`): an id that was re-acquired explicitly in the meantime is handed out a second time',
                          text=f'return {var} tested free')
            elif tests_var:
                ctx.shape('C08.D1', False, vm, r, f'how `return {var}` is guarded by the membership test is not recognised (guard: `{guard}`)', text=f'return {var} tested free')
            else:
                ctx.check('C08.D1', False, vm, r, f'`return {var}` is never tested against the ids in use: an id that is still live can be handed out again', text=f'return {var} tested free')
        if var == desired:
            ctx.check('C08.D1', f'{var} > 0' in guard, vm, r, f'a caller-supplied id may only be used when positive (guard: `{guard}`)', text='desired id positive')
    # search variable starts at search_pos and only increases
    inits = [n for n in walk_no_nested(gi) if isinstance(n, ast.Assign) and isinstance(n.targets[0], ast.Name) and n.targets[0].id != desired]
    search_vars = {n.targets[0].id for n in inits if dotted(n.value) == 'self.search_pos'}
    # `for x in itertools.count(self.search_pos)` is the same search: starts there, steps by one
    for lp in walk_no_nested(gi):
        if isinstance(lp, ast.For) and isinstance(lp.target, ast.Name) and isinstance(lp.iter, ast.Call) and (dotted(lp.iter.func) or '').split('.')[-1] == 'count' and lp.iter.args \
                and dotted(lp.iter.args[0]) == 'self.search_pos' and (len(lp.iter.args) == 1 or (isinstance(lp.iter.args[1], ast.Constant) and lp.iter.args[1].value == 1)) and not lp.iter.keywords:
            search_vars.add(lp.target.id)
    # (where the search starts is a matter of speed, not of uniqueness: every candidate is tested; an unrecognised search is declined)
    ctx.shape('C08.D1', len(search_vars) == 1, vm, gi, 'the search variable starts from self.search_pos (assignment or itertools.count)', text='search starts at search_pos')
    for n in walk_no_nested(gi):
        if isinstance(n, ast.AugAssign) and isinstance(n.target, ast.Name) and n.target.id in search_vars:
            ok = isinstance(n.op, ast.Add) and isinstance(n.value, ast.Constant) and n.value.value == 1
            ctx.check('C08.D1', ok, vm, n, 'the search variable may only be incremented by one')
    for qual in ('IDMan.__init__', 'IDMan.clear', 'IDMan.get_id', 'IDMan.discard', 'IDMan.remove', 'NullIDMan.get_id'):
        fn = vm.func(qual)
        for n in walk_no_nested(fn):
            if isinstance(n, (ast.Assign, ast.AugAssign)) and any(dotted(t) == 'self.search_pos' for t in (n.targets if isinstance(n, ast.Assign) else [n.target])):
                name = qual.split('.')[-1]
                v = n.value
                if name in ('__init__', 'clear'):
                    ok = isinstance(v, ast.Constant) and v.value == 1
                    why = 'must reset to 1'
                elif name == 'get_id':
                    ok = isinstance(v, ast.BinOp) and isinstance(v.op, ast.Add) and dotted(v.left) in search_vars and isinstance(v.right, ast.Constant) and v.right.value == 1 \
                        and qual.startswith('IDMan')
                    why = 'must be set to the returned id + 1'
                else:
                    vn = v.id if isinstance(v, ast.Name) else '?'
                    # what the enclosing tests (in whatever nesting / chaining) establish about the value: below search_pos, positive
                    facts_: Set[str] = set()
                    ch_: ast.AST = n
                    an_ = vm.parents.get(ch_)
                    while an_ is not None and an_ is not fn:
                        if isinstance(an_, ast.If) and any(ch_ is b_ for b_ in an_.body):
                            for cj_ in (an_.test.values if isinstance(an_.test, ast.BoolOp) and isinstance(an_.test.op, ast.And) else [an_.test]):
                                if isinstance(cj_, ast.Compare):
                                    seq_ = [cj_.left] + list(cj_.comparators)
                                    for i_, op_ in enumerate(cj_.ops):
                                        l_, r_ = seq_[i_], seq_[i_ + 1]
                                        ls_, rs_ = (dotted(l_) or U(l_)), (dotted(r_) or U(r_))
                                        if (isinstance(op_, ast.Lt) and ls_ == vn and rs_ == 'self.search_pos') or (isinstance(op_, ast.Gt) and ls_ == 'self.search_pos' and rs_ == vn):
                                            facts_.add('below')
                                        if (isinstance(op_, ast.Lt) and ls_ == '0' and rs_ == vn) or (isinstance(op_, ast.Gt) and ls_ == vn and rs_ == '0') \
                                                or (isinstance(op_, ast.LtE) and ls_ == '1' and rs_ == vn) or (isinstance(op_, ast.GtE) and ls_ == vn and rs_ == '1'):
                                            facts_.add('positive')
                        ch_, an_ = an_, vm.parents.get(an_)
                    below = 'below' in facts_
                    positive = 'positive' in facts_ or any(isinstance(c, ast.Call) and isinstance(c.func, ast.Attribute) and c.func.attr == 'remove' and dotted(c.func.value) == 'self._used'
                                                                     and c.args and dotted(c.args[0]) == vn and c.lineno < n.lineno for c in ast.walk(fn))
                    ok = isinstance(v, ast.Name) and below and positive
                    why = 'may only be lowered to a released id that is below it' if not below else \
                        (f'`{vn}` may be zero or negative here (discard() accepts any value, e.g. a "no id" sentinel): the search then starts below 1 and get_id() hands out 0 or a negative id; '
                         'the lowering must require a positive value')
                ctx.check('C08.D1', ok, vm, n, f'search_pos write in {qual}: {why}', func=qual)
    # ---- D2 --------------------------------------------------------------------------------------------
    for modname in prog.module_names():
        mod = prog.module(modname)
        for qual, fns in mod.all_funcs().items():
            for fn in fns:
                in_mgr = modname == 'vmf' and qual.split('.')[0] in ('IDMan', 'NullIDMan')
                for n in walk_no_nested(fn):
                    # _used mutation
                    hit = False
                    if isinstance(n, ast.Call) and isinstance(n.func, ast.Attribute) and isinstance(n.func.value, ast.Attribute) and n.func.value.attr == '_used' \
                            and n.func.attr in ('add', 'discard', 'remove', 'clear', 'update', 'pop', 'difference_update', 'intersection_update'):
                        hit = True
                    if isinstance(n, ast.Assign) and any(isinstance(t, ast.Attribute) and t.attr == '_used' for t in n.targets):
                        hit = True
                    if hit and (modname == 'vmf' or '_used' in mod.text and 'IDMan' in mod.text):
                        ctx.check('C08.D2', in_mgr, mod, n, 'the set of used ids is mutated outside IDMan/NullIDMan', func=qual)
        if modname != 'vmf':
            continue
    for cname, mgr in MANAGERS.items():
        ctor = '__init__' if cname in ('Entity', 'Side') else '__attrs_post_init__'
        for mname, fn in vm.methods(cname).items():
            for n in walk_no_nested(fn):
                if isinstance(n, (ast.Assign, ast.AugAssign)):
                    tgts = n.targets if isinstance(n, ast.Assign) else [n.target]
                    if any(dotted(t) == 'self.id' for t in tgts):
                        mc = mgr_call(n.value) if isinstance(n, ast.Assign) else None
                        ok = mname == ctor and mc is not None and mc[1] == 'get_id' and mc[0] == mgr
                        ctx.check('C08.D2', ok, vm, n, f'{cname}.id must be assigned only in {ctor} from <map>.{mgr}.get_id(...)', func=f'{cname}.{mname}')
    # stores to `<x>.id` anywhere else in the package where x may be a map object
    for modname in ('vmf', 'instancing', 'bsp', 'packlist'):
        mod = prog.module(modname)
        for qual, fns in mod.all_funcs().items():
            for fn in fns:
                for n in walk_no_nested(fn):
                    if isinstance(n, (ast.Assign, ast.AugAssign)):
                        tgts = n.targets if isinstance(n, ast.Assign) else [n.target]
                        for t in tgts:
                            if isinstance(t, ast.Attribute) and t.attr == 'id' and dotted(t) != 'self.id':
                                ctx.check('C08.D2', False, mod, n, f'`{U(t)}` re-assigns an object id outside its constructor (bypasses the id manager)', func=qual)
    # ---- D3 --------------------------------------------------------------------------------------------
    for cname, mgr in MANAGERS.items():
        meths = vm.methods(cname)
        used: Dict[str, Set[str]] = {}
        for mname, fn in meths.items():
            for n in walk_no_nested(fn):
                mc = mgr_call(n)
                if mc and mc[0] != 'node_id':
                    used.setdefault(mc[1], set()).add(mc[0])
        allm = set().union(*used.values()) if used else set()
        ctx.check('C08.D3', allm == {mgr}, vm, vm.cls(cname), f'{cname} must use only manager {mgr}; uses {sorted(allm)} ({used})', func=cname, text=f'{cname} manager pairing')
        # map reference never re-assigned outside the constructor
        mattr = MAP_ATTR[cname]
        for mname, fn in meths.items():
            for n in walk_no_nested(fn):
                if isinstance(n, ast.Assign) and any(dotted(t) == f'self.{mattr}' for t in n.targets):
                    ctx.check('C08.D3', mname == '__init__', vm, n, f'{cname}.{mattr} re-assigned after construction: release would go to a different manager', func=f'{cname}.{mname}')
    for modname in ('vmf', 'instancing'):
        mod = prog.module(modname)
        for qual, fns in mod.all_funcs().items():
            for fn in fns:
                for n in walk_no_nested(fn):
                    if isinstance(n, ast.Assign):
                        for t in n.targets:
                            if isinstance(t, ast.Attribute) and t.attr in ('map', 'vmf') and not (isinstance(t.value, ast.Name) and t.value.id == 'self'):
                                ctx.check('C08.D3', False, mod, n, f'`{U(t)}` re-parents a map object; its id stays registered with the old map', func=qual)
    # VMF.__init__ gives each manager its own instance, NullIDMan only when preserve_ids
    init = vm.func('VMF.__init__')
    made = {}
    for n in walk_no_nested(init):
        if isinstance(n, ast.Assign) and len(n.targets) == 1 and isinstance(n.targets[0], ast.Attribute) and n.targets[0].attr in ALL_MGRS:
            made[n.targets[0].attr] = U(n.value)
    ctor_names = {v for v in made.values() if v.endswith('()')}
    ok_vals = all(v.endswith('()') or v in {f'self.{m}' for m in ALL_MGRS} for v in made.values())
    ctx.check('C08.D3', set(made) == ALL_MGRS and len(ctor_names) == 1 and ok_vals, vm, init,
              f'VMF.__init__ must give every kind a manager built by the selected manager class (sharing one between kinds is fine); found {made}', text='six managers')
    sel = [n for n in walk_no_nested(init) if isinstance(n, ast.Assign) and isinstance(n.value, ast.IfExp) and 'IDMan' in U(n.value)]
    if len(sel) != 1 or dotted(sel[0].value.test) != 'preserve_ids':
        ctx.shape('C08.D3', False, vm, sel[0] if sel else init, 'manager class selection on preserve_ids not recognised', text='manager class selection')
    else:
        ctx.check('C08.D3', dotted(sel[0].value.body) == 'NullIDMan' and dotted(sel[0].value.orelse) == 'IDMan', vm, sel[0], f'`{U(sel[0].value)}`: the uniqueness-enforcing IDMan must be used unless preserve_ids is set',
                  text='manager class selection')
    # destination map chosen by truthiness (`vmf_file or self.map`): sound only while a VMF object can never be falsy
    vmf_cls = vm.cls('VMF')
    falsy_hooks = [st for st in vmf_cls.body if isinstance(st, ast.FunctionDef) and st.name in ('__len__', '__bool__')]
    n_sel = 0
    for qual, fns in vm.all_funcs().items():
        for fn in fns:
            opt_vmf = {a.arg for a in fn.args.args + fn.args.kwonlyargs if a.annotation is not None and 'VMF' in U(a.annotation)}
            for n in walk_no_nested(fn):
                if isinstance(n, ast.BoolOp) and isinstance(n.op, ast.Or) and isinstance(n.values[0], ast.Name) and n.values[0].id in opt_vmf:
                    n_sel += 1
                    ctx.check('C08.D3', not falsy_hooks, vm, n, f'`{U(n)}` selects the destination map by truthiness, but VMF defines {[h.name for h in falsy_hooks]}: an empty destination map is falsy, '
                              'the copy is created in (and takes its id from) the source map and then collides with ids the destination hands out', func=qual, text=f'{qual}: destination chosen by `or`')
                if isinstance(n, ast.IfExp) and isinstance(n.test, ast.Compare) and isinstance(n.test.left, ast.Name) and n.test.left.id in opt_vmf and isinstance(n.test.ops[0], (ast.Is, ast.IsNot)) \
                        and isinstance(n.test.comparators[0], ast.Constant) and n.test.comparators[0].value is None:
                    n_sel += 1      # explicit None test: independent of VMF truthiness
                    ctx.check('C08.D3', True, vm, n, 'explicit None test', func=qual, text=f'{qual}: destination chosen by `is None`')
    if n_sel < 4:
        ctx.shape('C08.D3', not falsy_hooks, vm, vmf_cls, 'VMF defines __len__/__bool__ and the destination-selection idiom changed: re-confirm how copy() picks its map', func='VMF', text='VMF truthiness')
    # ---- D4 --------------------------------------------------------------------------------------------
    for modname in ('vmf', 'instancing', 'bsp', 'packlist'):
        mod = prog.module(modname)
        for qual, fns in mod.all_funcs().items():
            for fn in fns:
                # a bound method taken into a local (`release = self.map.face_id.discard`) is that manager call under another name
                bound: Dict[str, Tuple[str, str]] = {}
                for a_ in walk_no_nested(fn):
                    if isinstance(a_, ast.Assign) and len(a_.targets) == 1 and isinstance(a_.targets[0], ast.Name) and isinstance(a_.value, ast.Attribute) and isinstance(a_.value.value, ast.Attribute) \
                            and a_.value.value.attr in ALL_MGRS and a_.value.attr in ('discard', 'remove', 'clear'):
                        bound[a_.targets[0].id] = (a_.value.value.attr, a_.value.attr)
                for n in walk_no_nested(fn):
                    mc = mgr_call(n)
                    if mc is None and isinstance(n, ast.Call) and isinstance(n.func, ast.Name) and n.func.id in bound:
                        mc = (bound[n.func.id][0], bound[n.func.id][1], n)
                    if not mc or mc[1] not in ('discard', 'remove', 'clear'):
                        continue
                    mgr, meth, call = mc
                    name = qual.split('.')[-1]
                    if mgr == 'node_id':
                        # ownership: an entity reserves its node id for as long as it has the keyvalue (in the map or not), so only the
                        # entity itself may release it: when the keyvalue changes, is deleted, or the object dies.
                        ok = qual in ('Entity.__setitem__', 'Entity.__delitem__', 'Entity.__del__')
                        ctx.check('C08.D4', ok, mod, n, f'node id released in {qual}: the entity keeps its nodeid keyvalue, so it later releases the same number again (on re-add, re-assignment or '
                                  'deletion) - by then it may belong to another entity, which then shares its id with the next node created', func=qual, text=f'node_id.{meth} in {qual}')
                        continue
                    owner = [c for c, m in MANAGERS.items() if m == mgr][0]
                    arg = U(call.args[0]) if call.args else ''
                    ok = name == '__del__' and qual.split('.')[0] == owner and arg == 'self.id'
                    ctx.check('C08.D4', ok, mod, n,
                              f'{mgr}.{meth}({arg}) in {qual}: an object id may only be released by {owner}.__del__; releasing it while the object is still '
                              'reachable lets the allocator hand the same id to a second live object', func=qual, text=f'{mgr}.{meth}({arg})')
    # acquisition: Entity.__setitem__ releases the old number and reserves the new one itself, so nobody may hand it an already reserved number
    # (`ent['nodeid'] = str(node_id.get_id(n))`): the outer reservation leaks and the inner release may free a number somebody else holds
    n_acq = 0
    for modname in ('vmf', 'instancing'):
        mod = prog.module(modname)
        for qual, fns in mod.all_funcs().items():
            for fn in fns:
                for n in walk_no_nested(fn):
                    mc = mgr_call(n)
                    if not mc or mc[0] != 'node_id' or mc[1] != 'get_id':
                        continue
                    n_acq += 1
                    st = n
                    while st is not None and not isinstance(st, ast.stmt):
                        st = mod.parents.get(st)
                    via_setitem = isinstance(st, ast.Assign) and any(isinstance(t, ast.Subscript) and not (dotted(t.value) or '').endswith('_keys') and isinstance(t.slice, ast.Constant)
                                                                     and str(t.slice.value).casefold() == 'nodeid' for t in st.targets)
                    ctx.check('C08.D4', not via_setitem, mod, n, f'`{U(st)[:80]}` in {qual} reserves a node id and then stores it through Entity.__setitem__, which releases the '
                              'current number (possibly held by another entity by now) and reserves once more', func=qual, text=f'node_id.get_id stored through __setitem__ in {qual}')
    # ... and __setitem__ is the only way a keyvalue gets into an entity: it is the one place a `nodeid` value is reserved, so a bulk store
    # (`self._keys.update(other)`, `self._keys[k] = v` elsewhere) creates an entity that carries a node id nobody reserved
    n_store = 0
    for mname, mfn in vm.methods('Entity').items():
        for n in walk_no_nested(mfn):
            direct = None
            if isinstance(n, ast.Call) and isinstance(n.func, ast.Attribute) and dotted(n.func.value) == 'self._keys' and n.func.attr in ('update', 'setdefault', '__setitem__'):
                direct = n
            elif isinstance(n, (ast.Assign, ast.AugAssign)) and any(isinstance(t, ast.Subscript) and dotted(t.value) == 'self._keys' for t in (n.targets if isinstance(n, ast.Assign) else [n.target])):
                direct = n
            if direct is None:
                continue
            n_store += 1
            ctx.check('C08.D4', mname == '__setitem__', vm, direct, f'Entity.{mname} stores keyvalues with `{U(direct)[:60]}`, bypassing __setitem__: a `nodeid` among them is kept verbatim and never reserved in '
                      'VMF.node_id, so a copy shares its node id with the original (and releases it when it is collected)', func=f'Entity.{mname}', text=f'Entity.{mname}: key store written directly')
    # the reservation follows the *key*: storing `nodeid` reserves, deleting it (or the entity dying) releases.  A further condition on the
    # entity's other state (its classname at that moment) un-pairs the two - keys arrive in any order, so the number is stored before the
    # classname is known and never reserved, but released when the entity dies
    n_gate = 0
    for mname in ('__setitem__', '__delitem__', '__del__'):
        mfn = vm.methods('Entity').get(mname)
        if mfn is None:
            continue
        me_ = mfn.args.args[0].arg
        for t_ in [x for x in walk_no_nested(mfn) if isinstance(x, ast.If)]:
            nodeid_cmp = [c for c in ast.walk(t_.test) if isinstance(c, ast.Compare) and any(isinstance(k_, ast.Constant) and k_.value == 'nodeid' for k_ in [c.left] + c.comparators)]
            if not nodeid_cmp:
                continue
            n_gate += 1
            state_reads = [x for x in ast.walk(t_.test) if (isinstance(x, ast.Attribute) or isinstance(x, ast.Subscript)) and isinstance(x.value, ast.Name) and x.value.id == me_ and not any(x is y for c in nodeid_cmp for y in ast.walk(c))]
            state_reads += [x for x in ast.walk(t_.test) if isinstance(x, ast.Call) and isinstance(x.func, ast.Attribute) and isinstance(x.func.value, ast.Name) and x.func.value.id == me_]
            ctx.check('C08.D4', not state_reads, vm, t_, f'Entity.{mname} handles the node id only when `{U(t_.test)[:70]}`: besides the key this looks at the entity itself (`{U(state_reads[0])[:40] if state_reads else ""}`), '
                      'which can differ between the moment the id is stored and the moment it is released', func=f'Entity.{mname}', text=f'Entity.{mname}: node id handling keyed on the key alone')
        if mname == '__del__':
            # nothing decides about the release before it happens
            rel = next((i for i, st_ in enumerate(mfn.body) if any(isinstance(k_, ast.Constant) and k_.value == 'nodeid' for k_ in ast.walk(st_))), None)
            early = [r for st_ in mfn.body[:rel or 0] for r in ast.walk(st_) if isinstance(r, ast.Return)]
            ctx.check('C08.D4', not early, vm, early[0] if early else mfn, 'Entity.__del__ can return before it releases the node id, depending on the state of the entity at that moment', func='Entity.__del__',
                      text='Entity.__del__: node id release unconditional')
    ctx.shape('C08.D4', n_gate >= 1, vm, vm.cls('Entity'), 'tests on the key `nodeid` found in Entity.__setitem__ / __delitem__', func='Entity', text='node id handling sites')
    if n_store < 2:
        raise AnalysisError(f'only {n_store} direct key-store writes found in Entity (the two arms of __setitem__ confirmed by hand)')
    if n_acq < 2:
        raise AnalysisError(f'only {n_acq} node_id.get_id call sites found (Entity.__setitem__ and Instance.fixup_key confirmed by hand)')
    # ---- D5 --------------------------------------------------------------------------------------------
    fi = vm.func('EntityFixup.__init__')
    src = U(fi)
    # the set of indexes handed out so far: the local that receives `.add(<value>.id)`
    used_sets = {dotted(c.func.value) for c in ast.walk(fi) if isinstance(c, ast.Call) and isinstance(c.func, ast.Attribute) and c.func.attr == 'add' and isinstance(c.func.value, ast.Name)
                 and c.args and isinstance(c.args[0], ast.Attribute) and c.args[0].attr == 'id'}
    used_set = sorted(used_sets)[0] if len(used_sets) == 1 else 'used_indexes'
    ok = any(isinstance(c, ast.Compare) and len(c.ops) == 1 and isinstance(c.ops[0], ast.NotIn) and isinstance(c.left, ast.Attribute) and c.left.attr == 'id' and dotted(c.comparators[0]) == used_set for c in ast.walk(fi)) \
        and len(used_sets) == 1
    loops = [n for n in walk_no_nested(fi) if isinstance(n, ast.For)]
    ok2 = any(isinstance(s, ast.Assign) and isinstance(s.targets[0], ast.Subscript) and dotted(s.targets[0].value) == 'self' for l in loops for s in ast.walk(l))
    ctx.shape('C08.D5', ok and ok2, vm, fi, 'EntityFixup.__init__ must keep an index only if unused so far and re-insert the rest through self[var] = value', text='init de-duplicates indexes')
    # the re-insertion must be deferred until every first-pass value is stored: __setitem__ picks the lowest index unused *so far*
    first_pass = [l for l in loops if l.body and any(isinstance(x, ast.Name) and x.id == used_set for x in ast.walk(l.body[0]))]
    early = [s for l in first_pass for s in ast.walk(l) if isinstance(s, ast.Assign) and isinstance(s.targets[0], ast.Subscript) and dotted(s.targets[0].value) == 'self']
    def _adds(n_: ast.AST) -> list:
        return [c for c in ast.walk(n_) if isinstance(c, ast.Call) and dotted(c.func) == used_set + '.add']
    reserves = any(_adds(s) and not any(isinstance(x, ast.Subscript) and dotted(x.value) == 'self' for x in ast.walk(s)) for l in first_pass for s in l.body) and \
        any(not (c.args and isinstance(c.args[0], ast.Attribute) and c.args[0].attr == 'id' and isinstance(c.args[0].value, ast.Name)) for l in first_pass for c in _adds(l))
    ctx.check('C08.D5', not early or reserves, vm, early[0] if early else fi,
              'a colliding fixup is re-indexed through self[...] = ... inside the first pass: the lowest index unused *so far* may be the legitimate index of a later entry, '
              'which then keeps it too (two variables share one replaceNN)', text='init defers re-indexing of duplicates')
    # who may hand out a NEW index: only __setitem__ (the lowest-unused search).  Every other method of EntityFixup that builds a FixupValue
    # carries over the index of an existing value (`<value>.id`); anything else - len() + 1, a counter - collides as soon as the indexes in use
    # are not exactly 1..n (after a delete, or in a parsed entity with gaps)
    n_fv = 0
    for mname_, mfn_ in vm.methods('EntityFixup').items():
        if mname_ == '__setitem__':
            continue
        for c in ast.walk(mfn_):
            if isinstance(c, ast.Call) and dotted(c.func) == 'FixupValue' and (len(c.args) == 3 or any(k.arg == 'id' for k in c.keywords)):
                idx_ = c.args[2] if len(c.args) == 3 else next(k.value for k in c.keywords if k.arg == 'id')
                n_fv += 1
                carried = isinstance(idx_, ast.Attribute) and idx_.attr == 'id' and isinstance(idx_.value, ast.Name)
                ctx.check('C08.D5', carried, vm, c, f'EntityFixup.{mname_} creates a FixupValue with the index `{U(idx_)[:40]}`: outside __setitem__ (which searches for the lowest unused index) an index may only be carried '
                          'over from an existing value - a computed one collides with an index in use when the table has gaps', func=f'EntityFixup.{mname_}', text=f'{mname_}: FixupValue index carried over')
                # a carried index is that of a value in *some* table; put into this object's own table it is only safe when it came from there
                if carried:
                    me_ = mfn_.args.args[0].arg if mfn_.args.args else 'self'
                    par_ = vm.parents.get(c)
                    into_own = isinstance(par_, ast.Assign) and any(isinstance(t, ast.Subscript) and isinstance(t.value, ast.Attribute) and isinstance(t.value.value, ast.Name) and t.value.value.id == me_ for t in par_.targets)
                    if into_own:
                        src_loop = next((a for a in _anc08(vm, c, mfn_) if isinstance(a, ast.For) and any(isinstance(x, ast.Name) and x.id == idx_.value.id for x in ast.walk(a.target))), None)
                        own_src = src_loop is not None and any(isinstance(x, ast.Name) and x.id == me_ for x in ast.walk(src_loop.iter))
                        ctx.check('C08.D5', own_src, vm, c, f'EntityFixup.{mname_} stores a FixupValue carrying the index of `{idx_.value.id}` - a value of another table - into its own table: both tables number their '
                                  'variables from 1, so the imported indexes collide with the ones in use (two variables share one replaceNN)', func=f'EntityFixup.{mname_}', text=f'{mname_}: no foreign index imported')
    if n_fv < 3:
        raise AnalysisError(f'only {n_fv} FixupValue constructions found outside __setitem__ (copy_values, __copy__, __deepcopy__ confirmed by hand)')
    fs = vm.func('EntityFixup.__setitem__')
    ctor = [c for c in ast.walk(fs) if isinstance(c, ast.Call) and dotted(c.func) == 'FixupValue' and len(c.args) == 3]
    scope, res_var = fs, None
    if len(ctor) == 1 and isinstance(ctor[0].args[2], ast.Name):
        res_var = ctor[0].args[2].id
        # the index may be computed by a private helper method: `ind = self._helper()` - follow it, its returned name is the search variable
        hdefs = [n for n in ast.walk(fs) if isinstance(n, ast.Assign) and dotted(n.targets[0]) == res_var and isinstance(n.value, ast.Call) and (dotted(n.value.func) or '').startswith('self.')
                 and not n.value.args and not n.value.keywords]
        if hdefs and vm.has_func('EntityFixup.' + dotted(hdefs[0].value.func).split('.')[1]):
            scope = vm.func('EntityFixup.' + dotted(hdefs[0].value.func).split('.')[1])
            rets_ = [r for r in walk_no_nested(scope) if isinstance(r, ast.Return)]
            res_var = rets_[0].value.id if len(rets_) == 1 and isinstance(rets_[0].value, ast.Name) else None
    sets = [n for n in ast.walk(scope) if isinstance(n, ast.SetComp)]
    whiles = [n for n in ast.walk(scope) if isinstance(n, ast.While)]
    recognised = False
    ok = False
    if len(sets) == 1 and len(whiles) == 1 and res_var is not None:
        sc, wl = sets[0], whiles[0]
        idxvar = None
        for n in ast.walk(scope):
            if isinstance(n, ast.Assign) and n.value is sc and isinstance(n.targets[0], ast.Name):
                idxvar = n.targets[0].id
        elt_ok = isinstance(sc.elt, ast.Attribute) and sc.elt.attr == 'id' and U(sc.generators[0].iter) == 'self._fixup.values()' and not sc.generators[0].ifs
        t = wl.test
        loop_ok = isinstance(t, ast.Compare) and isinstance(t.ops[0], ast.In) and dotted(t.comparators[0]) == idxvar and isinstance(t.left, ast.Name) \
            and len(wl.body) == 1 and isinstance(wl.body[0], ast.AugAssign) and isinstance(wl.body[0].op, ast.Add) and dotted(wl.body[0].target) == t.left.id \
            and isinstance(wl.body[0].value, ast.Constant) and wl.body[0].value.value == 1
        recognised = loop_ok and idxvar is not None
        start_ok = False
        if loop_ok:
            for n in ast.walk(scope):
                if isinstance(n, ast.Assign) and dotted(n.targets[0]) == t.left.id and isinstance(n.value, ast.Constant) and n.value.value == 1 and n.lineno < wl.lineno:
                    start_ok = True
            used_ok = res_var == t.left.id
            ok = elt_ok and start_ok and used_ok
    counter = None
    if not recognised and res_var is not None:
        # unknown spelling: interpret the index computation on every set of indexes drawn from a small family (engine/minieval.py).  Only a
        # concrete counterexample gives a verdict; agreement on the family does not, the rule then declines.
        from engine.minieval import MiniEval, Obj, Unsupported, Raised
        import itertools as _it
        blk_ = None
        if scope is fs and ctor:
            st_ = ctor[0]
            while st_ is not None and not isinstance(st_, ast.stmt):
                st_ = vm.parents.get(st_)
            par_ = vm.parents.get(st_) if st_ is not None else None
            for fld_ in ('body', 'orelse', 'finalbody'):
                seq_ = getattr(par_, fld_, None)
                if isinstance(seq_, list) and st_ in seq_:
                    blk_ = seq_[:seq_.index(st_)]
        helpers_ = {n.name: n for n in vm.cls('EntityFixup').body if isinstance(n, ast.FunctionDef) and n.name.startswith('_') and not n.name.startswith('__')}
        family = [-1, 0, 1, 2, 3, 4, 6]
        try:
            for k_ in range(len(family) + 1):
                for ids_ in _it.combinations(family, k_):
                    table = {f'v{i}': Obj(id=i, var=f'v{i}', value='') for i in ids_}
                    me = MiniEval({'self': Obj(_fixup=table, _matcher=None)}, methods=helpers_)
                    if scope is fs:
                        if blk_ is None:
                            raise Unsupported('index computation block not located')
                        me.run(blk_)
                        got = me.env.get(res_var)
                    else:
                        got = me.run(scope.body)
                    want = next(i for i in _it.count(1) if i not in ids_)
                    # the property needs "positive and not in use"; being the lowest is the repository's choice, not demanded
                    if (not isinstance(got, int) or got < 1 or got in ids_) and counter is None:
                        counter = (sorted(ids_), got, want)
                if counter:
                    break
        except (Unsupported, Raised) as exc:
            ctx.assumptions.append(f'C08.D5 probe of the unrecognised index search gave no verdict: {exc}')
            counter = None
    if counter:
        ctx.check('C08.D5', False, vm, fs, f'EntityFixup.__setitem__: with the indexes {counter[0]} in use the new variable gets index {counter[1]} (interpreted over the syntax tree)'
                  + (' - the index is already taken, two variables share one replaceNN' if counter[1] in counter[0] else ' - indexes must be positive') + f' (the lowest unused index >= 1 would be {counter[2]})',
                  text='setitem lowest unused index')
    else:
        ctx.shape('C08.D5', recognised, vm, fs, 'EntityFixup.__setitem__ finds the new index with `ind = 1; while ind in {ids in use}: ind += 1` (in place or in a private helper)', text='setitem lowest unused index')
    if recognised:
        ctx.check('C08.D5', ok, vm, fs, 'EntityFixup.__setitem__ must pick the lowest index >= 1 that is not among the current indexes and store it in the new FixupValue', text='setitem lowest unused index')
    for name in ('copy_values', '__copy__', '__deepcopy__'):
        fn = vm.func('EntityFixup.' + name)
        bad = [c for c in ast.walk(fn) if isinstance(c, ast.Call) and dotted(c.func) == 'FixupValue' and not (len(c.args) == 3 and isinstance(c.args[2], ast.Attribute) and c.args[2].attr == 'id')]
        ctx.check('C08.D5', not bad, vm, fn, f'EntityFixup.{name} must keep each value\'s index', text=f'{name} keeps indexes')

    # ---- D6: objects that own an id are never cloned generically ------------------------------------------------------------------------------
    # Solid, Side and Entity release their id in __del__.  `copy.copy(obj)` (they define no __copy__) makes a second object with the SAME
    # id and map; when that clone is collected its __del__ hands the id of the still-live original back to the manager, and the next object
    # created gets a duplicate id.  Clones are made through the classes' own copy() methods, which allocate a fresh id.
    ctx.rule('C08.D6', 'classes releasing an id in __del__ are cloned only through their copy() methods (no copy.copy / deepcopy of them)', floor=3)
    owners6 = [c.name for c in vm.tree.body if isinstance(c, ast.ClassDef) and any(isinstance(f, ast.FunctionDef) and f.name == '__del__' for f in c.body)]
    generic6 = []
    for mn6 in ('vmf', 'instancing'):
        m6 = prog.module(mn6)
        clone_names = {'copy.copy', 'copy.deepcopy', 'copy.replace', '_copy.copy', '_copy.deepcopy'}
        for st in m6.tree.body:
            if isinstance(st, ast.ImportFrom) and st.module == 'copy':
                clone_names |= {(al.asname or al.name) for al in st.names if al.name in ('copy', 'deepcopy', 'replace')}
        for c in ast.walk(m6.tree):
            if isinstance(c, ast.Call) and dotted(c.func) in clone_names and c.args and not isinstance(c.args[0], (ast.List, ast.Dict, ast.Set, ast.Tuple, ast.Constant, ast.ListComp, ast.DictComp, ast.SetComp)):
                generic6.append((m6, c))
    for cn6 in owners6:
        cd6 = vm.cls(cn6)
        own_copy = any(isinstance(f, ast.FunctionDef) and f.name in ('__copy__', '__deepcopy__', '__reduce__', '__reduce_ex__') for f in cd6.body)
        bad6 = [] if own_copy else generic6
        ctx.check('C08.D6', not bad6, bad6[0][0] if bad6 else vm, bad6[0][1] if bad6 else cd6, f'`{U(bad6[0][1])[:50] if bad6 else ""}` clones an object generically: {cn6} releases its id in __del__ and defines no __copy__, so a clone of one '
                  'shares the id and gives it back to the manager when it is collected, while the original still lives - the next object created gets the same id', func=cn6, text=f'{cn6} is cloned only through copy()')
    if len(owners6) < 3:
        raise AnalysisError(f'D6: only {owners6} release an id in __del__ (Solid, Side, Entity confirmed by hand)')


MUTANTS = [
    {'id': 'export_through_shallow_clone', 'file': 'vmf.py', 'find': "        self.spawn.export(dest_file, disp_multiblend=disp_multiblend, _is_worldspawn=True)", 'replace': "        __import__('copy').copy(self.spawn)\n        self.spawn.export(dest_file, disp_multiblend=disp_multiblend, _is_worldspawn=True)", 'extra': [{'file': 'vmf.py', 'find': "import builtins\n", 'replace': "import builtins\nimport copy\n"}, {'file': 'vmf.py', 'find': "        __import__('copy').copy(self.spawn)\n", 'replace': "        copy.copy(self.spawn)\n"}], 'expect': 'C08.D6', 'note': 'round 12'},
    {'id': 'solid_del_releases_face_ids_through_alias', 'file': 'vmf.py', 'find': "        \"\"\"Forget this solid's ID when the object is destroyed.\"\"\"\n        self.map.solid_id.discard(self.id)\n", 'replace': "        \"\"\"Forget this solid's ID when the object is destroyed.\"\"\"\n        self.map.solid_id.discard(self.id)\n        release_face = self.map.face_id.discard\n        for side in self.sides:\n            release_face(side.id)\n", 'expect': 'C08.D4'},
    {'id': 'nodeid_only_for_node_classes', 'file': 'vmf.py', 'find': "        elif key_fold == 'nodeid':\n", 'replace': "        elif key_fold == 'nodeid' and self['classname'].casefold().startswith('info_node'):\n", 'expect': 'C08.D4'},
    {'id': 'fixup_update_imports_foreign_indexes', 'file': 'vmf.py', 'find': "    @overload\n    def setdefault(self, var: str, /, default: str = ...) -> str: ...", 'replace': "    def update(self, other: Any = (), /, **kwargs: ValidKVs) -> None:  # type: ignore[override]\n        if isinstance(other, EntityFixup) and self._fixup.keys().isdisjoint(other._fixup):\n            for folded_var, fix in other._fixup.items():\n                self._fixup[folded_var] = FixupValue(fix.var, fix.value, fix.id)\n            self._matcher = None\n            other = ()\n        super().update(other, **kwargs)\n\n    @overload\n    def setdefault(self, var: str, /, default: str = ...) -> str: ...", 'expect': 'C08.D5'},
    {'id': 'setdefault_index_from_len', 'file': 'vmf.py', 'find': "            self[folded_var] = default\n            return default", 'replace': "            self._fixup[folded_var] = FixupValue(intern(var), conv_kv(default), len(self._fixup) + 1)\n            self._matcher = None\n            return default", 'expect': 'C08.D5'},
    {'id': 'ok_fixup_index_above_max', 'file': 'vmf.py', 'find': "            ind = 1\n            while ind in indexes:\n                ind += 1", 'replace': "            ind = max(max(indexes, default=0), 0) + 1", 'expect': None, 'refuse_ok': True},
    {'id': 'discard_lowers_to_non_positive', 'file': 'vmf.py', 'find': "        if 0 < element < self.search_pos:\n            self.search_pos = element", 'replace': "        if element < self.search_pos:\n            self.search_pos = element", 'expect': 'C08.D1'},
    {'id': 'entity_init_bulk_copies_keys', 'file': 'vmf.py', 'find': "        for k, v in keys.items():\n            self[k] = v\n\n        fixup_list = list(fixup)", 'replace': "        if isinstance(keys, _KeyDict):\n            self._keys.update(keys)\n        else:\n            for k, v in keys.items():\n                self[k] = v\n\n        fixup_list = list(fixup)", 'expect': 'C08.D4'},
    {'id': 'node_id_released_on_remove', 'file': 'vmf.py', 'find': "        # Neither the entity ID nor its node ID are released here.", 'replace': "        if 'nodeid' in item:\n            self.node_id.discard(int(item['nodeid']))\n        # Neither the entity ID nor its node ID are released here.", 'expect': 'C08.D4'},
    {'id': 'node_id_reacquired_on_add', 'file': 'vmf.py', 'find': "        # A node ID is reserved by the entity for as long as it has the keyvalue, whether it is in the map or not\n", 'replace': "        if 'nodeid' in item:\n            item['nodeid'] = str(self.node_id.get_id(int(item['nodeid'])))\n", 'expect': 'C08.D4'},
    {'id': 'vmf_gets_len', 'file': 'vmf.py', 'find': "    def iter_wbrushes(self, world: bool = True, detail: bool = True) -> Iterator['Solid']:", 'replace': "    def __len__(self) -> int:\n        return len(self.entities)\n\n    def iter_wbrushes(self, world: bool = True, detail: bool = True) -> Iterator['Solid']:", 'expect': 'C08.D3'},
    {'id': 'vmf_gets_len_copy_uses_is_none', 'file': 'vmf.py', 'find': "    def iter_wbrushes(self, world: bool = True, detail: bool = True) -> Iterator['Solid']:", 'replace': "    def __len__(self) -> int:\n        return len(self.entities)\n\n    def iter_wbrushes(self, world: bool = True, detail: bool = True) -> Iterator['Solid']:", 'extra': [{'file': 'vmf.py', 'find': "            vmf_file or self.map,\n            des_id,", 'replace': "            self.map if vmf_file is None else vmf_file,\n            des_id,"}, {'file': 'vmf.py', 'find': "            vmf_file=vmf_file or self.map,", 'replace': "            vmf_file=self.map if vmf_file is None else vmf_file,"}, {'file': 'vmf.py', 'find': "            vmf_file or self.map,", 'replace': "            self.map if vmf_file is None else vmf_file,"}, {'file': 'vmf.py', 'find': "            vmf or self.vmf,", 'replace': "            self.vmf if vmf is None else vmf,"}], 'expect': None},
    {'id': 'fixup_reindex_in_first_pass', 'file': 'vmf.py', 'find': "            else:\n                extra_vals.append(fix)\n", 'replace': "            else:\n                self[fix.var] = fix.value\n", 'expect': 'C08.D5'},
    {'id': 'return_without_reserve', 'file': 'vmf.py', 'find': "            if poss_id not in self:\n                self._used.add(poss_id)\n", 'replace': "            if poss_id not in self:\n", 'expect': 'C08.D1'},
    {'id': 'desired_zero_allowed', 'file': 'vmf.py', 'find': "        if desired > 0 and desired not in self._used:", 'replace': "        if desired >= 0 and desired not in self._used:", 'expect': 'C08.D1'},
    {'id': 'desired_not_checked_free', 'file': 'vmf.py', 'find': "        if desired > 0 and desired not in self._used:", 'replace': "        if desired > 0:", 'expect': 'C08.D1'},
    {'id': 'search_pos_not_advanced_ok', 'file': 'vmf.py', 'find': "                self.search_pos = poss_id + 1\n", 'replace': "", 'expect': None, 'note': 'negative control: search_pos is only a hint; dropping the update keeps uniqueness'},
    {'id': 'discard_raises_search_pos', 'file': 'vmf.py', 'find': "        if 0 < element < self.search_pos:\n            self.search_pos = element", 'replace': "        self.search_pos = element", 'expect': 'C08.D1'},
    {'id': 'solid_copy_reuses_id', 'file': 'vmf.py', 'find': "    def __attrs_post_init__(self) -> None:\n        self.id = self.map.solid_id.get_id(self.id)", 'replace': "    def __attrs_post_init__(self) -> None:\n        self.id = self.map.solid_id.get_id(self.id) if self.id <= 0 else self.id", 'expect': 'C08.D2'},
    {'id': 'side_uses_solid_manager', 'file': 'vmf.py', 'find': "        self.id = vmf_file.face_id.get_id(des_id)", 'replace': "        self.id = vmf_file.solid_id.get_id(des_id)", 'expect': 'C08.D2'},
    {'id': 'side_release_wrong_manager', 'file': 'vmf.py', 'find': "        self.map.face_id.discard(self.id)", 'replace': "        self.map.solid_id.discard(self.id)", 'expect': 'C08.D3'},
    {'id': 'remove_ent_releases_id', 'file': 'vmf.py', 'find': "        # Neither the entity ID nor its node ID are released here.", 'replace': "        self.ent_id.discard(item.id)\n        # Neither the entity ID nor its node ID are released here.", 'expect': 'C08.D4'},
    {'id': 'remove_brush_releases_id', 'file': 'vmf.py', 'find': "            self.brushes.remove(brush)\n", 'replace': "            self.brushes.remove(brush)\n            self.solid_id.discard(brush.id)\n", 'expect': 'C08.D4'},
    {'id': 'fixup_index_from_len', 'file': 'vmf.py', 'find': "            ind = 1\n            while ind in indexes:\n                ind += 1", 'replace': "            ind = len(indexes) + 1", 'expect': 'C08.D5'},
    {'id': 'shared_managers', 'file': 'vmf.py', 'find': "        self.face_id = id_man()  # Ditto for faces", 'replace': "        self.face_id = self.solid_id  # Ditto for faces", 'expect': None, 'note': 'negative control? sharing one manager keeps ids unique across kinds (still unique per kind)'},
]
