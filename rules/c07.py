"""C07 - VMF.by_class / by_target agree with the entity list (DESIGN.md C07).

  I1  key normal form at every *mutation* of the indexes (package-wide): by_class keys are casefolded; by_target keys
      are casefolded and map '' to None (or are the literal None).  Unfolded *reads* are reported as notes only.
  I2  single writer of the key store: Entity._keys is mutated only in __init__, __setitem__, __delitem__; every other
      method that changes keys goes through self[...] = / del self[...].
  I3  maintenance: in __setitem__/__delitem__ each index arm removes the old entry first and only adds under the guard
      `self in self.map.entities` (or `self is self.map.spawn`); add_ent/add_ents/remove_ent touch the list and both
      indexes together.
  I4  worldspawn: registered under 'worldspawn' by VMF.__init__; the classname arm refuses another class for the map's
      spawn by raising; __delitem__ refuses 'classname' before touching the key store.
  I5  CopySet.__iter__ iterates a snapshot.
  I6  replacing VMF.spawn (VMF.parse) first unregisters the previous spawn from both indexes.
"""
from __future__ import annotations

import ast
import re
from typing import Any, List, Optional, Set

from engine.srcmatch import U
from engine.forms import FOLDED, NONE, NONE_IF_EMPTY, FormEnv
from engine.model import AnalysisError, Program, dotted, walk_no_nested

LEVEL = 'other'
INDEXES = ('by_class', 'by_target')
SET_MUT = {'add', 'discard', 'remove', 'update', 'clear', 'pop'}
DICT_MUT = {'pop', 'clear', 'update', 'setdefault', 'popitem', '__setitem__', '__delitem__'}


def index_of(node: ast.AST) -> Optional[str]:
    """'by_class'/'by_target' if node is an attribute chain ending in one of the index names."""
    if isinstance(node, ast.Attribute) and node.attr in INDEXES:
        return node.attr
    return None


def key_ok(idx: str, form: Any) -> bool:
    if idx == 'by_class':
        return FOLDED in form
    return (FOLDED in form and NONE_IF_EMPTY in form) or NONE in form


def run(ctx: Any, prog: Program) -> None:
    vm = prog.module('vmf')
    ctx.not_decided += ['sufficiency of the maintenance rules for every history (e.g. an entity added to two maps, or added twice)',
                        'iteration-order effects of CopySet']
    ctx.rule('C07.I1', 'every mutation of by_class/by_target uses a casefolded key (by_target: '' mapped to None)', floor=12)
    # module-level helpers of the form `f(mapping, key, ent)` that add `ent` to `mapping[key]` (the twin of _remove_copyset)
    add_helpers: Set[str] = set()
    for hq_, hfl_ in vm.all_funcs().items():
        if '.' in hq_ or len(hfl_) != 1 or len(hfl_[0].args.args) != 3:
            continue
        pm_, pk_, pe_ = (a.arg for a in hfl_[0].args.args)
        if any(isinstance(c, ast.Call) and isinstance(c.func, ast.Attribute) and c.func.attr == 'add' and c.args and dotted(c.args[0]) == pe_ for c in ast.walk(hfl_[0])) \
                and any(isinstance(x, ast.Subscript) and dotted(x.value) == pm_ and dotted(x.slice) == pk_ for x in ast.walk(hfl_[0])):
            add_helpers.add(hq_)
    # module-level helpers that take the entity out of a set of the mapping they are given (`_remove_copyset`, or a "move" helper)
    removing_helpers: Set[str] = set()
    for hq_, hfl_ in vm.all_funcs().items():
        if '.' in hq_ or len(hfl_) != 1 or len(hfl_[0].args.args) < 3:
            continue
        if any(isinstance(c, ast.Call) and isinstance(c.func, ast.Attribute) and c.func.attr in ('discard', 'remove') for c in ast.walk(hfl_[0])):
            removing_helpers.add(hq_)
    for _ in range(3):          # ... or hand the mapping on to one that does
        for hq_, hfl_ in vm.all_funcs().items():
            if '.' in hq_ or len(hfl_) != 1 or len(hfl_[0].args.args) < 3 or hq_ in removing_helpers:
                continue
            p0_ = hfl_[0].args.args[0].arg
            if any(isinstance(c, ast.Call) and dotted(c.func) in removing_helpers and c.args and dotted(c.args[0]) == p0_ for c in ast.walk(hfl_[0])):
                removing_helpers.add(hq_)
    # one folding for all: `str.lower()` and `str.casefold()` agree on ASCII only (ß, final sigma, ligatures differ), so an index maintained
    # partly with one and partly with the other files an entity under two keys.  Every key expression of by_class / by_target - subscripts and
    # helper arguments - uses the same method.
    fold_sites: List[Tuple[str, ast.AST, str]] = []
    for q_, fl_ in vm.all_funcs().items():
        for f_ in fl_:
            for n_ in walk_no_nested(f_):
                key_e = None
                if isinstance(n_, ast.Subscript) and index_of(n_.value):
                    key_e = n_.slice
                elif isinstance(n_, ast.Call) and isinstance(n_.func, ast.Name) and (n_.func.id in removing_helpers or n_.func.id in add_helpers) and len(n_.args) >= 2 and index_of(n_.args[0]):
                    key_e = n_.args[1]
                if key_e is None:
                    continue
                # follow a local key once
                exprs = [key_e]
                if isinstance(key_e, ast.Name):
                    exprs += [a.value for a in walk_no_nested(f_) if isinstance(a, ast.Assign) and any(isinstance(t, ast.Name) and t.id == key_e.id for t in a.targets)]
                for e_ in exprs:
                    for c_ in ast.walk(e_):
                        if isinstance(c_, ast.Call) and isinstance(c_.func, ast.Attribute) and c_.func.attr in ('casefold', 'lower', 'upper') and not c_.args:
                            fold_sites.append((q_, n_, c_.func.attr))
    used = {m for _, _, m in fold_sites}
    majority = max(used, key=lambda m: sum(1 for _, _, mm in fold_sites if mm == m)) if used else None
    for q_, n_, m_ in fold_sites:
        ctx.check('C07.I1', m_ == majority, vm, n_, f'{q_} computes an index key with .{m_}() where the other {sum(1 for _, _, mm in fold_sites if mm == majority)} key expressions use .{majority}(): the two differ outside ASCII '
                  '("Straße".lower() != "Straße".casefold()), so the entity is filed under one key and looked for / removed under another', func=q_, text=f'{q_}: index key folded with {majority}')
    ctx.shape('C07.I1', len(fold_sites) >= 4, vm, vm.tree, f'{len(fold_sites)} folded index key expressions found', text='folded key expressions')
    ctx.rule('C07.I2', 'Entity._keys is mutated only by __init__/__setitem__/__delitem__', floor=4)
    ctx.rule('C07.I3', 'index maintenance: remove-old-first, guarded add, list and indexes updated together', floor=10)
    ctx.rule('C07.I4', 'worldspawn is registered, cannot be re-classed and its classname cannot be deleted', floor=4)
    ctx.rule('C07.I5', 'CopySet and the generators of VMF iterate a snapshot of what they walk', floor=3)
    ctx.rule('C07.I7', 'an Iterable parameter feeding both the entity list and the indexes is materialised before it is consumed twice', floor=1)
    ctx.rule('C07.I8', 'the case-preserving key store is only addressed with a stored spelling (search-loop variable) or inside the no-match branch', floor=6)
    ctx.rule('C07.I6', 'replacing VMF.spawn unregisters the previous spawn from both indexes', floor=1)

    # ---- I1 (the two indexes create the set they are asked for): `by_target[k].add(e)` relies on the mapping *storing* the set it makes for a
    # missing key (defaultdict).  A mapping whose __missing__ returns a fresh set without storing it turns every such add into a no-op.
    vinit = vm.func('VMF.__init__')
    for idx_nm in ('by_class', 'by_target'):
        ctor = [a.value for a in walk_no_nested(vinit) if isinstance(a, (ast.Assign, ast.AnnAssign)) and a.value is not None and any(dotted(t) == f'self.{idx_nm}' for t in (a.targets if isinstance(a, ast.Assign) else [a.target]))]
        if len(ctor) != 1 or not isinstance(ctor[0], ast.Call):
            ctx.shape('C07.I1', False, vm, vinit, f'construction of VMF.{idx_nm} not recognised', func='VMF.__init__', text=f'{idx_nm} stores the sets it creates')
            continue
        cn_ = dotted(ctor[0].func) or ''
        if cn_.split('.')[-1] == 'defaultdict':
            ctx.check('C07.I1', True, vm, ctor[0], 'defaultdict stores what its factory makes', func='VMF.__init__', text=f'{idx_nm} stores the sets it creates')
        elif vm.has_class(cn_):
            miss = vm.methods(cn_).get('__missing__')
            stores_ = miss is not None and any(isinstance(x, ast.Subscript) and isinstance(x.ctx, ast.Store) and isinstance(x.value, ast.Name) and x.value.id == miss.args.args[0].arg for x in ast.walk(miss))
            direct_adds = [n for q_, fl_ in vm.all_funcs().items() for f_ in fl_ for n in walk_no_nested(f_) if isinstance(n, ast.Call) and isinstance(n.func, ast.Attribute) and n.func.attr == 'add'
                           and isinstance(n.func.value, ast.Subscript) and index_of(n.func.value.value) == idx_nm]
            ctx.check('C07.I1', stores_ or not direct_adds, vm, direct_adds[0] if direct_adds else ctor[0], f'VMF.{idx_nm} is a {cn_} whose __missing__ does not store the set it returns, and `{U(direct_adds[0])[:60] if direct_adds else ""}` '
                      'still adds through a subscript: when the key is not there yet the entity goes into a throwaway set and is in no index entry', func='VMF.__init__', text=f'{idx_nm} stores the sets it creates')
        else:
            ctx.shape('C07.I1', False, vm, ctor[0], f'VMF.{idx_nm} is built by `{U(ctor[0])[:40]}`', func='VMF.__init__', text=f'{idx_nm} stores the sets it creates')
    # ---- I1 (package-wide) -----------------------------------------------------------------------------
    for modname in prog.module_names():
        mod = prog.module(modname)
        if 'by_class' not in mod.text and 'by_target' not in mod.text:
            continue
        for qual, fns in mod.all_funcs().items():
            for fn in fns:
                env = FormEnv(fn)
                # keys that come out of a tuple: `cls_key, name_key = _lookup_keys(item)` with a module-level helper returning a tuple stands for
                # the helper's expressions on that argument; a tuple taken from an attribute of the entity (`item._lookup or ...`) is a
                # REMEMBERED key - right only as long as everything that re-files the entity refreshes it
                import copy as _copy7
                key_subst: Dict[str, ast.AST] = {}
                for a_ in walk_no_nested(fn):
                    if not isinstance(a_, ast.Assign):
                        continue
                    tup = next((t for t in a_.targets if isinstance(t, ast.Tuple) and all(isinstance(e, ast.Name) for e in t.elts)), None)
                    if tup is None:
                        continue
                    alts = a_.value.values if isinstance(a_.value, ast.BoolOp) else [a_.value]
                    for alt in alts:
                        if isinstance(alt, ast.Attribute) and isinstance(alt.value, ast.Name) and not alt.attr.startswith('__'):
                            ent_methods_ = vm.methods('Entity') if modname == 'vmf' else {}
                            refiling = [mn for mn, mf in ent_methods_.items() if any(isinstance(c, ast.Call) and ((isinstance(c.func, ast.Name) and c.func.id in removing_helpers and c.args and index_of(c.args[0]))
                                                                                   or (isinstance(c.func, ast.Attribute) and c.func.attr in SET_MUT and isinstance(c.func.value, ast.Subscript) and index_of(c.func.value.value))) for c in walk_no_nested(mf))]
                            stale = [mn for mn in refiling if not any(isinstance(x, ast.Attribute) and isinstance(x.ctx, ast.Store) and x.attr == alt.attr for x in ast.walk(ent_methods_[mn]))]
                            ctx.check('C07.I1', not stale, mod, a_, f'{qual} takes the index keys from `{U(alt)}`, a value remembered on the entity, but Entity.{", Entity.".join(stale)} re-file the entity without refreshing '
                                      f'`{alt.attr}`: after a `del ent[...]` / pop / clear the remembered key is the old one, and the entity is looked for (removed) under it', func=qual, text=f'{qual}: remembered keys {alt.attr} refreshed by every re-filing method')
                        if isinstance(alt, ast.Call) and isinstance(alt.func, ast.Name) and mod.has_func(alt.func.id) and len(alt.args) == 1:
                            hf_ = mod.func(alt.func.id)
                            hrets_ = [r.value for r in walk_no_nested(hf_) if isinstance(r, ast.Return)]
                            if len(hrets_) == 1 and isinstance(hrets_[0], ast.Tuple) and len(hrets_[0].elts) == len(tup.elts) and len(hf_.args.args) == 1:
                                prm_ = hf_.args.args[0].arg

                                class _S7(ast.NodeTransformer):
                                    def visit_Name(self, nn: ast.Name) -> ast.AST:      # noqa: N802
                                        return ast.copy_location(_copy7.deepcopy(alt.args[0]), nn) if nn.id == prm_ else nn
                                for tn, el in zip(tup.elts, hrets_[0].elts):
                                    key_subst[tn.id] = ast.fix_missing_locations(_S7().visit(_copy7.deepcopy(el)))
                for n in walk_no_nested(fn):
                    # X.by_*[K].add(e) etc.
                    if isinstance(n, ast.Call) and isinstance(n.func, ast.Attribute) and n.func.attr in SET_MUT \
                            and isinstance(n.func.value, ast.Subscript) and index_of(n.func.value.value):
                        idx = index_of(n.func.value.value)
                        k = n.func.value.slice
                        if isinstance(k, ast.Name) and k.id in key_subst:
                            k = key_subst[k.id]
                        ctx.check('C07.I1', key_ok(idx, env.form(k)), mod, n,
                                  f'{idx}[...] is mutated with key `{U(k)}` which is not in the index normal form '
                                  f'({"casefolded" if idx == "by_class" else "casefolded, empty -> None"}); the entry goes stale / is filed under a key lookups never use',
                                  func=qual, text=f'{idx}[{U(k)}].{n.func.attr}')
                        # in the map's own methods the key is what the entity itself holds (`item['classname', '']`): an entity filed under a
                        # value taken from somewhere else (the arguments of create_ent) is under another key than its keyvalue says whenever the
                        # two differ (`TargetName=`, a float that is stored as '12' and indexed as '12.0')
                        if n.func.attr == 'add' and n.args and isinstance(n.args[0], ast.Name) and qual.startswith('VMF.') and not isinstance(k, ast.Constant):
                            ent_nm = n.args[0].id
                            reads_ent = any(isinstance(x, ast.Name) and x.id == ent_nm for x in ast.walk(k))
                            if not reads_ent:
                                # through a local assigned from the entity
                                reads_ent = any(isinstance(x, ast.Name) and any(isinstance(y, ast.Name) and y.id == ent_nm for d_ in env.defs.get(x.id, []) for y in ast.walk(d_)) for x in ast.walk(k))
                            ctx.check('C07.I1', reads_ent, mod, n, f'{qual} files `{ent_nm}` under `{U(k)[:60]}`, which is not read from `{ent_nm}` itself: when the stored keyvalue differs from that value the entity sits under '
                                      'the wrong key (and stays there after a rename)', func=qual, text=f'{idx} key of {ent_nm} read from the entity')
                    # _remove_copyset(X.by_*, K, e)
                    elif isinstance(n, ast.Call) and dotted(n.func) == '_remove_copyset' and len(n.args) == 3 and index_of(n.args[0]):
                        idx = index_of(n.args[0])
                        k = n.args[1]
                        if isinstance(k, ast.Name) and k.id in key_subst:
                            k = key_subst[k.id]
                        ctx.check('C07.I1', key_ok(idx, env.form(k)), mod, n,
                                  f'_remove_copyset({idx}, `{U(k)}`, ...) uses a key that is not in the index normal form; the old entry is not found and stays',
                                  func=qual, text=f'_remove_copyset({idx}, {U(k)})')
                    elif isinstance(n, (ast.Assign, ast.Delete)):
                        for t in n.targets:
                            if isinstance(t, ast.Subscript) and index_of(t.value):
                                idx = index_of(t.value)
                                ctx.check('C07.I1', key_ok(idx, env.form(t.slice)), mod, n,
                                          f'{idx}[{U(t.slice)}] assigned/deleted with a key not in normal form', func=qual,
                                          text=f'{type(n).__name__} {idx}[{U(t.slice)}]')
                    # reads: notes only
                    elif isinstance(n, ast.Subscript) and index_of(n.value) and isinstance(n.ctx, ast.Load):
                        par = mod.parents.get(n)
                        if isinstance(par, ast.Attribute) and par.attr in SET_MUT:
                            continue
                        if not key_ok(index_of(n.value), env.form(n.slice)):
                            ctx.note(f'{mod.relpath}:{n.lineno} {qual}: read of {index_of(n.value)}[{U(n.slice)}] with a key not known to be folded (lookup miss, not an index inconsistency)')
    # ---- I2 --------------------------------------------------------------------------------------------
    allowed = {'__init__', '__setitem__', '__delitem__'}
    for modname in prog.module_names():
        mod = prog.module(modname)
        if '_keys' not in mod.text:
            continue
        for qual, fns in mod.all_funcs().items():
            is_entity = modname == 'vmf' and qual.startswith('Entity.')
            for fn in fns:
                for n in walk_no_nested(fn):
                    hit = None
                    if isinstance(n, ast.Call) and isinstance(n.func, ast.Attribute) and n.func.attr in DICT_MUT \
                            and isinstance(n.func.value, ast.Attribute) and n.func.value.attr == '_keys':
                        hit = f'_keys.{n.func.attr}()'
                    elif isinstance(n, (ast.Assign, ast.Delete, ast.AugAssign)):
                        tgts = n.targets if not isinstance(n, ast.AugAssign) else [n.target]
                        for t in tgts:
                            if isinstance(t, ast.Subscript) and isinstance(t.value, ast.Attribute) and t.value.attr == '_keys':
                                hit = f'{type(n).__name__} _keys[...]'
                            elif isinstance(t, ast.Attribute) and t.attr == '_keys':
                                hit = 'rebinding _keys'
                    if hit is None:
                        continue
                    recv_is_entity = is_entity or modname == 'vmf'
                    if not recv_is_entity:
                        # other modules: `_keys` of some other class (e.g. dmx) is unrelated unless the receiver is an Entity; only vmf.py owns Entity
                        continue
                    if modname == 'vmf' and not is_entity:
                        continue
                    name = qual.split('.')[-1]
                    ctx.check('C07.I2', name in allowed, mod, n,
                              f'Entity.{name} mutates the key store directly ({hit}); classname/targetname changes made here bypass by_class/by_target maintenance',
                              func=qual, text=f'{name}: {hit}')
    # ---- I3 --------------------------------------------------------------------------------------------
    def guard_of(mod: Any, fn: ast.AST, node: ast.AST) -> List[str]:
        out = []
        p = mod.parents.get(node)
        child = node
        while p is not None and p is not fn:
            if isinstance(p, ast.If) and child in p.body:
                out.append(U(p.test))
            child = p
            p = mod.parents.get(p)
        return out
    ent_methods = vm.methods('Entity')
    # the index arms of __setitem__ are reached by every call: the maps are also brought up to date by assignments that do not change the
    # value (VMF.parse registers the parsed worldspawn with `worldspawn['classname'] = 'worldspawn'`; an entity added to the map after its
    # keys were set is indexed the same way), so nothing may return before them
    si_ = ent_methods['__setitem__']
    arm_idx = next((i for i, st in enumerate(si_.body) if isinstance(st, ast.If) and "'classname'" in U(st.test)), None)
    if arm_idx is None:
        raise AnalysisError('Entity.__setitem__: index maintenance chain (`if key_fold == \'classname\'` ...) not found at top level')
    early = [r for st in si_.body[:arm_idx] for r in ast.walk(st) if isinstance(r, ast.Return)]
    ctx.check('C07.I3', not early, vm, early[0] if early else si_, 'Entity.__setitem__ returns before the by_class / by_target maintenance' + (f' (when `{U(vm.parents[early[0]].test)[:60]}`)' if early and isinstance(vm.parents.get(early[0]), ast.If) else '')
              + ': an assignment that leaves the value unchanged must still (re-)register the entity - VMF.parse and add_ent-after-construction rely on it', func='Entity.__setitem__', text='__setitem__: index arms reached on every call')
    # (every method of Entity that files the entity itself: __setitem__ and __delitem__ today - a convenience method that "claims" a name
    # directly puts entities that are not in the map into the index)
    for name in sorted(ent_methods):
        fn = ent_methods[name]
        for n in walk_no_nested(fn):
            if isinstance(n, ast.Call) and isinstance(n.func, ast.Attribute) and n.func.attr == 'add' \
                    and isinstance(n.func.value, ast.Subscript) and index_of(n.func.value.value):
                guards = guard_of(vm, fn, n)
                ok = any('self in self.map.entities' in g or 'self is self.map.spawn' in g for g in guards)
                ctx.check('C07.I3', ok, vm, n, f'index add in Entity.{name} is not guarded by `self in self.map.entities` / `self is self.map.spawn`: '
                          f'an entity that is not in the map would be listed (guards: {guards})', text=f'{name}: guarded add {U(n)[:60]}')
        # each index arm removes the old entry before any add
        for n in walk_no_nested(fn):
            if isinstance(n, ast.If):
                t = U(n.test)
                for field, idx in (('classname', 'by_class'), ('targetname', 'by_target')):
                    if f"== '{field}'" in t and ' and ' not in t and ' or ' not in t:
                        if name == '__delitem__' and field == 'classname':
                            continue
                        calls = [c for s in n.body for c in ast.walk(s) if isinstance(c, ast.Call)]
                        removes = [c for c in calls if dotted(c.func) in removing_helpers and c.args and index_of(c.args[0]) == idx]
                        adds = [c for c in calls if isinstance(c.func, ast.Attribute) and c.func.attr == 'add' and isinstance(c.func.value, ast.Subscript)
                                and index_of(c.func.value.value) == idx]

                        def removal_first(stmts: List[ast.stmt]) -> bool:
                            # every path through `stmts` reaches a removal before it reaches an add or the end
                            for st_ in stmts:
                                if isinstance(st_, ast.If):
                                    if any(c is x for c in removes for x in ast.walk(st_.test)):
                                        return True
                                    if removal_first(st_.body) and removal_first(st_.orelse):
                                        return True
                                    if any(c is x for c in adds + removes for x in ast.walk(st_)):
                                        return False
                                    continue
                                if any(c is x for c in removes for x in ast.walk(st_)):
                                    return not any(a is x and a.lineno < min(r.lineno for r in removes if any(r is y for y in ast.walk(st_))) for a in adds for x in ast.walk(st_))
                                if any(c is x for c in adds for x in ast.walk(st_)) or isinstance(st_, (ast.Return, ast.Raise)):
                                    return False
                            return False
                        ok = bool(removes) and removal_first(n.body)
                        ctx.check('C07.I3', ok, vm, n, f'the {field} arm of Entity.{name} must start by removing the old {idx} entry (found {len(removes)} removals)',
                                  text=f'{name}: {field} arm removes old entry first')
        # function-wide: for each index, the first add comes after the first removal (whatever the arm tests look like).  Adding first and
        # removing the old entry later discards the entity again when old and new key coincide (a blank targetname is None both times).
        for idx in INDEXES:
            adds_ = [c for c in walk_no_nested(fn) if isinstance(c, ast.Call) and isinstance(c.func, ast.Attribute) and c.func.attr == 'add' and isinstance(c.func.value, ast.Subscript) and index_of(c.func.value.value) == idx]
            rems_ = [c for c in walk_no_nested(fn) if isinstance(c, ast.Call) and dotted(c.func) in removing_helpers and c.args and index_of(c.args[0]) == idx]
            if not adds_:
                continue
            first_add = min(adds_, key=lambda c: c.lineno)
            ok = bool(rems_) and min(r.lineno for r in rems_) < first_add.lineno
            ctx.check('C07.I3', ok, vm, first_add, f'Entity.{name} adds the entity to {idx} (line {first_add.lineno}) before it removed the old {idx} entry' + (f' (line {min(r.lineno for r in rems_)})' if rems_ else ' (never)')
                      + ': when the old and the new key are the same - a blank targetname is the key None both before and after - the later removal takes the entity out again', text=f'{name}: {idx} removal precedes the add')
    # a set taken out of the mapping is a handle on the entry it was filed under at that moment: once an entry of the same mapping has been
    # deleted, a handle fetched earlier may be that very set (old key == new key: a value re-assigned in another letter case, a blank name
    # that stays blank), and adding to it files the entity in a set nothing points to any more
    n_handle = 0
    for hq_, hfl_ in vm.all_funcs().items():
        for hf_ in hfl_:
            dels_ = [d for d in walk_no_nested(hf_) if isinstance(d, ast.Delete) and any(isinstance(t, ast.Subscript) and (index_of(t.value) or (isinstance(t.value, ast.Name) and t.value.id in {a.arg for a in hf_.args.args})) for t in d.targets)]
            if not dels_:
                continue
            for a_ in walk_no_nested(hf_):
                if not (isinstance(a_, ast.Assign) and len(a_.targets) == 1 and isinstance(a_.targets[0], ast.Name)):
                    continue
                v_ = a_.value
                src_ = v_.value if isinstance(v_, ast.Subscript) else (v_.func.value if isinstance(v_, ast.Call) and isinstance(v_.func, ast.Attribute) and v_.func.attr in ('get', 'setdefault') else None)
                if src_ is None:
                    continue
                for d_ in dels_:
                    tgt_ = next(t for t in d_.targets if isinstance(t, ast.Subscript))
                    if U(tgt_.value) != U(src_) or d_.lineno <= a_.lineno:
                        continue
                    n_handle += 1
                    late = [c for c in walk_no_nested(hf_) if isinstance(c, ast.Call) and isinstance(c.func, ast.Attribute) and c.func.attr in ('add', 'update') and isinstance(c.func.value, ast.Name)
                            and c.func.value.id == a_.targets[0].id and c.lineno > d_.lineno]
                    same_key = U(tgt_.slice) == U(v_.slice if isinstance(v_, ast.Subscript) else (v_.args[0] if v_.args else v_))
                    ctx.check('C07.I3', not late, vm, late[0] if late else a_, f'{hq_}: `{a_.targets[0].id}` is taken from `{U(src_)}` (line {a_.lineno}) before `{U(d_)}` (line {d_.lineno}) and added to afterwards: '
                              f'when `{U(tgt_.slice)}` and the key it was fetched under are equal, that is the set just removed from the mapping, and the entity ends up in none of the indexed sets', func=hq_, text=f'{hq_}: no add to a set fetched before an entry was deleted')
    ctx.shape('C07.I3', n_handle >= 1, vm, vm.tree, f'{n_handle} set handles fetched before a `del mapping[key]` found (_remove_copyset confirmed by hand)', text='set handles and entry deletion')
    vmf_methods = vm.methods('VMF')
    for name, listop in (('add_ent', 'append'), ('add_ents', 'extend'), ('remove_ent', 'remove')):
        fn = vmf_methods[name]
        calls = [c for c in walk_no_nested(fn) if isinstance(c, ast.Call)]
        has_list = any(isinstance(c.func, ast.Attribute) and c.func.attr == listop and dotted(c.func.value) == 'self.entities' for c in calls)
        touched = set()
        for c in calls:
            if name.startswith('add') and isinstance(c.func, ast.Attribute) and c.func.attr == 'add' and isinstance(c.func.value, ast.Subscript) and index_of(c.func.value.value):
                touched.add(index_of(c.func.value.value))
            # ... or through a module-level helper `f(<index>, key, ent)` that does the add
            if name.startswith('add') and isinstance(c.func, ast.Name) and c.func.id in add_helpers and c.args and index_of(c.args[0]):
                touched.add(index_of(c.args[0]))
            if name == 'remove_ent' and dotted(c.func) == '_remove_copyset' and index_of(c.args[0]):
                touched.add(index_of(c.args[0]))
        ctx.check('C07.I3', has_list and touched == set(INDEXES), vm, fn,
                  f'VMF.{name} must update self.entities and both indexes together (list op: {has_list}, indexes: {sorted(touched)})', text=f'{name}: list + both indexes')
    # ---- I7: one-shot iterables --------------------------------------------------------------------------
    for name, fn in vmf_methods.items():
        params = {a.arg: U(a.annotation) for a in fn.args.args + fn.args.kwonlyargs if a.annotation is not None}
        for pn, ann in params.items():
            if not re.search(r'\b(Iterable|Iterator|Generator)\b', ann):
                continue
            uses = []
            rebound_line = None
            for n in walk_no_nested(fn):
                if isinstance(n, ast.Assign) and any(isinstance(t, ast.Name) and t.id == pn for t in n.targets) and isinstance(n.value, ast.Call) \
                        and dotted(n.value.func) in ('list', 'tuple', 'set', 'sorted', 'frozenset') and n.value.args and dotted(n.value.args[0]) == pn:
                    rebound_line = n.lineno if rebound_line is None else min(rebound_line, n.lineno)
            for n in walk_no_nested(fn):
                if isinstance(n, (ast.For, ast.comprehension)) and dotted(n.iter) == pn:
                    uses.append(n.iter)
                elif isinstance(n, ast.Call) and any(dotted(a) == pn for a in n.args):
                    if isinstance(n.func, ast.Attribute) or dotted(n.func) in ('list', 'tuple', 'set', 'sorted', 'sum', 'max', 'min', 'any', 'all', 'enumerate', 'zip', 'map', 'filter'):
                        uses.append(n)
            consuming = [u for u in uses if rebound_line is None or u.lineno < rebound_line or (u.lineno == rebound_line)]
            after = [u for u in uses if rebound_line is not None and u.lineno > rebound_line]
            n_before = len([u for u in uses if rebound_line is None or u.lineno <= rebound_line])
            if len(uses) == 1 and isinstance(uses[0], ast.Call) and dotted(uses[0].func) in ('list', 'tuple', 'sorted'):
                # `new_ents = list(ents)` and everything afterwards works on the list: materialised under another name
                ctx.check('C07.I7', True, vm, fn, f'VMF.{name}: parameter `{pn}` is materialised once', func=f'VMF.{name}', text=f'{name}: {pn} materialised before multi-use')
            if len(uses) >= 2:
                ok = rebound_line is not None and n_before <= 1
                ctx.check('C07.I7', ok, vm, fn, f'VMF.{name}: parameter `{pn}` ({ann}) is consumed {len(uses)} times' +
                          ('' if ok else ' without first being materialised (list(...)): a generator is exhausted by the first use, so the later index/list update sees nothing'),
                          func=f'VMF.{name}', text=f'{name}: {pn} materialised before multi-use')
    # ---- I8: key-store addressing ---------------------------------------------------------------------------
    for name, fn in ent_methods.items():
        # search loops: for K in self._keys
        def over_keys(it: ast.AST) -> bool:
            # `self._keys`, `self._keys.keys()`, or a snapshot of either (list/tuple/sorted): the loop variable is a stored spelling
            if isinstance(it, ast.Call) and dotted(it.func) in ('list', 'tuple', 'sorted') and len(it.args) == 1:
                it = it.args[0]
            return dotted(it) == 'self._keys' or (isinstance(it, ast.Call) and dotted(it.func) == 'self._keys.keys' and not it.args)
        loops = [n for n in walk_no_nested(fn) if isinstance(n, ast.For) and over_keys(n.iter) and isinstance(n.target, ast.Name)]
        loop_vars = {l.target.id for l in loops}
        for n in walk_no_nested(fn):
            key_expr = None
            if isinstance(n, ast.Subscript) and dotted(n.value) == 'self._keys':
                key_expr = n.slice
            elif isinstance(n, ast.Call) and isinstance(n.func, ast.Attribute) and dotted(n.func.value) == 'self._keys' and n.func.attr in ('get', 'pop', 'setdefault') and n.args:
                key_expr = n.args[0]
            if key_expr is None:
                continue
            kname = dotted(key_expr)
            ok = False
            why = ''
            if kname in loop_vars:
                # and used inside that loop's body
                ok = any(any(x is n for x in ast.walk(l)) for l in loops if l.target.id == kname)
                why = 'loop variable used outside its loop'
            if not ok:
                # inside the else: of a search loop (no stored spelling matched)
                for l in loops:
                    if any(x is n for s2 in l.orelse for x in ast.walk(s2)):
                        ok = True
            if not ok and kname is not None:
                # after a search loop that leaves `kname` bound to a stored spelling on both exits
                for l in loops:
                    if n.lineno > (l.end_lineno or l.lineno):
                        in_body = any(isinstance(x, ast.Assign) and any(dotted(t) == kname for t in x.targets) and dotted(x.value) == l.target.id for s2 in l.body for x in ast.walk(s2))
                        in_else = any(isinstance(x, ast.Assign) and any(isinstance(t, ast.Subscript) and dotted(t.value) == 'self._keys' and dotted(t.slice) == kname for t in x.targets)
                                      for s2 in l.orelse for x in ast.walk(s2))
                        if in_body and in_else:
                            ok = True
                        # canonicalising loop: `for k in self._keys: if k.casefold() == <folded key>: key = k; break` - afterwards `key` is the stored
                        # spelling whenever one matches case-insensitively, and otherwise no spelling of it is stored at all
                        canon = any(isinstance(i, ast.If) and 'casefold' in U(i.test) and l.target.id in {x.id for x in ast.walk(i.test) if isinstance(x, ast.Name)}
                                    and any(isinstance(x, ast.Assign) and any(dotted(t) == kname for t in x.targets) and dotted(x.value) == l.target.id for x in i.body)
                                    and isinstance(i.body[-1], ast.Break) for i in l.body if isinstance(i, ast.If))
                        if in_body and canon and not l.orelse:
                            ok = True
            if not ok and kname is not None:
                # the same canonicalisation as an expression: `key = next((k for k in self._keys if k.casefold() == <folded>), key)` - the stored
                # spelling when one matches case-insensitively, otherwise the caller's (and then nothing is stored under any spelling of it)
                for a_ in walk_no_nested(fn):
                    if isinstance(a_, ast.Assign) and any(dotted(t) == kname for t in a_.targets) and a_.lineno < n.lineno and isinstance(a_.value, ast.Call) and dotted(a_.value.func) == 'next' and len(a_.value.args) == 2 \
                            and isinstance(a_.value.args[0], ast.GeneratorExp) and len(a_.value.args[0].generators) == 1 and over_keys(a_.value.args[0].generators[0].iter) \
                            and isinstance(a_.value.args[0].elt, ast.Name) and dotted(a_.value.args[0].generators[0].target) == a_.value.args[0].elt.id \
                            and any('casefold' in U(i_) for i_ in a_.value.args[0].generators[0].ifs):
                        ok = True
            if not ok:
                why = why or 'the key expression is the caller\'s spelling (or a constant), not a spelling known to be stored'
            ctx.check('C07.I8', ok, vm, n, f'Entity.{name}: `{U(n)[:60]}` addresses the case-preserving key store with `{U(key_expr)}`: {why or "stored spelling"}; '
                      'a key stored as "TargetName" is missed, so the previous value used to maintain the indexes is wrong', func=f'Entity.{name}',
                      text=f'{name}: _keys access with {U(key_expr)[:30]}')
    # ---- I4 --------------------------------------------------------------------------------------------
    init = vmf_methods['__init__']
    src = [U(s) for s in walk_no_nested(init) if isinstance(s, (ast.Assign, ast.Expr))]
    ok = any(s.replace('"', "'") == "self.spawn['classname'] = 'worldspawn'" for s in src)
    ctx.check('C07.I4', ok, vm, init, "VMF.__init__ must set self.spawn['classname'] = 'worldspawn' (registers it in by_class)", text='spawn classname registered')
    ok = any(s == 'self.by_target[None].add(self.spawn)' for s in src) or any(
        isinstance(c, ast.Call) and isinstance(c.func, ast.Name) and c.func.id in add_helpers and len(c.args) == 3 and index_of(c.args[0]) == 'by_target' and isinstance(c.args[1], ast.Constant) and c.args[1].value is None
        and dotted(c.args[2]) == 'self.spawn' for c in ast.walk(init))
    ctx.check('C07.I4', ok, vm, init, 'VMF.__init__ must register the spawn in by_target[None]', text='spawn target registered')
    si = ent_methods['__setitem__']
    ok = False
    for n in walk_no_nested(si):
        if isinstance(n, ast.If) and 'self is self.map.spawn' in U(n.test):
            for m in ast.walk(n):
                if isinstance(m, ast.If) and "!= 'worldspawn'" in U(m.test) and any(isinstance(x, ast.Raise) for x in m.body):
                    ok = True
    ctx.check('C07.I4', ok, vm, si, 'the classname arm must refuse (raise) any class but worldspawn for the map spawn', text='spawn re-class refused')
    # the refusal happens after the old by_class entry was removed: before raising, the spawn must be registered again, either by
    # re-entering __setitem__ (self['classname'] = 'worldspawn') or by an explicit by_class['worldspawn'].add(self) next to the key-store revert
    for n in walk_no_nested(si):
        if isinstance(n, ast.If) and 'self is self.map.spawn' in U(n.test):
            for m in ast.walk(n):
                if isinstance(m, ast.If) and "!= 'worldspawn'" in U(m.test) and any(isinstance(x, ast.Raise) for x in m.body):
                    before = []
                    for st in m.body:
                        if isinstance(st, ast.Raise):
                            break
                        before.append(st)
                    via_setitem = any(isinstance(st, ast.Assign) and isinstance(st.targets[0], ast.Subscript) and dotted(st.targets[0].value) == 'self' and isinstance(st.targets[0].slice, ast.Constant)
                                      and str(st.targets[0].slice.value).casefold() == 'classname' and isinstance(st.value, ast.Constant) and str(st.value.value).casefold() == 'worldspawn' for st in before)
                    explicit = any(isinstance(c, ast.Call) and isinstance(c.func, ast.Attribute) and c.func.attr == 'add' and isinstance(c.func.value, ast.Subscript) and index_of(c.func.value.value) == 'by_class'
                                   and isinstance(c.func.value.slice, ast.Constant) and c.func.value.slice.value == 'worldspawn' and [dotted(a) for a in c.args] == ['self'] for st in before for c in ast.walk(st))
                    keys_revert = any(isinstance(st, ast.Assign) and isinstance(st.targets[0], ast.Subscript) and dotted(st.targets[0].value) == 'self._keys' and isinstance(st.value, ast.Constant)
                                      and str(st.value.value).casefold() == 'worldspawn' for st in before)
                    ctx.check('C07.I4', via_setitem or (explicit and keys_revert), vm, m, 'the refused re-class of the map spawn raises after the old by_class entry was removed: before the raise the classname must be '
                              "reverted AND the spawn re-registered in by_class['worldspawn'] (found: " + ('key store reverted only' if keys_revert else ('index entry only' if explicit else 'neither')) + ')',
                              text='spawn re-registered before the refusal is raised')
    di = ent_methods['__delitem__']
    # the refusal: an `if` that mentions the constant 'classname' and raises.  It has to come before the key store is touched, and nothing that
    # can happen in the same call may already have changed an index (a tuple of keys can name classname AND targetname)
    refusals = [n for n in walk_no_nested(di) if isinstance(n, ast.If) and any(isinstance(x, ast.Raise) for x in n.body)
                and any(isinstance(c, ast.Constant) and c.value == 'classname' for c in ast.walk(n.test))]
    ctx.shape('C07.I4', len(refusals) == 1, vm, di, 'Entity.__delitem__ has one raising test on the constant classname', text='classname deletion refused')
    if len(refusals) == 1:
        ref = refusals[0]
        pops = [n for n in walk_no_nested(di) if isinstance(n, ast.Call) and isinstance(n.func, ast.Attribute) and n.func.attr in ('pop', 'clear', 'popitem')
                and isinstance(n.func.value, ast.Attribute) and n.func.value.attr == '_keys'] + \
               [n for n in walk_no_nested(di) if isinstance(n, ast.Delete) and any(isinstance(t, ast.Subscript) and dotted(t.value) == 'self._keys' for t in n.targets)]
        early_pop = [p_ for p_ in pops if p_.lineno < ref.lineno]
        ctx.check('C07.I4', not early_pop, vm, early_pop[0] if early_pop else ref, 'Entity.__delitem__ must refuse to delete classname before it touches the key store', text='classname deletion refused')

        def eq_test(t: ast.AST) -> Optional[tuple]:
            if isinstance(t, ast.Compare) and len(t.ops) == 1 and isinstance(t.ops[0], ast.Eq) and isinstance(t.left, ast.Name) and isinstance(t.comparators[0], ast.Constant):
                return t.left.id, t.comparators[0].value
            return None
        rt = eq_test(ref.test)
        for c in walk_no_nested(di):
            idx_change = isinstance(c, ast.Call) and ((dotted(c.func) == '_remove_copyset') or (isinstance(c.func, ast.Attribute) and c.func.attr in ('add', 'discard', 'remove')
                                                                                                 and 'by_' in U(c.func.value)))
            if not idx_change or c.lineno > ref.lineno:
                continue
            g = vm.parents.get(c)
            while g is not None and g is not di and not (isinstance(g, ast.If) and eq_test(g.test) is not None):
                g = vm.parents.get(g)
            gt = eq_test(g.test) if isinstance(g, ast.If) else None
            exclusive = rt is not None and gt is not None and rt[0] == gt[0] and rt[1] != gt[1]
            ctx.check('C07.I4', exclusive, vm, c, f'Entity.__delitem__ changes an index (`{U(c)[:60]}`) in a call that can still be refused for classname (tests `{U(g.test)[:40] if isinstance(g, ast.If) else "-"}` and '
                      f'`{U(ref.test)[:40]}` are not mutually exclusive): the KeyError leaves the entity with its name but filed as unnamed', text='no index change before the classname refusal')
    # ---- I9: search() consults both indexes for a plain name ------------------------------------------------------------------------
    sf = vmf_methods['search']
    ctx.rule('C07.I9', 'search(): a plain name yields the by_target matches and the by_class matches (neither hides the other); a trailing * searches by_target by prefix', floor=3)
    star = [n for n in sf.body if isinstance(n, ast.If) and "'*'" in U(n.test)]
    ctx.shape('C07.I9', len(star) == 1 and bool(star[0].orelse), vm, sf, "search() branches on a trailing '*' with an else arm for plain names", text='search wildcard split')
    if len(star) == 1 and star[0].orelse:
        def index_mentions(node: ast.AST) -> Set[str]:
            return {a.attr for a in ast.walk(node) if isinstance(a, ast.Attribute) and a.attr in INDEXES}
        # locals derived from an index (loop targets over by_target.items(), assignments)
        derived: dict = {}
        changed = True
        while changed:
            changed = False
            for n in ast.walk(sf):
                srcs: Set[str] = set()
                tg: List[ast.AST] = []
                if isinstance(n, ast.For):
                    srcs, tg = index_mentions(n.iter), [n.target]
                elif isinstance(n, ast.Assign):
                    srcs, tg = index_mentions(n.value), list(n.targets)
                    if any(isinstance(o, ast.BoolOp) and isinstance(o.op, ast.Or) and len(index_mentions(o)) == 2 for o in ast.walk(n.value)):
                        ctx.check('C07.I9', False, vm, n, f'`{U(n)[:80]}` picks the by_class matches only when no entity has that targetname: a name that is both a targetname and a classname '
                                  'loses its classname matches', text='search: indexes combined with `or`')
                else:
                    continue
                for x in ast.walk(n.value if isinstance(n, ast.Assign) else n.iter):
                    if isinstance(x, ast.Name) and x.id in derived:
                        srcs = srcs | derived[x.id]
                for t in tg:
                    for e in ast.walk(t):
                        if isinstance(e, ast.Name) and not srcs <= derived.get(e.id, set()):
                            derived[e.id] = derived.get(e.id, set()) | srcs
                            changed = True
        def yielded_from(stmts: List[ast.stmt]) -> Set[str]:
            out: Set[str] = set()
            for st in stmts:
                for y in ast.walk(st):
                    if isinstance(y, (ast.YieldFrom, ast.Yield)) and y.value is not None:
                        out |= index_mentions(y.value)
                        for x in ast.walk(y.value):
                            if isinstance(x, ast.Name):
                                out |= derived.get(x.id, set())
            return out
        plain = yielded_from(star[0].orelse)
        for idx in INDEXES:
            ctx.check('C07.I9', idx in plain, vm, star[0], f'search() of a plain name never yields entities from {idx}', text=f'search plain name yields {idx}')
        ctx.check('C07.I9', 'by_target' in yielded_from(star[0].body), vm, star[0], 'search() of `name*` never yields entities from by_target', text='search wildcard yields by_target')
        for y in [y for st in star[0].orelse for y in ast.walk(st) if isinstance(y, ast.YieldFrom)]:
            ctx.check('C07.I9', not (isinstance(y.value, ast.BoolOp) and len(index_mentions(y.value)) == 2), vm, y, 'one `yield from a or b` over both indexes hides the second index whenever the first matches', text='search: indexes combined with `or`')
    # ---- I5 --------------------------------------------------------------------------------------------
    ci = vm.func('CopySet.__iter__')
    body = [s for s in ci.body if not (isinstance(s, ast.Expr) and isinstance(s.value, ast.Constant))]
    ok = len(body) >= 2 and isinstance(body[0], (ast.Assign, ast.AnnAssign)) and isinstance(body[0].value, ast.Call) \
        and dotted(body[0].value.func) in ('frozenset', 'set', 'list', 'tuple') and dotted(body[0].value.args[0]) == 'self'
    if ok:
        snap = body[0].targets[0].id if isinstance(body[0], ast.Assign) else body[0].target.id
        y = body[1]
        ok = isinstance(y, ast.Expr) and isinstance(y.value, ast.YieldFrom) and dotted(y.value.value) == snap
    ctx.check('C07.I5', ok, vm, ci, 'CopySet.__iter__ must iterate a snapshot taken before yielding (mutation during iteration is part of the API)', text='snapshot iteration')
    # the same for the generators of VMF: a loop over by_class / by_target (or a view of them) that yields from inside the loop is suspended
    # while the caller renames or removes what it was handed; it has to walk a snapshot (list/tuple/sorted/frozenset of the view)
    n_gen = 0
    for mq_, mfn_ in vm.methods('VMF').items():
        if not any(isinstance(y, (ast.Yield, ast.YieldFrom)) for y in walk_no_nested(mfn_)):
            continue
        for lp_ in walk_no_nested(mfn_):
            if not isinstance(lp_, ast.For):
                continue
            it_ = lp_.iter
            if isinstance(it_, ast.Name):
                # a local assigned once (`named = list(self.by_target.items())`) stands for its definition
                defs_it = [a.value for a in walk_no_nested(mfn_) if isinstance(a, ast.Assign) and any(isinstance(t, ast.Name) and t.id == it_.id for t in a.targets)]
                if len(defs_it) == 1:
                    it_ = defs_it[0]
            base_ = it_.func.value if isinstance(it_, ast.Call) and isinstance(it_.func, ast.Attribute) and it_.func.attr in ('items', 'keys', 'values') else it_
            snap_ = isinstance(it_, ast.Call) and dotted(it_.func) in ('list', 'tuple', 'sorted', 'frozenset', 'set') and it_.args and any(index_of(x) for x in ast.walk(it_.args[0]))
            live_ = index_of(base_) is not None
            if not (snap_ or live_):
                continue
            if not any(isinstance(y, (ast.Yield, ast.YieldFrom)) for b in lp_.body for y in ast.walk(b)):
                continue
            n_gen += 1
            ctx.check('C07.I5', snap_, vm, lp_, f'VMF.{mq_} yields from inside `for {U(lp_.target)} in {U(it_)[:50]}`, a live view of the index: renaming or removing an entity it handed out changes the mapping while the '
                      'generator is suspended (RuntimeError "dictionary changed size during iteration", or entities visited twice / never)', func=f'VMF.{mq_}', text=f'VMF.{mq_}: index walked through a snapshot')
    ctx.shape('C07.I5', n_gen >= 2, vm, vm.tree, f'{n_gen} yielding loops over an index found in the generators of VMF (2 in search() confirmed by hand)', text='yielding index loops')
    # ---- I6 --------------------------------------------------------------------------------------------
    for qual, fns in vm.all_funcs().items():
        for fn in fns:
            if qual == 'VMF.__init__':
                continue
            for n in walk_no_nested(fn):
                if isinstance(n, ast.Assign) and any(isinstance(t, ast.Attribute) and t.attr == 'spawn' for t in n.targets):
                    tgt = next(t for t in n.targets if isinstance(t, ast.Attribute) and t.attr == 'spawn')
                    base = U(tgt.value)
                    removed = set()
                    for c in walk_no_nested(fn):
                        if isinstance(c, ast.Call) and dotted(c.func) == '_remove_copyset' and c.lineno < n.lineno and len(c.args) == 3 \
                                and U(c.args[2]) == f'{base}.spawn' and index_of(c.args[0]):
                            removed.add(index_of(c.args[0]))
                    ctx.check('C07.I6', removed == set(INDEXES), vm, n,
                              f'`{U(n)[:60]}` replaces the map spawn; the previous spawn (registered by VMF.__init__) must first be removed from '
                              f'by_class and by_target (removed from: {sorted(removed)}) or it stays in the lookups as a ghost entity', func=qual,
                              text=f'{base}.spawn replaced')

    # ---- I3 (adding): add_ent / add_ents file every entity they append --------------------------------------------------------------------------
    # An entity in `entities` is in `by_class` under its (possibly blank) class and in `by_target` under its name or None.  Filing it only
    # when the classname is non-empty leaves a class-less entity out of by_class[''], where remove_ent and __setitem__ expect it.
    for mname_ in ('add_ent', 'add_ents'):
        af_ = vm.methods('VMF').get(mname_)
        if af_ is None:
            raise AnalysisError(f'anchor vanished: VMF.{mname_}')
        adds_ = [c for c in ast.walk(af_) if isinstance(c, ast.Call) and isinstance(c.func, ast.Attribute) and c.func.attr == 'add' and isinstance(c.func.value, ast.Subscript) and (dotted(c.func.value.value) or '').endswith('by_class')]
        ctx.shape('C07.I3', len(adds_) >= 1, vm, af_, f'VMF.{mname_} adds the entity to by_class', func=f'VMF.{mname_}', text=f'{mname_}: files under by_class')
        for ad_ in adds_:
            conds_ = []
            ch_ = ad_
            an_ = vm.parents.get(ch_)
            while an_ is not None and an_ is not af_:
                if isinstance(an_, (ast.If, ast.IfExp)):
                    conds_.append(an_)
                ch_, an_ = an_, vm.parents.get(an_)
            ctx.check('C07.I3', not conds_, vm, ad_, f'VMF.{mname_} files the entity under by_class only when `{U(conds_[0].test)[:50] if conds_ else ""}`: an entity for which the test fails is in `entities` but in no class set, '
                      'so by_class disagrees with the entity list (and with remove_ent / __setitem__, which look for it under the blank class)', func=f'VMF.{mname_}', text=f'{mname_}: by_class filing is unconditional')


MUTANTS = [
    {'id': 'add_ent_skips_classless', 'file': 'vmf.py', 'find': "        self.by_class[item['classname', ''].casefold()].add(item)\n", 'replace': "        if item['classname', '']:\n            self.by_class[item['classname', ''].casefold()].add(item)\n", 'expect': 'C07.I3', 'note': 'round 13'},
    {'id': 'make_unique_claims_the_name', 'file': 'vmf.py', 'find': "            # The base name is free!\n            self['targetname'] = base_name\n", 'replace': "            # The base name is free!\n            self['targetname'] = base_name\n            self.map.by_target[base_name.casefold() or None].add(self)\n", 'expect': 'C07.I3'},
    {'id': 'add_ent_folds_with_lower', 'file': 'vmf.py', 'find': "        self.by_class[item['classname', ''].casefold()].add(item)\n        self.by_target[item['targetname', ''].casefold() or None].add(item)", 'replace': "        self.by_class[item['classname', ''].lower()].add(item)\n        self.by_target[item['targetname', ''].lower() or None].add(item)", 'expect': 'C07.I1'},
    {'id': 'search_wildcard_walks_live_index', 'file': 'vmf.py', 'find': "            for ent_name, ents in list(self.by_target.items()):\n                if ent_name is not None and ent_name.casefold().startswith(name):", 'replace': "            for ent_name, ents in self.by_target.items():\n                if ent_name is not None and ent_name.casefold().startswith(name):", 'expect': 'C07.I5'},
    {'id': 'move_helper_adds_to_stale_set', 'file': 'vmf.py', 'find': "class StrataInstanceVisibility(Enum):", 'replace': "def _move_copyset(mapping, old_key, new_key, ent):\n    old_set = mapping.get(old_key, None)\n    new_set = mapping[new_key]\n    if old_set is not None:\n        old_set.discard(ent)\n        if not old_set:\n            del mapping[old_key]\n    new_set.add(ent)\n\n\nclass StrataInstanceVisibility(Enum):", 'extra': [{'file': 'vmf.py', 'find': "            _remove_copyset(self.map.by_target, (orig_val or '').casefold() or None, self)\n            if self in self.map.entities or self is self.map.spawn:\n                self.map.by_target[str_val.casefold() or None].add(self)\n", 'replace': "            old_name = (orig_val or '').casefold() or None\n            if self in self.map.entities or self is self.map.spawn:\n                _move_copyset(self.map.by_target, old_name, str_val.casefold() or None, self)\n            else:\n                _remove_copyset(self.map.by_target, old_name, self)\n"}], 'expect': 'C07.I3'},
    {'id': 'ok_move_helper_removes_then_fetches', 'file': 'vmf.py', 'find': "class StrataInstanceVisibility(Enum):", 'replace': "def _move_copyset(mapping, old_key, new_key, ent):\n    _remove_copyset(mapping, old_key, ent)\n    mapping[new_key].add(ent)\n\n\nclass StrataInstanceVisibility(Enum):", 'extra': [{'file': 'vmf.py', 'find': "            _remove_copyset(self.map.by_target, (orig_val or '').casefold() or None, self)\n            if self in self.map.entities or self is self.map.spawn:\n                self.map.by_target[str_val.casefold() or None].add(self)\n", 'replace': "            old_name = (orig_val or '').casefold() or None\n            if self in self.map.entities or self is self.map.spawn:\n                _move_copyset(self.map.by_target, old_name, str_val.casefold() or None, self)\n            else:\n                _remove_copyset(self.map.by_target, old_name, self)\n"}], 'expect': None, 'refuse_ok': True, 'note': 'negative control: move helper that removes first and then looks the new set up'},
    {'id': 'create_ent_indexes_from_arguments', 'file': 'vmf.py', 'find': "        ent = Entity(self, keys=kargs)\n        self.add_ent(ent)\n", 'replace': "        ent = Entity(self, keys=kargs)\n        self.entities.append(ent)\n        self.by_class[classname.casefold()].add(ent)\n        self.by_target[str(kargs.get('targetname', '')).casefold() or None].add(ent)\n", 'expect': 'C07.I1'},
    {'id': 'delitem_adds_before_removing', 'file': 'vmf.py', 'find': "        if key == 'targetname':\n            _remove_copyset(self.map.by_target, self['targetname'].casefold() or None, self)\n            if self in self.map.entities or self is self.map.spawn:\n                self.map.by_target[None].add(self)\n", 'replace': "        if key == 'targetname':\n            old_name = self['targetname'].casefold() or None\n            if self in self.map.entities or self is self.map.spawn:\n                self.map.by_target[None].add(self)\n            _remove_copyset(self.map.by_target, old_name, self)\n", 'expect': 'C07.I3'},
    {'id': 'setitem_returns_when_value_unchanged', 'file': 'vmf.py', 'find': "        # TODO: if 'mapversion' is passed and self is self.map.spawn, update version there.\n", 'replace': "        if orig_val == str_val:\n            return\n        # TODO: if 'mapversion' is passed and self is self.map.spawn, update version there.\n", 'expect': 'C07.I3'},
    {'id': 'search_classname_only_if_no_targetname', 'file': 'vmf.py', 'find': "            if name in list(self.by_class):\n                yield from self.by_class[name]", 'replace': "            yield from (self.by_target.get(name) or self.by_class.get(name) or ())", 'expect': 'C07.I9'},
    {'id': 'search_drops_classname_lookup', 'file': 'vmf.py', 'find': "            if name in list(self.by_class):\n                yield from self.by_class[name]", 'replace': "            pass", 'expect': 'C07.I9'},
    {'id': 'search_class_via_get', 'file': 'vmf.py', 'find': "            if name in list(self.by_class):\n                yield from self.by_class[name]", 'replace': "            yield from self.by_class.get(name, ())", 'expect': None},
    {'id': 'spawn_revert_key_store_only', 'file': 'vmf.py', 'find': "                    self['classname'] = 'worldspawn'  # Revert the change.", 'replace': "                    self._keys[key] = 'worldspawn'", 'expect': 'C07.I4'},
    {'id': 'spawn_revert_explicit_both', 'file': 'vmf.py', 'find': "                    self['classname'] = 'worldspawn'  # Revert the change.", 'replace': "                    self._keys[key] = 'worldspawn'\n                    self.map.by_class['worldspawn'].add(self)", 'expect': None},
    {'id': 'add_ents_generator', 'file': 'vmf.py', 'find': "        ents = list(ents)\n        self.entities.extend(ents)", 'replace': "        self.entities.extend(ents)", 'expect': 'C07.I7'},
    {'id': 'orig_val_hoisted', 'file': 'vmf.py', 'find': "        key_fold = key.casefold()\n        for k in self._keys:\n            if k.casefold() == key_fold:\n                # Check case-insensitively for this key first\n                orig_val = self._keys.get(k)", 'replace': "        key_fold = key.casefold()\n        orig_val = self._keys.get(key)\n        for k in self._keys:\n            if k.casefold() == key_fold:\n                # Check case-insensitively for this key first", 'expect': 'C07.I8'},
    {'id': 'add_ent_unfolded', 'file': 'vmf.py', 'find': "        self.by_class[item['classname', ''].casefold()].add(item)", 'replace': "        self.by_class[item['classname', '']].add(item)", 'expect': 'C07.I1'},
    {'id': 'setitem_target_unfolded', 'file': 'vmf.py', 'find': "                self.map.by_target[str_val.casefold() or None].add(self)", 'replace': "                self.map.by_target[str_val or None].add(self)", 'expect': 'C07.I1'},
    {'id': 'setitem_target_empty_not_none', 'file': 'vmf.py', 'find': "                self.map.by_target[str_val.casefold() or None].add(self)", 'replace': "                self.map.by_target[str_val.casefold()].add(self)", 'expect': 'C07.I1'},
    {'id': 'remove_old_class_unfolded', 'file': 'vmf.py', 'find': "_remove_copyset(self.map.by_class, (orig_val or '').casefold(), self)", 'replace': "_remove_copyset(self.map.by_class, orig_val or '', self)", 'expect': 'C07.I1'},
    {'id': 'pop_direct', 'file': 'vmf.py', 'find': "                value = self._keys[k]\n                # Use __delitem__, so by_class/by_target and node IDs are updated.\n                del self[k]\n                return value", 'replace': "                return self._keys.pop(k)", 'expect': 'C07.I2'},
    {'id': 'unguarded_add', 'file': 'vmf.py', 'find': "            if self in self.map.entities or self is self.map.spawn:\n                self.map.by_target[None].add(self)", 'replace': "            self.map.by_target[None].add(self)", 'expect': 'C07.I3'},
    {'id': 'remove_ent_forgets_target', 'file': 'vmf.py', 'find': "        _remove_copyset(self.by_target, item['targetname'].casefold() or None, item)\n        # Neither the entity ID", 'replace': "        # Neither the entity ID", 'expect': 'C07.I3'},
    {'id': 'setitem_no_remove', 'file': 'vmf.py', 'find': "            _remove_copyset(self.map.by_class, (orig_val or '').casefold(), self)\n", 'replace': "", 'expect': 'C07.I3'},
    {'id': 'spawn_reclass_allowed', 'file': 'vmf.py', 'find': "                    raise ValueError('The worldspawn entity must remain worldspawn!')", 'replace': "                    pass", 'expect': 'C07.I4'},
    {'id': 'copyset_live_iteration', 'file': 'vmf.py', 'find': "        cur_items: frozenset[T] = frozenset(self)\n\n        yield from cur_items", 'replace': "        cur_items: frozenset[T] = frozenset(self)\n\n        yield from set.__iter__(self)", 'expect': 'C07.I5'},
    {'id': 'parse_keeps_ghost_spawn', 'file': 'vmf.py', 'find': "        _remove_copyset(map_obj.by_class, 'worldspawn', map_obj.spawn)\n", 'replace': "", 'expect': 'C07.I6'},
    {'id': 'fold_via_lower', 'file': 'vmf.py', 'find': "        self.by_class[item['classname', ''].casefold()].add(item)", 'replace': "        cls_key = item['classname', ''].casefold()\n        self.by_class[cls_key].add(item)", 'expect': None, 'note': 'negative control: folded key held in a local'},
]
