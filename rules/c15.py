"""C15 - VTF save / read round trip: structural clauses (DESIGN.md C15).

  F1  header and resource table: for file versions 7.2-7.5 the slot sequence VTF.read consumes equals the one VTF.save produces
      (resource entries normalised as a counted repetition); every header slot links to the same VTF attribute on both sides;
      the resource count written equals the number of entries written (same guards).
  F2  frame order and frame table: the loop nest around the frame read equals the one around the frame write (mipmaps reversed,
      frames, depth/side sequence), both index _frames with the same key order; the constructor's frame table matches the
      mipmap_count it declares; the side sequence used by save() is computed from the version that is written.
  F3  codecs (bit provenance, engine/bits.py): for every uncompressed format with a Python saver and loader, load(save(p))
      returns for every channel bit either a constant, the same bit of the same channel, or a replicated higher bit of the
      same channel - never a bit of another channel; the number of exactly preserved top bits per channel is at least what
      ImageFormats declares; save() only reads preserved bits (so storing again changes nothing); the Cython codecs have the
      same bit maps as the Python ones; savers and loaders are registered by name for the same formats.
  F4  bounds: Frame.__getitem__/__setitem__ reject x, y outside 0 <= x < width, 0 <= y < height before the offset is computed.
  F5  mipmaps: rescale_from accepts only equal or doubled dimensions; the bilinear arm of scale_down averages exactly the four
      parent samples (offsets 0, horiz, vert, both) and divides by 4 - Python and Cython.
  F6  particle sheet: from_resource and make_data agree on the slot sequence for versions 0 and 1, on the 16/64-byte coordinate
      blocks, and on field linkage.
"""
from __future__ import annotations

import ast
import re
from typing import Any, Dict, List, Optional, Set, Tuple

from engine.srcmatch import U
from engine.bits import BV, TOP, Codec, compose, run_codec
from engine.fold import Folder
from engine.model import AnalysisError, Program, dotted, walk_no_nested
from engine.pyx import PyxFile, pyx_body_to_ast
from engine.wire import Config, Extractor, atoms, expand, flatten, simplify, value_count

LEVEL = 'other'
CH = 'RGBA'
# formats whose table entry declares bits that the codec deliberately does not carry (one line of reason each)
DECLARED_NOT_CARRIED = {
    ('BGRX8888', 3): 'X byte is padding: written as 0, read as opaque',
    ('BGRX5551', 3): 'X bit is padding',
}
ARITHMETIC = {'I8': 'grey = (r+g+b)//3', 'IA88': 'grey = (r+g+b)//3 (alpha is decided)'}


def norm_repeat(s: str) -> str:
    """(X)*X -> (X)*,  (X)*[X|] -> (X)*"""
    prev = None
    while prev != s:
        prev = s
        s = re.sub(r'\((?P<x>[^()]+)\)\*(?P=x)', r'(\g<x>)*', s)
        s = re.sub(r'\((?P<x>[^()]+)\)\*\[(?P=x)\|\]', r'(\g<x>)*', s)
    return s


def fmt_table(vtf: Any) -> Dict[str, Tuple[int, int, int, int]]:
    """ImageFormats members -> declared (r, g, b, a) bits, folded from the _mk_fmt(...) calls"""
    out: Dict[str, Tuple[int, int, int, int]] = {}
    for st in vtf.cls('ImageFormats').body:
        if isinstance(st, ast.Assign) and isinstance(st.targets[0], ast.Name) and isinstance(st.value, ast.Call) and dotted(st.value.func) == '_mk_fmt':
            vals = [0, 0, 0, 0]
            for i, a in enumerate(st.value.args):
                vals[i] = a.value
            kw = {k.arg: k.value.value for k in st.value.keywords}
            for i, n in enumerate('rgba'):
                if n in kw:
                    vals[i] = kw[n]
            if kw.get('grey'):
                vals[0] = vals[1] = vals[2] = kw['grey']
            out[st.targets[0].id] = (vals[0], vals[1], vals[2], vals[3])
    if len(out) < 25:
        raise AnalysisError('ImageFormats table not recognised')
    return out


def bv_desc(bv: BV) -> str:
    return repr(bv)


def _anc(mod: Any, n: ast.AST, stop: ast.AST) -> List[ast.AST]:
    out = []
    p = mod.parents.get(n)
    while p is not None and p is not stop:
        out.append(p)
        p = mod.parents.get(p)
    return out


def _global_or_none(mod: Any, name: str) -> Any:
    try:
        return mod.global_assign(name)
    except AnalysisError:
        return ast.Constant(value=None)


def run(ctx: Any, prog: Program) -> None:
    vtf = prog.module('vtf')
    py = prog.module('_py_vtf_readwrite')
    fold = Folder(prog, vtf)
    vm = vtf.methods('VTF')
    fr = vtf.methods('Frame')
    ctx.not_decided += ['pixel equality for DXT/ATI formats', 'grey-scale formats (arithmetic mean)', 'bluescreen formats (data-dependent branch)', 'resource payload bytes', 'reflectivity float32 rounding']
    ctx.rule('C15.F1', 'header / resource table: same slots, same attribute per slot, count field equals entries written (versions 7.2-7.5)', floor=20)
    ctx.rule('C15.F2', 'frame loop nest and frame table agree between constructor, save() and read()', floor=6)
    ctx.rule('C15.F3', 'codecs: load(save(p)) keeps every channel in its own channel, preserves the declared top bits, is idempotent; Python = Cython', floor=60)
    ctx.rule('C15.F4', 'pixel access is bounded below and strictly above in both coordinates before the offset is formed', floor=4)
    ctx.rule('C15.F5', 'mipmap scaling: equal-or-double sizes only; bilinear = mean of the four parents', floor=4)
    ctx.rule('C15.F6', 'particle sheet reader and writer agree per version', floor=6)
    ctx.rule('C15.F7', 'read() keeps out of the raw resource table every id that save() writes from structured state', floor=3)

    rd, sv = vm['read'], vm['save']
    # ---- F1 --------------------------------------------------------------------------------------------------
    # the locals that carry the minor version and the object under construction, found by what they are assigned from
    def _second_of_pair(fn: ast.AST, pred: Any) -> Optional[str]:
        for n in walk_no_nested(fn):
            if isinstance(n, ast.Assign) and isinstance(n.targets[0], ast.Tuple) and len(n.targets[0].elts) == 2 and all(isinstance(e, ast.Name) for e in n.targets[0].elts) and pred(n.value):
                return n.targets[0].elts[1].id
        return None
    vminor_r = _second_of_pair(rd, lambda v: isinstance(v, ast.Call) and dotted(v.func) == 'struct.unpack' and v.args and isinstance(v.args[0], ast.Constant) and expand(str(v.args[0].value)) == 'II')
    vminor_w = _second_of_pair(sv, lambda v: dotted(v) in ('version', 'self.version'))
    robjs = [n.targets[0].id for n in walk_no_nested(rd) if isinstance(n, ast.Assign) and isinstance(n.targets[0], ast.Name) and isinstance(n.value, ast.Call) and dotted(n.value.func) in ('cls.__new__', 'cls')]
    if vminor_r is None or vminor_w is None or len(robjs) != 1:
        raise AnalysisError('VTF.read/save: the minor-version locals or the object under construction were not found')
    robj = robjs[0]
    for minor in (2, 3, 4, 5):
        # the version as the object under construction holds it (`vtf.version >= (7, 3)`): the pair read from the header
        ri = Extractor(vtf, fold, Config({vminor_r: minor, f'{robj}.version': (7, minor)}, None), 'VTF', {}).extract(rd)
        wi = Extractor(vtf, fold, Config({vminor_w: minor}, None), 'VTF', {}).extract(sv)
        rs, ws = norm_repeat(simplify(flatten(ri))), norm_repeat(simplify(flatten(wi)))
        if minor < 3:
            ws = ws.rstrip('x')       # 7.2 pads the header to 80 bytes; the reader seeks by header_size
            rs = rs.rstrip('x')
        if '[' in rs or '[' in ws:
            # a gate the configuration does not decide: the token strings are not comparable, no verdict
            ctx.shape('C15.F1', False, vtf, sv, f'version 7.{minor}: read() consumes `{rs}` but save() produces `{ws}`', func='VTF.save', text=f'slots v7.{minor}')
        else:
            ctx.check('C15.F1', rs == ws, vtf, sv, f'version 7.{minor}: read() consumes `{rs}` but save() produces `{ws}`', func='VTF.save', text=f'slots v7.{minor}')
    # header linkage
    hr = [n for n in walk_no_nested(rd) if isinstance(n, ast.Assign) and isinstance(n.value, ast.Call) and dotted(n.value.func) == '_HEADER.unpack']
    hw = [n for n in walk_no_nested(sv) if isinstance(n, ast.Call) and dotted(n.func) == '_HEADER.pack']
    if len(hr) != 1 or len(hw) != 1 or not isinstance(hr[0].targets[0], ast.Tuple):
        raise AnalysisError('VTF header unpack/pack not found')
    rnames = [dotted(e) for e in hr[0].targets[0].elts]
    wargs: List[Optional[ast.AST]] = []
    nslots = value_count(fold.global_('_HEADER').fmt)
    stars = [a for a in hw[0].args if isinstance(a, ast.Starred)]
    plain = len(hw[0].args) - len(stars)
    if len(stars) > 1:
        raise AnalysisError('_HEADER.pack: more than one starred argument')
    for a in hw[0].args:
        if isinstance(a, ast.Starred):
            wargs += [a.value] * (nslots - plain)
        else:
            wargs.append(a)
    ctx.check('C15.F1', len(rnames) == nslots == len(wargs), vtf, hw[0], f'header has {nslots} slots; read() unpacks {len(rnames)}, save() packs {len(wargs)}', func='VTF.save', text='header arity')
    # reader: name -> attribute of vtf it reaches
    reach: Dict[str, Set[str]] = {}
    for n in walk_no_nested(rd):
        if isinstance(n, ast.Assign):
            srcs = {x.id for x in ast.walk(n.value) if isinstance(x, ast.Name)}
            for t in n.targets:
                for el in ([t] if not isinstance(t, ast.Tuple) else t.elts):
                    if isinstance(el, ast.Attribute) and dotted(el.value) == robj:
                        for s in srcs:
                            reach.setdefault(s, set()).add(el.attr)
    if len(rnames) == len(wargs):
        for i, (rn, wa) in enumerate(zip(rnames, wargs)):
            wattrs = {x.attr for x in ast.walk(wa) if isinstance(x, ast.Attribute) and dotted(x.value) == 'self'} if wa is not None else set()
            # a local of save() carries the attributes its definitions read (`mipmap_count = self.mipmap_count`)
            if wa is not None:
                pend_, seen_ = [x.id for x in ast.walk(wa) if isinstance(x, ast.Name)], set()
                while pend_:
                    nm_ = pend_.pop()
                    if nm_ in seen_:
                        continue
                    seen_.add(nm_)
                    for a_ in walk_no_nested(sv):
                        if isinstance(a_, ast.Assign) and any(isinstance(t, ast.Name) and t.id == nm_ for t in a_.targets):
                            wattrs |= {x.attr for x in ast.walk(a_.value) if isinstance(x, ast.Attribute) and dotted(x.value) == 'self'}
                            pend_ += [x.id for x in ast.walk(a_.value) if isinstance(x, ast.Name)]
            rattrs = reach.get(rn or '', set())
            if not wattrs and isinstance(wa, ast.Constant):
                ctx.check('C15.F1', not rattrs, vtf, wa, f'slot {i}: a constant is packed where read() takes `{rn}`', func='VTF.save', text=f'header slot {i} placeholder')
                continue
            ctx.check('C15.F1', bool(wattrs & rattrs), vtf, wa or hw[0], f'header slot {i}: read() stores it into {sorted(rattrs)} (via `{rn}`) but save() packs `{U(wa)[:50]}`', func='VTF.save',
                      text=f'header slot {i} {rn}')
    # a test of save() is a *version gate* when it depends on the version being written - the `version` parameter (defaulted from
    # self.version), its two halves, a local computed from them, or a helper method that is handed one of them.  A gate that goes back to
    # self.version (directly, or through a helper method that reads it and is not given the version) ignores save(version=...): the header
    # says one version and the layout is that of another.
    ver_names = {vminor_w, 'version'} | {e.id for a in walk_no_nested(sv) if isinstance(a, ast.Assign) and dotted(a.value) == 'version' for t in a.targets for e in ast.walk(t) if isinstance(e, ast.Name)}
    sv_locals: Dict[str, List[ast.AST]] = {}
    for a in walk_no_nested(sv):
        if isinstance(a, ast.Assign):
            for t in a.targets:
                if isinstance(t, ast.Name):
                    sv_locals.setdefault(t.id, []).append(a.value)
    def _gate_kind(t: ast.AST, depth: int = 0) -> Optional[str]:
        kinds: Set[str] = set()
        for x in ast.walk(t):
            if isinstance(x, ast.Name) and x.id in ver_names:
                kinds.add('param')
            elif isinstance(x, ast.Name) and x.id in sv_locals and depth < 3 and x.id not in ver_names:
                for d in sv_locals[x.id]:
                    k = _gate_kind(d, depth + 1)
                    if k:
                        kinds.add(k)
            elif isinstance(x, ast.Attribute) and dotted(x) == 'self.version':
                kinds.add('self')
            elif isinstance(x, ast.Call) and isinstance(x.func, ast.Attribute) and dotted(x.func.value) == 'self' and x.func.attr in vm and depth < 3:
                hb = vm[x.func.attr]
                if any(dotted(y) == 'self.version' for y in ast.walk(hb) if isinstance(y, ast.Attribute)):
                    given = any(isinstance(y, ast.Name) and y.id in ver_names for a_ in list(x.args) + [k_.value for k_ in x.keywords] for y in ast.walk(a_))
                    kinds.add('param' if given else 'self')
        return 'self' if 'self' in kinds else ('param' if kinds else None)
    n_gates = 0
    for q in walk_no_nested(sv):
        if isinstance(q, (ast.If, ast.IfExp, ast.While)) and not (isinstance(q, ast.If) and U(q.test).replace(' ', '') == 'versionisNone'):
            gk = _gate_kind(q.test)
            if gk is None:
                continue
            n_gates += 1
            ctx.check('C15.F1', gk == 'param', vtf, q, f'save() decides `{U(q.test)[:50]}` from self.version, not from the version it was asked to write: with save(version=...) the header carries the requested version '
                      'while this part of the file is laid out for the object\'s own one (resource table present or absent, offsets shifted)', func='VTF.save', text=f'gate `{U(q.test)[:40]}` follows the written version')
    ctx.shape('C15.F1', n_gates >= 5, vtf, sv, f'{n_gates} version gates found in save() (at least 5 confirmed by hand)', func='VTF.save', text='version gates of save()')
    # a header slot carries the field itself: a local that save() masks or edits before packing it (`flags &= ~ALPHA` when the format has no
    # alpha bits) writes another value than the object holds, and read() hands that other value back
    for i_, wa_ in enumerate(wargs):
        if wa_ is None:
            continue
        for nm_ in {x.id for x in ast.walk(wa_) if isinstance(x, ast.Name)}:
            edits_ = [a for a in walk_no_nested(sv) if isinstance(a, ast.AugAssign) and isinstance(a.target, ast.Name) and a.target.id == nm_ and isinstance(a.op, (ast.BitAnd, ast.BitOr, ast.BitXor))]
            if edits_:
                ctx.check('C15.F1', False, vtf, edits_[0], f'save() edits the local `{nm_}` (`{U(edits_[0])[:50]}`) before packing it into header slot {i_}: the file holds a masked copy of the field, so the flags read back '
                          'differ from the flags of the object that was saved', func='VTF.save', text=f'header slot {i_} is packed as the object holds it')
    # resource count = entries written
    # the count is whatever save() packs into the `<3xI8x` resource header
    cnt_packs = [c for c in walk_no_nested(sv) if isinstance(c, ast.Call) and dotted(c.func) == 'struct.pack' and len(c.args) == 2 and isinstance(c.args[0], ast.Constant) and expand(str(c.args[0].value)) == expand('<3xI8x')
                 and isinstance(c.args[1], ast.Name)]
    res_count_var = cnt_packs[0].args[1].id if len(cnt_packs) == 1 else 'res_count'
    # save() writes the object, it does not edit it: nothing is stored into self.resources (directly or through a local alias of it).  The
    # encoded particle sheet parked there would be read back by the NEXT save as a raw resource - also after sheet_info was emptied - and the
    # saved object no longer equals what is read back from its own file.
    res_aliases = {'self.resources'} | {t.id for a in walk_no_nested(sv) if isinstance(a, ast.Assign) and dotted(a.value) == 'self.resources' for t in a.targets if isinstance(t, ast.Name)}
    res_stores = [a for a in walk_no_nested(sv) if isinstance(a, (ast.Assign, ast.AugAssign, ast.Delete)) for t in (a.targets if not isinstance(a, ast.AugAssign) else [a.target])
                  if isinstance(t, ast.Subscript) and (dotted(t.value) or '') in res_aliases]
    res_stores += [c for c in walk_no_nested(sv) if isinstance(c, ast.Call) and isinstance(c.func, ast.Attribute) and c.func.attr in ('update', 'setdefault', 'pop', 'clear', 'popitem') and (dotted(c.func.value) or '') in res_aliases]
    ctx.check('C15.F7', not res_stores, vtf, res_stores[0] if res_stores else sv, f'VTF.save() edits the resource table of the object it is saving (`{U(res_stores[0])[:70] if res_stores else ""}`): the encoded sheet stays in '
              'self.resources, so the object differs from what its own file reads back, and a later save writes the stale copy even after sheet_info was changed', func='VTF.save', text='save() does not edit self.resources')
    rc = [n for n in walk_no_nested(sv) if isinstance(n, ast.Assign) and dotted(n.targets[0]) == res_count_var]
    if len(rc) != 1:
        raise AnalysisError('save(): res_count not found')
    base = U(rc[0].value)
    m = re.fullmatch(r'len\(self\.resources\) \+ (\d+)', base)
    if not m:
        raise AnalysisError(f'save(): res_count idiom `{base}` not recognised')
    fixed = int(m.group(1))
    incs = [n for n in walk_no_nested(sv) if isinstance(n, ast.If) and any(isinstance(s, ast.AugAssign) and dotted(s.target) == res_count_var for s in n.body)]
    inc_guards = sorted(U(n.test) for n in incs)
    # entries: struct.pack('<3sB..') calls outside the resources loop
    ent_uncond, ent_guards = 0, []
    parents = vtf.parents
    # a local helper of save() that packs one table entry (`def offset_entry(res_id, key, flags=0)`): each call of it is an entry
    entry_helpers = {f_.name for f_ in ast.walk(sv) if isinstance(f_, ast.FunctionDef) and f_ is not sv and any(isinstance(x, ast.Call) and dotted(x.func) == 'struct.pack' and x.args and isinstance(x.args[0], ast.Constant)
                                                                                                                 and str(x.args[0].value).startswith('<3sB') for x in ast.walk(f_))}
    in_res_loop: List[ast.Call] = []
    for c in walk_no_nested(sv):
        if isinstance(c, ast.Call) and ((dotted(c.func) == 'struct.pack' and c.args and isinstance(c.args[0], ast.Constant) and str(c.args[0].value).startswith('<3sB')) or (isinstance(c.func, ast.Name) and c.func.id in entry_helpers)):
            p = c
            guard = None
            in_loop = False
            while p is not sv:
                q = parents.get(p)
                if isinstance(q, ast.For):
                    in_loop = True
                if isinstance(q, ast.If) and _gate_kind(q.test) is None and p in q.body:
                    guard = U(q.test)
                p = q
            if in_loop:
                in_res_loop.append(c)
                continue
            if guard is None:
                ent_uncond += 1
            else:
                ent_guards.append(guard)
    ctx.check('C15.F1', ent_uncond == fixed and sorted(ent_guards) == inc_guards, vtf, rc[0], f'res_count adds {fixed} fixed entries and one under {inc_guards}; save() writes {ent_uncond} unconditional entries and one under {sorted(ent_guards)}',
              func='VTF.save', text='resource count = entries written')
    # the entries of the user's own resources carry that resource's flags byte (read() stores it in Resource.flags): every entry written
    # inside the loop over self.resources takes it from the loop's resource
    for c in in_res_loop:
        lp_ = next((a for a in _anc(vtf, c, sv) if isinstance(a, ast.For)), None)
        res_vars = {x.id for x in ast.walk(lp_.target) if isinstance(x, ast.Name)} if lp_ is not None else set()
        has_flags = any(isinstance(x, ast.Attribute) and x.attr == 'flags' and isinstance(x.value, ast.Name) and x.value.id in res_vars for a in list(c.args) + [k.value for k in c.keywords] for x in ast.walk(a))
        ctx.check('C15.F1', has_flags, vtf, c, f'`{U(c)[:70]}` writes the table entry of a user resource without its flags (nothing derived from `<resource>.flags` is passed): the flags byte is written as a constant and '
                  'the resource reads back with other flags than it had', func='VTF.save', text=f'user resource entry carries its flags: {U(c)[:30]}')
    # an offset recorded with file.tell() is the position of the item's first byte: whatever is written next is what the reader finds there.
    # Filler (alignment padding: bytes(n), b'\\0' * n) written *after* the offset was recorded shifts the item away from its recorded position.
    def is_filler(e: ast.AST) -> bool:
        if isinstance(e, ast.Call) and dotted(e.func) in ('bytes', 'bytearray') and len(e.args) == 1 and not isinstance(e.args[0], (ast.Constant, ast.List, ast.Tuple)) \
                and not (isinstance(e.args[0], ast.Call) and dotted(e.args[0].func) in ('len',)):
            return any(isinstance(x, ast.Call) and isinstance(x.func, ast.Attribute) and x.func.attr == 'tell' for x in ast.walk(e)) or any(isinstance(x, ast.BinOp) and isinstance(x.op, ast.Mod) for x in ast.walk(e))
        if isinstance(e, ast.BinOp) and isinstance(e.op, ast.Mult) and any(isinstance(x, ast.Constant) and isinstance(x.value, bytes) and set(x.value) <= {0} and x.value for x in (e.left, e.right)):
            return True
        return False
    n_off = 0
    for st_list in [getattr(n, f) for n in ast.walk(sv) for f in ('body', 'orelse') if isinstance(getattr(n, f, None), list)]:
        for i_, st in enumerate(st_list):
            if isinstance(st, ast.Expr) and isinstance(st.value, ast.Call) and isinstance(st.value.func, ast.Attribute) and st.value.func.attr == 'set_data' \
                    and any(isinstance(a, ast.Call) and isinstance(a.func, ast.Attribute) and a.func.attr == 'tell' for a in st.value.args):
                n_off += 1
                nxt = st_list[i_ + 1] if i_ + 1 < len(st_list) else None
                filler = isinstance(nxt, ast.Expr) and isinstance(nxt.value, ast.Call) and isinstance(nxt.value.func, ast.Attribute) and nxt.value.func.attr == 'write' and nxt.value.args and is_filler(nxt.value.args[0])
                ctx.check('C15.F1', not filler, vtf, nxt if filler else st, f'save() records `{U(st.value.args[0])[:30]}` at file.tell() and then writes filler (`{U(nxt.value.args[0])[:40] if filler else ""}`) before the item itself: '
                          'the resource table points at the padding, the reader takes the length prefix from the wrong bytes', func='VTF.save', text=f'offset of {U(st.value.args[0])[:30]} is where the item starts')
    if n_off < 4:
        raise AnalysisError(f'VTF.save: only {n_off} recorded offsets found (header size, resource blocks, particle sheet, low/high res confirmed by hand)')
    # ---- F2 --------------------------------------------------------------------------------------------------
    def nest(fn: ast.AST, obj: str) -> Tuple[List[str], str, ast.AST]:
        for n in walk_no_nested(fn):
            if isinstance(n, ast.For) and 'reversed(range(' in U(n.iter):
                def canon(e: ast.AST) -> str:
                    # names are replaced by what they stand for: object attributes lose their receiver, a header local becomes the attribute it is
                    # stored into, the local holding `<obj>._depth_range(...)` becomes DEPTH_RANGE
                    import copy as _copy
                    self_busy: Set[str] = set()

                    class _C(ast.NodeTransformer):
                        def visit_Attribute(self, node: ast.Attribute) -> ast.AST:
                            if dotted(node.value) in (obj, 'self'):
                                return ast.Name(id=node.attr, ctx=ast.Load())
                            return self.generic_visit(node)

                        def visit_Name(self, node: ast.Name) -> ast.AST:
                            defs_ = [a.value for a in walk_no_nested(fn) if isinstance(a, ast.Assign) and any(isinstance(t, ast.Name) and t.id == node.id for t in a.targets)]
                            if defs_ and all(isinstance(d, ast.Call) and isinstance(d.func, ast.Attribute) and d.func.attr == '_depth_range' for d in defs_):
                                return ast.Name(id='DEPTH_RANGE', ctx=ast.Load())
                            at = reach.get(node.id, set()) if obj != 'self' else set()
                            if len(at) == 1:
                                return ast.Name(id=next(iter(at)), ctx=ast.Load())
                            # a local of save(): assigned once from an attribute it stands for that attribute; assigned in several ways it is
                            # whichever of them applies - written out, so that a bound that can differ from the attribute is seen to differ
                            if obj == 'self' and defs_ and node.id not in self_busy:
                                self_busy.add(node.id)
                                try:
                                    outs_ = sorted({ast.unparse(_C().visit(_copy.deepcopy(d))) for d in defs_})
                                finally:
                                    self_busy.discard(node.id)
                                if len(outs_) == 1:
                                    return ast.parse(outs_[0], mode='eval').body
                                return ast.Name(id='<' + ' or '.join(outs_) + '>', ctx=ast.Load())
                            return node
                    return ast.unparse(_C().visit(_copy.deepcopy(e)))

                def iters(e: ast.AST) -> List[str]:
                    if isinstance(e, ast.Call) and dotted(e.func) in ('itertools.product', 'product'):
                        return [canon(a) for a in e.args]        # product(a, b) is the nest `for .. in a: for .. in b:`
                    return [canon(e)]
                sig = iters(n.iter)
                cur = n
                while True:
                    inner = [s for s in cur.body if isinstance(s, ast.For)]
                    if len(inner) != 1:
                        break
                    cur = inner[0]
                    sig += iters(cur.iter)
                # the key as positions in the loop nest: `_frames[frame, side, mip]` under `for mip: for frame: for side:` is (1, 2, 0)
                nest_vars: List[str] = []

                def _targets(l_: ast.AST) -> List[str]:
                    t_ = l_.target
                    return [x.id for x in (t_.elts if isinstance(t_, ast.Tuple) else [t_]) if isinstance(x, ast.Name)]
                l_ = n
                while True:
                    nest_vars += _targets(l_)
                    inner_ = [s_ for s_ in l_.body if isinstance(s_, ast.For)]
                    if len(inner_) != 1:
                        break
                    l_ = inner_[0]

                def _key_of(sl: ast.AST) -> str:
                    elts_ = sl.elts if isinstance(sl, ast.Tuple) else [sl]
                    return '(' + ', '.join(f'loop{nest_vars.index(e.id)}' if isinstance(e, ast.Name) and e.id in nest_vars else ast.unparse(e) for e in elts_) + ')'
                key = [_key_of(s.slice) for s in ast.walk(cur) if isinstance(s, ast.Subscript) and dotted(s.value) == f'{obj}._frames']
                sig = [s.replace(obj + '.', '') for s in sig]
                return sig, (key[0] if key else ''), n
        raise AnalysisError('frame loop nest not found')
    rsig, rkey, rnode = nest(rd, robj)
    wsig, wkey, wnode = nest(sv, 'self')
    ctx.check('C15.F2', rsig == wsig, vtf, wnode, f'read() iterates frames as {rsig} but save() as {wsig}', func='VTF.save', text='frame loop nest')
    ctx.check('C15.F2', rkey == wkey and rkey != '', vtf, wnode, f'_frames key order: read() `{rkey}` vs save() `{wkey}`', func='VTF.save', text='frame key order')
    ok = 'DEPTH_RANGE' in rsig and 'DEPTH_RANGE' in wsig
    ctx.shape('C15.F2', ok, vtf, sv, 'both sides must take the depth/side sequence from _depth_range()', func='VTF.save', text='depth sequence source')
    # mip sizes on read
    rsrc = U(rd)
    ctx.shape('C15.F2', 'mip_width = max(width >> data_mipmap, 1)' in rsrc and 'mip_height = max(height >> data_mipmap, 1)' in rsrc and 'Frame(mip_width, mip_height)' in rsrc, vtf, rnode,
              'read() must size mipmap n as max(dim >> n, 1) in both dimensions', func='VTF.read', text='mip dimensions')
    # constructor frame table vs declared count
    init = vm['__init__']
    cloop = [n for n in walk_no_nested(init) if isinstance(n, ast.For) and 'itertools.count' in U(n.iter)]
    if len(cloop) != 1 or not isinstance(cloop[0].target, ast.Name):
        raise AnalysisError('VTF.__init__: mipmap creation loop not found')
    lv = cloop[0].target.id
    creates_before_break = False
    seen_create = False
    for st in cloop[0].body:
        if any(isinstance(s, ast.Subscript) and dotted(s.value) == 'self._frames' and lv in U(s.slice) for s in ast.walk(st)):
            seen_create = True
        if isinstance(st, ast.If) and any(isinstance(b, ast.Break) for b in st.body):
            creates_before_break = seen_create
    # every key of the frame table owns its image: the value stored per key is a Frame built for that key.  `dict.fromkeys(keys, Frame(..))`
    # evaluates the value once - all frames, depth slices and cube faces of a level would then be one object
    n_sites = 0
    for n in walk_no_nested(init):
        if isinstance(n, ast.Assign) and any(isinstance(t, ast.Subscript) and dotted(t.value) == 'self._frames' for t in n.targets):
            n_sites += 1
            fresh = isinstance(n.value, ast.Call) and (dotted(n.value.func) or '').split('.')[-1] == 'Frame'
            in_loop = any(isinstance(a, (ast.For, ast.While)) for a in _anc(vtf, n, init))
            if fresh and in_loop:
                ctx.check('C15.F2', True, vtf, n, 'a Frame is built for every key', func='VTF.__init__', text='one Frame object per frame-table key')
            else:
                ctx.shape('C15.F2', False, vtf, n, f'frame table entry stored as `{U(n.value)[:50]}`: not a Frame built at the store', func='VTF.__init__', text='one Frame object per frame-table key')
        if isinstance(n, ast.Call) and (dotted(n.func) or '').endswith('fromkeys') and len(n.args) == 2 and any(dotted(x) == 'self._frames' for a in _anc(vtf, n, init) for x in ast.walk(a)):
            n_sites += 1
            shared = n.args[1]
            mutable = not (isinstance(shared, ast.Constant))
            ctx.check('C15.F2', not mutable, vtf, n, f'the frame table is filled with dict.fromkeys(..., {U(shared)[:40]}): the value is evaluated once, so every frame, depth slice and cube face of the level is the same '
                      'Frame object - pixels stored into one image overwrite all the others, and save() writes the last image N times', func='VTF.__init__', text='one Frame object per frame-table key')
        if isinstance(n, ast.DictComp) and any(dotted(x) == 'self._frames' for a in _anc(vtf, n, init) for x in ast.walk(a)):
            n_sites += 1
            fresh = isinstance(n.value, ast.Call) and (dotted(n.value.func) or '').split('.')[-1] == 'Frame'
            ctx.shape('C15.F2', fresh, vtf, n, f'frame table comprehension stores `{U(n.value)[:50]}` per key', func='VTF.__init__', text='one Frame object per frame-table key')
    ctx.shape('C15.F2', n_sites > 0, vtf, init, 'no store into self._frames found in the constructor', func='VTF.__init__', text='frame table creation site')
    asg = [n for n in walk_no_nested(init) if isinstance(n, ast.Assign) and dotted(n.targets[0]) == 'self.mipmap_count']
    if len(asg) != 1:
        raise AnalysisError('VTF.__init__: mipmap_count assignment not found')
    val = U(asg[0].value)
    # the loop creates levels 0..lv inclusive when the creation precedes the break -> count is lv + 1
    want = f'{lv} + 1' if creates_before_break else lv
    ctx.shape('C15.F2', seen_create, vtf, cloop[0], 'the mipmap loop of the constructor stores into self._frames[..., level]', func='VTF.__init__', text='level creation inside the mipmap loop')
    ctx.check('C15.F2', val.replace(' ', '') == want.replace(' ', ''), vtf, asg[0], f'the constructor creates mipmap levels 0..{lv} (level created before the loop breaks) but declares mipmap_count = {val}: save() and read() iterate '
              f'range(mipmap_count), so the smallest level is never written, and a texture with a 1-pixel side (count 0) is saved without any image data', func='VTF.__init__', text='frame table = range(mipmap_count)')
    # the buffer a Frame exports is row-major like its own indexing (`(y * width + x) * 4`): shape (height, width, 4)
    fb_ = vtf.methods('Frame').get('__buffer__')
    if fb_ is not None:
        casts_ = [c for c in ast.walk(fb_) if isinstance(c, ast.Call) and isinstance(c.func, ast.Attribute) and c.func.attr == 'cast' and len(c.args) == 2]
        ctx.shape('C15.F2', len(casts_) == 1, vtf, fb_, 'Frame.__buffer__ casts its data to a three-dimensional view', func='Frame.__buffer__', text='buffer shape')
        for c_ in casts_:
            ldefs_ = {t.id: a.value for a in ast.walk(fb_) if isinstance(a, ast.Assign) and len(a.targets) == 1 for t in a.targets if isinstance(t, ast.Name)}
            def _flat(e: ast.AST) -> List[str]:
                if isinstance(e, ast.Tuple):
                    return [y for x in e.elts for y in _flat(x)]
                if isinstance(e, ast.Starred):
                    return _flat(e.value)
                if isinstance(e, ast.Name) and e.id in ldefs_:
                    return _flat(ldefs_[e.id])
                return [U(e)]
            shp_ = _flat(c_.args[1])
            ctx.check('C15.F2', shp_ == ['self.height', 'self.width', '4'], vtf, c_, f'Frame.__buffer__ exports its pixels with shape ({", ".join(shp_)}); the data is stored row by row (`(y * width + x) * 4`), i.e. as '
                      '(height, width, 4): for a non-square frame view[y, x] addresses another pixel than frame[x, y], and valid coordinates on the long side are refused', func='Frame.__buffer__', text='buffer shape is (height, width, 4)')
    # a frame owns its pixel array: `self._data = <other frame>._data` (or a local holding it) makes two frames share one array, and an edit
    # of either shows in both; copies are made with a slice (`[:]`) or by assignment INTO the own array (`self._data[:] = ...`)
    for fm_name, fm_fn in vtf.methods('Frame').items():
        dl_ = {t.id: a.value for a in walk_no_nested(fm_fn) if isinstance(a, ast.Assign) and len(a.targets) == 1 for t in a.targets if isinstance(t, ast.Name)}
        for a in [a for a in walk_no_nested(fm_fn) if isinstance(a, ast.Assign) and any(dotted(t) == 'self._data' for t in a.targets)]:
            v_ = dl_.get(a.value.id, a.value) if isinstance(a.value, ast.Name) else a.value
            alias_ = isinstance(v_, ast.Attribute) and v_.attr == '_data' and dotted(v_.value) != 'self'
            if alias_:
                ctx.check('C15.F2', False, vtf, a, f'Frame.{fm_name} stores the other frame\'s array itself (`{U(a)[:50]}`): both frames then edit one array, so pixels set on one frame change the other and are saved for both',
                          func=f'Frame.{fm_name}', text=f'Frame.{fm_name}: pixel array copied, not shared')
    # save(): side sequence computed from the version written
    has_override = any(a.arg == 'version' for a in sv.args.args)
    dr = vm['_depth_range']
    reads_self_version = any(isinstance(n, ast.Attribute) and dotted(n) == 'self.version' for n in ast.walk(dr))
    call = [n for n in walk_no_nested(sv) if isinstance(n, ast.Call) and dotted(n.func) == 'self._depth_range']
    passes_version = bool(call) and bool(call[0].args or call[0].keywords)
    ctx.check('C15.F2', not (has_override and reads_self_version and not passes_version), vtf, call[0] if call else sv,
              'save(version=...) writes the overriding version into the header but _depth_range() chooses 6 or 7 cubemap sides from self.version: overriding across 7.5 writes a side count the reader of that version does not expect '
              '(all later frames are read from shifted offsets)', func='VTF.save', text='side sequence follows the written version')
    # compute_mipmaps() runs inside save() *before* frames are loaded: nothing reachable from it may drop a frame's pending
    # file reference, otherwise the stored mipmaps of a texture that was read but never touched are replaced by regenerated ones
    cm = vm['compute_mipmaps']
    reach_: List[Tuple[str, ast.AST]] = [('VTF.compute_mipmaps', cm)]
    seen_ = {'compute_mipmaps'}
    todo_ = [cm]
    while todo_:
        f_ = todo_.pop()
        for c in ast.walk(f_):
            if isinstance(c, ast.Call) and isinstance(c.func, ast.Attribute) and c.func.attr not in seen_:
                for owner, table in (('Frame', fr), ('VTF', vm)):
                    if c.func.attr in table and c.func.attr not in ('load',):
                        seen_.add(c.func.attr)
                        reach_.append((f'{owner}.{c.func.attr}', table[c.func.attr]))
                        todo_.append(table[c.func.attr])
    for qual, f_ in reach_:
        drops = [n for n in ast.walk(f_) if isinstance(n, ast.Assign) and any(isinstance(t, ast.Attribute) and t.attr == '_fileinfo' for t in ast.walk(n.targets[0]))]
        ctx.check('C15.F2', not drops, vtf, drops[0] if drops else f_, f'{qual} is reachable from compute_mipmaps(), which save() runs before the frames are loaded, and assigns `_fileinfo`: a texture that was read and saved again '
                  'without being touched loses its stored mipmaps (they are regenerated from the largest level instead)', func=qual, text=f'{qual} keeps pending file data')
    # ---- F3 (grey formats): the intensity stored is the floor of the mean of R, G and B -----------------------------------------------------
    # that is what the Cython codec computes (`(r + g + b) // 3`) and what the two implementations have to agree on.  The stored expression
    # of the Python codec is interpreted (engine.minieval, private helpers inlined) for a pixel of every possible channel sum 0..765, in two
    # channel orders; one disagreement is a concrete counterexample.
    from engine.minieval import MiniEval as _ME, Unsupported as _Uns, Raised as _Rai
    py_fns = {q: fl[0] for q, fl in py.all_funcs().items() if '.' not in q}
    for gname, stride_ in (('save_i8', 1), ('save_ia88', 2)):
        gf = py_fns.get(gname)
        if gf is None:
            ctx.shape('C15.F3', False, py, py.tree, f'{gname} not found', func=gname, text=f'{gname}: grey = floor mean')
            continue
        loops_ = [l for l in walk_no_nested(gf) if isinstance(l, ast.For) and isinstance(l.target, ast.Name)]
        stores_ = [a for l in loops_ for a in ast.walk(l) if isinstance(a, ast.Assign) and len(a.targets) == 1 and isinstance(a.targets[0], ast.Subscript) and isinstance(a.targets[0].value, ast.Name)
                   and a.targets[0].value.id == gf.args.args[1].arg]
        if len(loops_) != 1 or len(stores_) != 1:
            ctx.shape('C15.F3', False, py, gf, f'{gname}: one pixel loop with one store into the data buffer expected', func=gname, text=f'{gname}: grey = floor mean')
            continue
        lv_, pix_ = loops_[0].target.id, gf.args.args[0].arg
        bad_ = None
        try:
            for s_ in range(766):
                r_ = min(s_, 255)
                g_ = min(s_ - r_, 255)
                b_ = s_ - r_ - g_
                for trip in ((r_, g_, b_), (b_, g_, r_)):
                    # statements of the loop body before the store may define locals (r, g, b = ...)
                    me_ = _ME({pix_: list(trip) + [255], lv_: 0}, py_fns)
                    for st_ in loops_[0].body:
                        if st_ is stores_[0]:
                            break
                        me_.stmt(st_)
                    got_ = me_.ev(stores_[0].value)
                    if got_ != s_ // 3:
                        bad_ = (trip, got_, s_ // 3)
                        break
                if bad_:
                    break
        except (_Uns, _Rai, KeyError, IndexError, TypeError) as exc_:
            ctx.shape('C15.F3', False, py, stores_[0], f'{gname}: stored intensity `{U(stores_[0].value)[:50]}` could not be interpreted ({exc_})', func=gname, text=f'{gname}: grey = floor mean')
            continue
        ctx.check('C15.F3', bad_ is None, py, stores_[0], (f'{gname} stores {bad_[1]} for the pixel {bad_[0]}; the floor of the mean of the three channels is {bad_[2]} (which is what the Cython codec writes): the two codecs '
                  'give different files for the same image') if bad_ else 'intensity = (r + g + b) // 3 for every channel sum', func=gname, text=f'{gname}: grey = floor mean')
    cy_txt = '\n'.join(ln.text for fn_ in ('save_i8', 'save_ia88') for ln in PyxFile(prog, '_cy_vtf_readwrite.pyx').func(fn_).body)
    ctx.shape('C15.F3', cy_txt.count('// <uint_fast16_t>3') + cy_txt.count('// 3') >= 2, None, None, 'the Cython grey codecs divide the channel sum by 3 (floor)', file='src/srctools/_cy_vtf_readwrite.pyx', func='save_i8', text='Cython grey = floor mean')

    # ---- F3 --------------------------------------------------------------------------------------------------
    table = fmt_table(vtf)
    helpers: Dict[str, Tuple[List[str], List[ast.stmt]]] = {}
    for h in ('upsample', 'decomp565', 'compress565'):
        f = py.func(h)
        helpers[h] = ([a.arg for a in f.args.args], f.body)
    pyfuncs: Dict[str, Tuple[List[ast.stmt], Dict[str, int]]] = {}
    for st in py.tree.body:
        if isinstance(st, ast.FunctionDef) and (st.name.startswith('load_') or st.name.startswith('save_')):
            pyfuncs[st.name] = (st.body, {})
        elif isinstance(st, ast.Assign) and isinstance(st.targets[0], ast.Tuple) and isinstance(st.value, ast.Call) and dotted(st.value.func) == 'saveload_rgba':
            mode = st.value.args[0].value
            fac = py.func('saveload_rgba')
            inner = {f.name: f for f in ast.walk(fac) if isinstance(f, ast.FunctionDef) and f is not fac}
            env = {f'{c}_off': mode.index(c) for c in 'rgb'}
            if 'a' in mode:
                env['a_off'] = mode.index('a')
                lf, sf = inner['loader_rgba'], inner['saver_rgba']
            else:
                lf, sf = inner['loader_rgb'], inner['saver_rgb']
            ln, sn = [t.id for t in st.targets[0].elts]
            pyfuncs[ln] = (lf.body, env)
            pyfuncs[sn] = (sf.body, env)
    # registration: by name, for the same formats
    loaders = {n[5:] for n in pyfuncs if n.startswith('load_')}
    savers = {n[5:] for n in pyfuncs if n.startswith('save_')}
    fmt_names = {n.casefold(): n for n in table}
    for n in sorted(savers | loaders):
        if n.endswith('_impl'):
            continue
        ctx.check('C15.F3', n in fmt_names, py, py.tree, f'codec function for `{n}` matches no ImageFormats member: init() registers by name', func='<module>', text=f'{n} names a format')
    for n in sorted(savers):
        ctx.check('C15.F3', n in loaders, py, py.tree, f'format {n} can be saved but not loaded', func='<module>', text=f'{n} has loader and saver')
    # Cython side
    px = PyxFile(prog, '_cy_vtf_readwrite.pyx')
    cy_helpers: Dict[str, Tuple[List[str], List[ast.stmt]]] = {}
    for h in ('upsample', 'decomp565', 'compress565'):
        f = px.func(h)
        params = re.findall(r'(\w+)\s*(?:,|\))', f.header.text[f.header.text.index(h + '(') + len(h):])
        cy_helpers[h] = (params, pyx_body_to_ast(f, px.relpath))
    cy_consts = {'R': 0, 'G': 1, 'B': 2, 'A': 3}
    cy_alias: Dict[str, Tuple[str, str]] = {}
    for m_ in re.finditer(r'FORMATS\[\s*\d+\]\s*=\s*Format\("(\w+)",\s*&\w+,\s*&(\w+),\s*&(\w+)\)', px.text):
        cy_alias[m_.group(1).casefold()] = (m_.group(2), m_.group(3))

    def cy_codec(fname: str) -> Optional[Codec]:
        if fname in ('load_copy', 'save_copy'):
            f = px.func(fname)
            txt = ' '.join(l.text for l in f.body)
            want = 'memcpy(&pixels[0], &data[0], 4 * width * height)' if fname == 'load_copy' else 'memcpy(&data[0], &pixels[0], 4 * width * height)'
            if want.replace(' ', '') not in txt.replace(' ', ''):
                raise AnalysisError(f'{fname}: memcpy idiom changed')
            c = Codec()
            for k in range(4):
                c.out[('P', k) if fname == 'load_copy' else ('D', k)] = BV.byte('D' if fname == 'load_copy' else 'P', k)
            c.stride = {'pixels': 4, 'data': 4}
            return c
        try:
            body = pyx_body_to_ast(px.func(fname), px.relpath)
        except AnalysisError:
            return None
        try:
            return run_codec(body, cy_helpers, cy_consts)
        except AnalysisError:
            return None

    def pyx_node(fname: str) -> ast.AST:
        return ast.Pass(lineno=px.func(fname).header.lineno, col_offset=0)

    n_cy = 0
    for low in sorted(savers & loaders):
        name = fmt_names.get(low)
        if name is None:
            continue
        bits_decl = table[name]
        lbody, lenv = pyfuncs['load_' + low]
        sbody, senv = pyfuncs['save_' + low]
        lc = run_codec(lbody, helpers, {}, lenv)
        sc = run_codec(sbody, helpers, {}, senv)
        if lc.undecided or sc.undecided:
            ctx.note(f'{name}: data-dependent branch, provenance not decided')
            continue
        size = lc.stride.get('data') or sc.stride.get('data')
        comp = compose(lc, sc)
        fn_node = py.func('save_' + low) if py.has_func('save_' + low) else py.tree
        for c in range(4):
            bv = comp.get(c)
            if bv is None:
                ctx.check('C15.F3', False, py, fn_node, f'{name}: loader never stores channel {CH[c]}', func=f'load_{low}', text=f'{name} {CH[c]} stored')
                continue
            if name in ARITHMETIC and c < 3:
                continue
            foreign = []
            exact = 0
            counting = True
            for i in range(7, -1, -1):
                b = bv.bits[i]
                if isinstance(b, tuple) and b[0] == 'P':
                    if b[1] != c:
                        foreign.append(f'bit {i} <- {CH[b[1]]}.{b[2]}')
                    elif b[2] < i:
                        foreign.append(f'bit {i} <- own lower bit {b[2]}')
                    if counting and b[1] == c and b[2] == i:
                        exact += 1
                    else:
                        counting = False
                else:
                    counting = False
                    if b == TOP:
                        foreign.append(f'bit {i} undetermined')
            ctx.check('C15.F3', not foreign, py, fn_node, f'{name}: after save + load channel {CH[c]} is {bv_desc(bv)}: ' + ', '.join(foreign[:4]) + ' - the channel does not come back in its own place',
                      func=f'save_{low}', text=f'{name} channel {CH[c]} provenance')
            declared = bits_decl[c]
            if (name, c) in DECLARED_NOT_CARRIED:
                declared = 0
            if not foreign:
                ctx.check('C15.F3', exact >= min(declared, 8), py, fn_node, f'{name}: ImageFormats declares {declared} bits for {CH[c]} but only the top {exact} survive save + load', func=f'save_{low}',
                          text=f'{name} channel {CH[c]} precision')
        # idempotence: the saver only reads bits that survive
        bad = []
        for (tag, j), bv in sc.out.items():
            for b in bv.bits[:8]:
                if isinstance(b, tuple) and b[0] == 'P':
                    back = comp.get(b[1])
                    if back is None or back.bits[b[2]] != b:
                        bad.append(f'data byte {j} reads {CH[b[1]]}.{b[2]}')
                elif b == TOP and name not in ARITHMETIC:
                    bad.append(f'data byte {j} undetermined')
        if name not in ARITHMETIC:
            ctx.check('C15.F3', not bad, py, fn_node, f'{name}: saving again after a load changes the data: ' + ', '.join(bad[:3]), func=f'save_{low}', text=f'{name} quantisation idempotent')
        # coverage of the record: every data byte written
        if size:
            missing = [j for j in range(size) if ('D', j) not in sc.out]
            ctx.check('C15.F3', not missing, py, fn_node, f'{name}: saver leaves data bytes {missing} of each {size}-byte record unwritten', func=f'save_{low}', text=f'{name} record fully written')
        # Cython agreement
        if low in cy_alias:
            cl, cs = cy_codec(cy_alias[low][0]), cy_codec(cy_alias[low][1])
            if cl is None or cs is None or cl.undecided or cs.undecided:
                ctx.note(f'{name}: Cython codec not decided (body outside the interpreter idioms)')
            else:
                n_cy += 1
                same_l = {k: v for k, v in cl.out.items() if k[0] == 'P'} == {k: v for k, v in lc.out.items() if k[0] == 'P'}
                same_s = {k: v for k, v in cs.out.items() if k[0] == 'D'} == {k: v for k, v in sc.out.items() if k[0] == 'D'}
                if name in ARITHMETIC:
                    same_l = same_s = True if (cl.out.keys() == lc.out.keys()) else False
                ctx.check('C15.F3', same_l, py, pyx_node(cy_alias[low][0]), f'{name}: the Cython loader {cy_alias[low][0]} and the Python loader decode different bit layouts', func=cy_alias[low][0], text=f'{name} loader py = cy', file=px.relpath)
                ctx.check('C15.F3', same_s, py, pyx_node(cy_alias[low][1]), f'{name}: the Cython saver {cy_alias[low][1]} and the Python saver produce different bit layouts', func=cy_alias[low][1], text=f'{name} saver py = cy', file=px.relpath)
                ccomp = compose(cl, cs)
                for c in range(4):
                    bv = ccomp.get(c)
                    if bv is None or (name in ARITHMETIC and c < 3):
                        continue
                    foreign = [f'bit {i} <- {CH[b[1]]}.{b[2]}' for i, b in enumerate(bv.bits[:8]) if isinstance(b, tuple) and b[0] == 'P' and b[1] != c]
                    ctx.check('C15.F3', not foreign, py, pyx_node(cy_alias[low][1]), f'{name} (Cython): after save + load channel {CH[c]} is {bv_desc(bv)}: ' + ', '.join(foreign[:4]), func=cy_alias[low][1],
                              text=f'{name} channel {CH[c]} provenance', file=px.relpath)
    if n_cy < 12:
        raise AnalysisError(f'only {n_cy} Cython codec pairs could be interpreted')
    # ---- F4 --------------------------------------------------------------------------------------------------
    def offset_site(fn: ast.AST) -> Optional[ast.Assign]:
        for n in walk_no_nested(fn):
            if isinstance(n, ast.Assign) and isinstance(n.value, ast.BinOp) and offset_vars(n.value) is not None:
                return n
        return None

    def offset_vars(e: ast.AST) -> Optional[Tuple[str, str]]:
        """(x, y) of `(y * self.width + x) * 4` / `4 * (y * self.width + x)`, whatever the two locals are called"""
        if not (isinstance(e, ast.BinOp) and isinstance(e.op, ast.Mult)):
            return None
        for four, inner in ((e.right, e.left), (e.left, e.right)):
            if isinstance(four, ast.Constant) and four.value == 4 and isinstance(inner, ast.BinOp) and isinstance(inner.op, ast.Add):
                for row, col in ((inner.left, inner.right), (inner.right, inner.left)):
                    if isinstance(col, ast.Name) and isinstance(row, ast.BinOp) and isinstance(row.op, ast.Mult):
                        for a, b in ((row.left, row.right), (row.right, row.left)):
                            if isinstance(a, ast.Name) and dotted(b) == 'self.width':
                                return col.id, a.id
        return None

    for mname in ('__getitem__', '__setitem__'):
        fn = fr[mname]
        site_fn, qual = fn, f'Frame.{mname}'
        if offset_site(fn) is None:
            # the offset may come from a helper method of Frame that validates and returns it
            helper_calls = [c for c in walk_no_nested(fn) if isinstance(c, ast.Call) and isinstance(c.func, ast.Attribute) and dotted(c.func.value) == 'self' and c.func.attr in fr and offset_site(fr[c.func.attr]) is not None]
            if len(helper_calls) != 1:
                raise AnalysisError(f'Frame.{mname}: pixel offset computation not found (directly or in one helper method)')
            site_fn, qual = fr[helper_calls[0].func.attr], f'Frame.{helper_calls[0].func.attr}'
        off = offset_site(site_fn)
        assert off is not None
        guards = [n for n in walk_no_nested(site_fn) if isinstance(n, ast.If) and any(isinstance(s, ast.Raise) for s in n.body)]
        uses = [n for n in walk_no_nested(site_fn) if (isinstance(n, ast.Subscript) and dotted(n.value) == 'self._data') or isinstance(n, ast.Return)]
        if len(guards) != 1:
            raise AnalysisError(f'{qual}: expected exactly one raising bounds guard')
        if any(u.lineno < guards[0].lineno for u in uses if not (isinstance(u, ast.Return) and u.value is None)):
            ctx.check('C15.F4', False, vtf, guards[0], f'{qual}: the pixel buffer is indexed (or the offset returned) before the bounds guard', func=qual, text='guard precedes use')
            continue
        test = guards[0].test
        xv_, yv_ = offset_vars(off.value) or ('x', 'y')
        bounds = accepted_region(test, (xv_, yv_))
        for var, dim in ((xv_, 'self.width'), (yv_, 'self.height')):
            lo = bounds.get((var, 'lo'))
            hi = bounds.get((var, 'hi'))
            ctx.check('C15.F4', lo == '0', vtf, guards[0], f'{qual} (for Frame.{mname}): `{U(test)}` does not reject negative {var} (a negative {var} lands on another row / indexes from the end of the buffer)',
                      func=f'Frame.{mname}', text=f'{var} lower bound')
            ctx.check('C15.F4', hi == f'<{dim}', vtf, guards[0], f'{qual} (for Frame.{mname}): `{U(test)}` accepts {var} == {dim.split(".")[1]} (needs {var} < {dim}): the offset then addresses the next row or the end of the buffer',
                      func=f'Frame.{mname}', text=f'{var} strict upper bound')
    # ---- F5 --------------------------------------------------------------------------------------------------
    rf = fr['rescale_from']
    guard = [n for n in walk_no_nested(rf) if isinstance(n, ast.If) and any(isinstance(b, ast.Raise) for b in n.body)]
    if len(guard) != 1:
        ctx.shape('C15.F5', False, vtf, rf, 'size guard of rescale_from not found', func='Frame.rescale_from', text='size relation checked')
    else:
        cmps = [c for c in ast.walk(guard[0].test) if isinstance(c, ast.Compare)]
        loose = [c for c in cmps if not isinstance(c.ops[0], ast.Eq)]
        sides = {re.sub(r'^2 \* ', '', U(c.left)) for c in cmps}
        if loose:
            ctx.check('C15.F5', False, vtf, loose[0], f'`{U(loose[0])}` accepts sizes that are neither equal nor exactly double: scale_down only handles factors 1 and 2 per dimension', func='Frame.rescale_from', text='size relation checked')
        else:
            ctx.shape('C15.F5', sides == {'self.width', 'self.height'} and len(cmps) == 4, vtf, guard[0], 'equal-or-double test per dimension', func='Frame.rescale_from', text='size relation checked')
    sd = py.func('scale_down')
    ssrc = U(sd)
    terms = ['src[off2 + channel]', 'src[off2 + channel + horiz_off]', 'src[off2 + channel + vert_off]', 'src[off2 + channel + vert_off + horiz_off]']

    def mean_terms(fn_body_src: ast.AST) -> Optional[Tuple[List[str], Any]]:
        for n in ast.walk(fn_body_src):
            if isinstance(n, ast.BinOp) and isinstance(n.op, (ast.FloorDiv, ast.RShift)) and isinstance(n.right, ast.Constant):
                ts: List[str] = []

                def adds(e: ast.AST) -> None:
                    if isinstance(e, ast.BinOp) and isinstance(e.op, ast.Add):
                        adds(e.left)
                        adds(e.right)
                    else:
                        ts.append(U(e))
                adds(n.left)
                if len(ts) >= 2 and all(t.startswith('src[') for t in ts):
                    return ts, n.right.value if isinstance(n.op, ast.FloorDiv) else 2 ** n.right.value
        return None
    mt_ = mean_terms(sd)
    if mt_ is None:
        ctx.shape('C15.F5', False, py, sd, 'bilinear mean expression not found', func='scale_down', text='bilinear = mean of four (Python)')
    else:
        from engine.srcmatch import match_all
        ctx.check('C15.F5', match_all(mt_[0], terms) and mt_[1] == 4, py, sd, f'bilinear scale_down sums {mt_[0]} and divides by {mt_[1]}: it must average the four parent samples (0, horiz, vert, both)', func='scale_down',
                  text='bilinear = mean of four (Python)')
    # parent addressing, decided symbolically: for each of the four size relations (either dimension equal or halved) the straight-line code
    # in front of the filter dispatch is evaluated over polynomials in w, h, x, y, c; the four sample indexes of the bilinear mean must be
    # exactly the byte offsets of the parents (rx*x + dx, ry*y + dy), dx in {0, rx-1}, dy in {0, ry-1}, in a source image rx*w pixels wide
    from engine.poly import Poly as _P

    class _Undecided(Exception):
        pass
    sd_params = [a.arg for a in sd.args.args]

    def peval(e: ast.AST, env: Dict[str, Any]) -> Any:
        if isinstance(e, ast.Constant) and isinstance(e.value, int) and not isinstance(e.value, bool):
            return _P.const(e.value)
        if isinstance(e, ast.Name) and e.id in env:
            return env[e.id]
        if isinstance(e, ast.Tuple):
            return tuple(peval(x, env) for x in e.elts)
        if isinstance(e, ast.BinOp) and isinstance(e.op, (ast.Add, ast.Sub, ast.Mult)):
            a_, b_ = peval(e.left, env), peval(e.right, env)
            if isinstance(a_, _P) and isinstance(b_, _P):
                return a_ + b_ if isinstance(e.op, ast.Add) else (a_ - b_ if isinstance(e.op, ast.Sub) else a_ * b_)
        raise _Undecided(ast.unparse(e)[:60])

    def prun(stmts: List[ast.stmt], env: Dict[str, Any]) -> None:
        for st in stmts:
            if isinstance(st, ast.Expr) and isinstance(st.value, ast.Constant):
                continue
            if isinstance(st, ast.Assign) and len(st.targets) == 1:
                v = peval(st.value, env)
                t = st.targets[0]
                if isinstance(t, ast.Name):
                    env[t.id] = v
                elif isinstance(t, ast.Tuple) and isinstance(v, tuple) and len(v) == len(t.elts) and all(isinstance(x, ast.Name) for x in t.elts):
                    for x, vv in zip(t.elts, v):
                        env[x.id] = vv
                else:
                    raise _Undecided(ast.unparse(st)[:60])
            elif isinstance(st, ast.If) and isinstance(st.test, ast.Compare) and len(st.test.ops) == 1 and isinstance(st.test.ops[0], (ast.Eq, ast.NotEq)):
                l_, r_ = peval(st.test.left, env), peval(st.test.comparators[0], env)
                same = repr(l_) == repr(r_)
                prun(st.body if same == isinstance(st.test.ops[0], ast.Eq) else st.orelse, env)
            else:
                raise _Undecided(ast.unparse(st)[:60])
    dispatch_at = next((i for i, st in enumerate(sd.body) if isinstance(st, ast.If) and 'value' in ast.unparse(st.test)), None)
    bil_terms = mean_terms(sd)
    addr_ok = dispatch_at is not None and bil_terms is not None and len(sd_params) >= 5
    ctx.shape('C15.F5', addr_ok, py, sd, 'scale_down: size set-up followed by the filter dispatch; bilinear arm sums src[...] samples', func='scale_down', text='parent addressing (Python)')
    if addr_ok:
        _, p_sw, p_sh, p_w, p_h = sd_params[:5]
        # the innermost loop body holding the mean: assignments in front of it (off, off2) are evaluated, loop variables are symbols
        mean_node = next(n for n in ast.walk(sd) if isinstance(n, ast.BinOp) and isinstance(n.op, (ast.FloorDiv, ast.RShift)) and any(isinstance(x, ast.Subscript) for x in ast.walk(n.left)))
        chain: List[ast.AST] = []
        cur_: Optional[ast.AST] = py.parents.get(mean_node)
        while cur_ is not None and cur_ is not sd:
            if isinstance(cur_, ast.For):
                chain.insert(0, cur_)
            cur_ = py.parents.get(cur_)
        loop_syms = [l.target.id for l in chain if isinstance(l.target, ast.Name)]
        ctx.shape('C15.F5', len(loop_syms) == 3, py, sd, f'bilinear arm: loops over row, column and channel (found {loop_syms})', func='scale_down', text='parent addressing loops')
        if len(loop_syms) == 3:
            vy, vx, vc = loop_syms
            for rx, ry in ((1, 1), (2, 1), (1, 2), (2, 2)):
                w_, h_ = _P.sym('w'), _P.sym('h')
                env5: Dict[str, Any] = {p_w: w_, p_h: h_, p_sw: w_ * _P.const(rx), p_sh: h_ * _P.const(ry), vy: _P.sym('y'), vx: _P.sym('x'), vc: _P.sym('c')}
                label = f'{"half" if rx == 2 else "same"} width, {"half" if ry == 2 else "same"} height'
                try:
                    prun(sd.body[:dispatch_at], env5)
                    for l in chain:
                        prun([st for st in l.body if isinstance(st, ast.Assign) and not any(isinstance(x, ast.Subscript) for x in ast.walk(st))], env5)
                    got = sorted(repr(peval(ast.parse(str(t), mode='eval').body.slice, env5)) for t in bil_terms[0])
                except _Undecided as exc:
                    ctx.shape('C15.F5', False, py, sd, f'scale_down addressing not evaluable symbolically ({exc})', func='scale_down', text=f'parent addressing (Python) {label}')
                    continue
                sw_ = w_ * _P.const(rx)
                want = sorted(repr(_P.const(4) * ((_P.const(ry) * _P.sym('y') + _P.const(dy)) * sw_ + _P.const(rx) * _P.sym('x') + _P.const(dx)) + _P.sym('c'))
                              for dx in (0, rx - 1) for dy in (0, ry - 1))
                ctx.check('C15.F5', got == want, py, sd, f'scale_down ({label}): the bilinear mean reads the source at byte offsets {got}; the four parents of destination pixel (x, y) are at {want} '
                          '(source rows are src_width pixels long) - a non-square texture gets mipmaps that are not the average of their parents', func='scale_down', text=f'parent addressing (Python) {label}')
    ctxt = re.sub(r'<\w+>', '', ' '.join(l.text for l in px.func('scale_down').body)).replace(' ', '')
    ok = all(t.replace(' ', '') in ctxt for t in terms) and ')//4)' in ctxt
    ctx.shape('C15.F5', ok, py, sd, 'Cython scale_down must average the same four samples', func='scale_down', text='bilinear = mean of four (Cython)', file=px.relpath)
    # mipmap chain: level k is rebuilt from level k-1, so the levels of one image must be visited in increasing order
    cm = vm['compute_mipmaps']
    resc = [c for c in ast.walk(cm) if isinstance(c, ast.Call) and isinstance(c.func, ast.Attribute) and c.func.attr == 'rescale_from' and c.args
            and isinstance(c.args[0], ast.Subscript) and dotted(c.args[0].value) == 'self._frames']
    if len(resc) != 1:
        ctx.shape('C15.F5', False, vtf, cm, 'one rescale_from(parent) call expected in compute_mipmaps', func='VTF.compute_mipmaps', text='mipmap chain')
    else:
        parent = resc[0].args[0]
        lvl = None
        if isinstance(parent, ast.Subscript) and dotted(parent.value) == 'self._frames' and isinstance(parent.slice, ast.Tuple) and len(parent.slice.elts) == 3:
            last = parent.slice.elts[2]
            if isinstance(last, ast.BinOp) and isinstance(last.op, ast.Sub) and isinstance(last.left, ast.Name) and isinstance(last.right, ast.Constant) and last.right.value == 1:
                lvl = last.left.id
        if lvl is None:
            ctx.shape('C15.F5', False, vtf, resc[0], 'the parent of a rebuilt level is self._frames[frame, side, level - 1]', func='VTF.compute_mipmaps', text='mipmap chain')
        else:
            loops = [l for l in ast.walk(cm) if isinstance(l, ast.For) and any(isinstance(x, ast.Name) and x.id == lvl for x in ast.walk(l.target)) and any(resc[0] is x for x in ast.walk(l))]
            if len(loops) != 1:
                ctx.shape('C15.F5', False, vtf, cm, f'the loop binding `{lvl}` was not found', func='VTF.compute_mipmaps', text='mipmap chain')
            else:
                it = loops[0].iter
                its = U(it)
                ascending = isinstance(it, ast.Call) and dotted(it.func) == 'range' and len(it.args) >= 1 and not (len(it.args) == 3) and U(it.args[0]) in ('1', '0')
                sorted_table = isinstance(it, ast.Call) and dotted(it.func) == 'sorted' and 'self._frames' in its and not any(k.arg == 'reverse' for k in it.keywords)
                table_order = 'self._frames' in its and not sorted_table
                if ascending or sorted_table:
                    ctx.check('C15.F5', True, vtf, loops[0], 'levels visited in increasing order', func='VTF.compute_mipmaps', text='mipmap chain')
                elif table_order:
                    ctx.check('C15.F5', False, vtf, loops[0], f'compute_mipmaps visits the levels in the order of the frame table (`{its[:50]}`), which is whatever order the frames were inserted in: VTF.read() inserts the '
                              'smallest level first, so a level is rebuilt from a parent that is still blank', func='VTF.compute_mipmaps', text='mipmap chain')
                else:
                    ctx.shape('C15.F5', False, vtf, loops[0], f'level iteration `{its[:60]}` is not an enumerated increasing order', func='VTF.compute_mipmaps', text='mipmap chain')
    # F1 (resource ids): the three id bytes read from the table are the key under which the entry is stored - as they are, or as the
    # ResourceID member they name.  Any byte-string "clean-up" (rstrip(b'\\0'), strip, lower) changes custom ids that the writer packs verbatim.
    rd_ = vm['read']
    id_unpacks = [a for a in ast.walk(rd_) if isinstance(a, ast.Assign) and isinstance(a.targets[0], (ast.List, ast.Tuple)) and isinstance(a.value, ast.Call) and dotted(a.value.func) in ('struct.unpack', 'unpack')
                  and a.value.args and isinstance(a.value.args[0], ast.Constant) and '3s' in str(a.value.args[0].value) and isinstance(a.targets[0].elts[0], ast.Name)]
    if len(id_unpacks) != 1:
        ctx.shape('C15.F1', False, vtf, rd_, 'the resource table entry unpack (`<3sBI`) was not found in VTF.read', func='VTF.read', text='resource id stored as read')
    else:
        idv = id_unpacks[0].targets[0].elts[0].id
        re_assigns = [a for a in ast.walk(rd_) if isinstance(a, ast.Assign) and a is not id_unpacks[0] and any(isinstance(t, ast.Name) and t.id == idv for t in a.targets)
                      and a.lineno > id_unpacks[0].lineno and any(isinstance(x, ast.Name) and x.id == idv for x in ast.walk(a.value))]
        bad = [a for a in re_assigns if not (isinstance(a.value, ast.Call) and dotted(a.value.func) == 'ResourceID')]
        ctx.check('C15.F1', not bad, vtf, bad[0] if bad else id_unpacks[0], (f'VTF.read rewrites the resource id it read (`{U(bad[0])[:60]}`) before using it as key: save() packs custom ids verbatim with `3s`, so an id that '
                  'legitimately ends in a NUL byte (b"AB\\0") comes back under a different key') if bad else 'id used as read / as ResourceID member', func='VTF.read', text='resource id stored as read')
    # ---- F2 (pending loads): new pixels cancel the load that is still pending -----------------------------------------------------------------
    # a frame read from a file holds `_fileinfo` until its pixels are first needed; load() then reads the file image over `_data`.  Every
    # method that puts other pixels into the frame therefore clears `_fileinfo` on the same path - otherwise the next access (or save())
    # loads the old image over the new one.
    def _follow(stmt: ast.stmt, fn_: ast.AST) -> List[ast.stmt]:
        out_: List[ast.stmt] = []
        cur_: ast.AST = stmt
        while True:
            par_ = vtf.parents.get(cur_)
            if par_ is None:
                break
            for fld_ in ('body', 'orelse', 'finalbody'):
                b_ = getattr(par_, fld_, None)
                if isinstance(b_, list) and cur_ in b_:
                    for st_ in b_[b_.index(cur_) + 1:]:
                        out_.append(st_)
                        if isinstance(st_, (ast.Return, ast.Raise)):
                            return out_
            if par_ is fn_ or isinstance(par_, (ast.For, ast.While)):
                break
            cur_ = par_
        return out_
    n_px = 0
    for fq, ff in fr.items():
        if fq in ('load', '__init__', '__new__'):
            continue
        me_f = ff.args.args[0].arg if ff.args.args else 'self'
        for st in walk_no_nested(ff):
            if not isinstance(st, (ast.Assign, ast.AugAssign)):
                continue
            tg_ = st.targets if isinstance(st, ast.Assign) else [st.target]
            writes_px = any((isinstance(t, ast.Attribute) and t.attr == '_data' and dotted(t.value) == me_f) or (isinstance(t, ast.Subscript) and isinstance(t.value, ast.Attribute) and t.value.attr == '_data' and dotted(t.value.value) == me_f
                                                                                                             and isinstance(t.slice, ast.Slice)) for t in tg_)
            if not writes_px:
                continue
            # allocating the blank array (`self._data = _BLANK_PIXEL * n` when nothing was allocated) puts no image into the frame
            if isinstance(st, ast.Assign) and isinstance(st.value, ast.BinOp) and isinstance(st.value.op, ast.Mult) and any(isinstance(x, ast.Name) and x.id == '_BLANK_PIXEL' for x in ast.walk(st.value)):
                continue
            n_px += 1
            clears_here = any(isinstance(t, ast.Attribute) and t.attr == '_fileinfo' and dotted(t.value) == me_f for t in tg_)
            clears_after = any(isinstance(a, ast.Assign) and any(isinstance(t, ast.Attribute) and t.attr == '_fileinfo' and dotted(t.value) == me_f for t in a.targets) and isinstance(a.value, ast.Constant) and a.value.value is None
                               for f_ in _follow(st, ff) for a in ast.walk(f_))
            ctx.check('C15.F2', clears_here or clears_after, vtf, st, f'Frame.{fq} stores new pixels with `{U(st)[:50]}` and does not clear `_fileinfo` on that path: a frame that came from a file and was not loaded yet still has its '
                      'load pending, so the next pixel access or save() reads the old image back over the new pixels', func=f'Frame.{fq}', text=f'Frame.{fq}: `{U(st)[:30]}` cancels the pending load')
    ctx.shape('C15.F2', n_px >= 3, vtf, vtf.cls('Frame'), f'{n_px} stores of pixel data found in Frame methods (fill, copy_from ...)', func='Frame', text='pixel stores examined')

    # ---- F7: resources that save() writes from structured state are not also kept raw ------------------------------------------------------
    # save() writes every entry of `self.resources` and, besides, entries it builds itself (`struct.pack(.., ResourceID.X.value, ..)`: the two
    # image blocks and the particle sheet from `sheet_info`).  read() must therefore keep those ids out of the raw table - never store them, or
    # take them out when decoding - otherwise the next save() writes the id twice (which read() itself rejects as a duplicate) and a changed
    # sheet_info is shadowed by the stale raw copy.
    sv7, rd7 = vm['save'], vm['read']
    own_ids = sorted({x.value.attr for c in ast.walk(sv7) if isinstance(c, ast.Call) and (dotted(c.func) or '').endswith('pack') for x in c.args
                      if isinstance(x, ast.Attribute) and x.attr == 'value' and isinstance(x.value, ast.Attribute) and dotted(x.value.value) == 'ResourceID'})
    stores7 = [n for n in ast.walk(rd7) if isinstance(n, ast.Assign) and any(isinstance(t, ast.Subscript) and (dotted(t.value) or '').endswith('.resources') for t in n.targets)]
    ctx.shape('C15.F7', len(stores7) == 1, vtf, rd7, f'read() stores into the raw resource table at {len(stores7)} sites (1 expected)', func='VTF.read', text='raw resource store')
    for rid in own_ids:
        kept_out = False
        how = ''
        for st7 in stores7:
            # stored only in the else-branch of `res_id == ResourceID.X` tests
            ch, par = st7, vtf.parents.get(st7)
            while par is not None and par is not rd7:
                if isinstance(par, ast.If) and ch in par.orelse and any(isinstance(c, ast.Compare) and any(dotted(x) == f'ResourceID.{rid}' for x in [c.left] + c.comparators) and isinstance(c.ops[0], (ast.Eq, ast.Is))
                                                                       for c in ast.walk(par.test)):
                    kept_out, how = True, 'never stored'
                ch, par = par, vtf.parents.get(par)
        for c in ast.walk(rd7):
            if isinstance(c, ast.Call) and isinstance(c.func, ast.Attribute) and c.func.attr == 'pop' and (dotted(c.func.value) or '').endswith('.resources') and c.args and dotted(c.args[0]) == f'ResourceID.{rid}':
                kept_out, how = True, 'popped when decoded'
            if isinstance(c, ast.Delete) and any(isinstance(t, ast.Subscript) and (dotted(t.value) or '').endswith('.resources') and dotted(t.slice) == f'ResourceID.{rid}' for t in c.targets):
                kept_out, how = True, 'deleted when decoded'
        ctx.check('C15.F7', kept_out, vtf, stores7[0] if stores7 else rd7, f'save() writes a ResourceID.{rid} entry of its own, and read() leaves the raw ResourceID.{rid} entry in `resources`: after read -> save the id is written twice '
                  '(read() rejects that file as "Duplicate resource ID"), and the raw copy shadows later changes of the decoded value', func='VTF.read', text=f'ResourceID.{rid} kept out of the raw table' + (f' ({how})' if how else ''))

    # ---- F6 --------------------------------------------------------------------------------------------------
    sm = vtf.methods('SheetSequence')
    fr_, mk = sm['from_resource'], sm['make_data']
    for ver in (0, 1):
        ri = Extractor(vtf, fold, Config({'version': ver}, None), 'SheetSequence', {}).extract(fr_)
        wi = Extractor(vtf, fold, Config({'version': ver}, None), 'SheetSequence', {}).extract(mk)
        rs, ws = simplify(flatten(ri)), simplify(flatten(wi))
        if '[' in rs or '[' in ws:
            # a gate the configuration does not decide: the token strings are not comparable, no verdict
            ctx.shape('C15.F6', False, vtf, mk, f'sheet version {ver}: from_resource consumes `{rs}`, make_data produces `{ws}`', func='SheetSequence.make_data', text=f'sheet slots v{ver}')
        else:
            ctx.check('C15.F6', rs == ws, vtf, mk, f'sheet version {ver}: from_resource consumes `{rs}`, make_data produces `{ws}`', func='SheetSequence.make_data', text=f'sheet slots v{ver}')
        ra, wa = atoms(ri), atoms(wi)
        for a, b in zip(ra, wa):
            if a.names and b.names and len(a.names) == len(b.names):
                for i, (rn, wn) in enumerate(zip(a.names, b.names)):
                    # what the reader does with the local, and what the writer packs there - by role, not by name
                    rrole = None
                    seq_fields = [st.target.id for st in vtf.cls('SheetSequence').body if isinstance(st, ast.AnnAssign) and isinstance(st.target, ast.Name)]
                    for c_ in ast.walk(fr_):
                        if isinstance(c_, ast.Call) and dotted(c_.func) == 'SheetSequence':
                            for ai_, a_ in enumerate(c_.args):
                                if dotted(a_) == rn and ai_ < len(seq_fields):
                                    rrole = seq_fields[ai_]
                        if isinstance(c_, ast.Call) and dotted(c_.func) == 'range' and any(dotted(x_) == rn for x_ in c_.args):
                            rrole = rrole or 'count'
                        if isinstance(c_, ast.Assign) and any(isinstance(t_, ast.Subscript) and dotted(t_.slice) == rn for t_ in c_.targets):
                            rrole = rrole or 'key'
                    try:
                        we_ = ast.parse(str(wn), mode='eval').body
                    except SyntaxError:
                        we_ = None
                    wrole = None
                    if isinstance(we_, ast.Attribute):
                        wrole = we_.attr
                    elif isinstance(we_, ast.Call) and dotted(we_.func) == 'len':
                        wrole = 'count'
                    elif isinstance(we_, ast.Name):
                        wrole = 'key'
                    if rrole is not None and wrole is not None:
                        ctx.check('C15.F6', rrole == wrole, vtf, b.node, f'sheet v{ver}: read() uses slot {i} (`{rn}`) as {rrole} where make_data packs `{wn}` ({wrole})', func='SheetSequence.make_data', text=f'sheet v{ver} slot {i} {rrole}')
    fsrc, msrc = U(fr_), U(mk)
    from engine.model import fold_small_constants as _fsc
    fr_n = _fsc(fr_)          # named strides (`coord_size = 16`) and `[... for i in range(4)]` read like the literals they stand for
    ver_if = [n for n in ast.walk(fr_n) if isinstance(n, ast.If) and U(n.test) == 'version == 0']
    if len(ver_if) != 1:
        ctx.shape('C15.F6', False, vtf, fr_, 'version dispatch of the coordinate blocks not found', func='SheetSequence.from_resource', text='coordinate block sizes')
    else:
        for label, body in (('v0', ver_if[0].body), ('v1', ver_if[0].orelse)):
            calls = [c for st in body for c in ast.walk(st) if isinstance(c, ast.Call) and dotted(c.func) == 'TexCoord.from_binary']
            incs = [st.value.value for st in body if isinstance(st, ast.AugAssign) and dotted(st.target) == 'offset' and isinstance(st.value, ast.Constant)]
            offs = sorted((0 if dotted(c.args[1]) == 'offset' else (c.args[1].right.value if isinstance(c.args[1], ast.BinOp) and isinstance(c.args[1].right, ast.Constant) else -1)) for c in calls)
            if not calls or len(incs) != 1:
                ctx.shape('C15.F6', False, vtf, ver_if[0], f'{label}: coordinate reads / offset increment not found', func='SheetSequence.from_resource', text=f'coordinate block sizes {label}')
                continue
            ctx.check('C15.F6', incs[0] == 16 * len(calls) and offs == [16 * i for i in range(len(calls))], vtf, ver_if[0], f'{label}: {len(calls)} coordinate blocks of 16 bytes are read at offsets {offs} but the cursor advances by {incs[0]}',
                      func='SheetSequence.from_resource', text=f'coordinate block sizes {label}')
    ok = msrc.count('.to_binary()') == 4 and 'if version == 1' in msrc and 'tex_a.to_binary()' in msrc.split('if version == 1')[0]
    ctx.shape('C15.F6', ok, vtf, mk, 'make_data writes the first coordinate always and the other three for version 1', func='SheetSequence.make_data', text='coordinate blocks written')
    tc = vtf.methods('TexCoord')
    fields = [st.target.id for st in vtf.cls('TexCoord').body if isinstance(st, ast.AnnAssign) and isinstance(st.target, ast.Name)]
    packs = [c for c in ast.walk(tc['to_binary']) if isinstance(c, ast.Call) and dotted(c.func) == 'struct.pack']
    positional = "cls(*data)" in U(tc['from_binary']) or "cls(*struct.unpack_from" in U(tc['from_binary'])
    if len(packs) != 1 or not positional:
        ctx.shape('C15.F6', False, vtf, tc['to_binary'], 'TexCoord pack / positional construction not found', func='TexCoord.to_binary', text='TexCoord field order')
    else:
        order = [a.attr for a in packs[0].args[1:] if isinstance(a, ast.Attribute) and dotted(a.value) == 'self']
        ctx.check('C15.F6', order == fields, vtf, packs[0], f'TexCoord.to_binary packs {order} but from_binary passes the values positionally to the fields {fields}', func='TexCoord.to_binary', text='TexCoord field order')
    # the sequence header (`<Ixxx?If`: number, clamp, frame count, total time) reaches the constructor: clamp and the total time are the
    # names the header was unpacked into, and nothing re-binds them in between (a per-frame `[duration] = ...` under the same name overwrites
    # the total with the last frame's duration)
    hdr = [a for a in ast.walk(fr_) if isinstance(a, ast.Assign) and isinstance(a.targets[0], ast.Tuple) and len(a.targets[0].elts) == 4 and all(isinstance(e, ast.Name) for e in a.targets[0].elts)
           and isinstance(a.value, ast.Call) and (dotted(a.value.func) or '').endswith('unpack_from') and a.value.args
           and ((isinstance(a.value.args[0], ast.Constant) and a.value.args[0].value == '<Ixxx?If')
                or (isinstance(a.value.func, ast.Attribute) and isinstance(a.value.func.value, ast.Name) and "'<Ixxx?If'" in U(_global_or_none(vtf, a.value.func.value.id))))]
    ctors6 = [c for c in ast.walk(fr_) if isinstance(c, ast.Call) and dotted(c.func) == 'SheetSequence']
    if len(hdr) != 1 or len(ctors6) != 1:
        ctx.shape('C15.F6', False, vtf, fr_, 'sequence header unpack / SheetSequence(...) construction not found once', func='SheetSequence.from_resource', text='sequence constructor linkage')
    else:
        h_names = [e.id for e in hdr[0].targets[0].elts]
        init6 = vtf.func('SheetSequence.__init__')
        iparams = [a.arg for a in init6.args.args[1:]]
        passed6: Dict[str, ast.AST] = {iparams[i]: a for i, a in enumerate(ctors6[0].args) if i < len(iparams)}
        passed6.update({k.arg: k.value for k in ctors6[0].keywords if k.arg})
        want6 = {'clamp': h_names[1], 'duration': h_names[3]}
        for prm6, nm6 in want6.items():
            got6 = passed6.get(prm6)
            ctx.check('C15.F6', isinstance(got6, ast.Name) and got6.id == nm6, vtf, ctors6[0], f'SheetSequence({prm6}=...) is given `{U(got6) if got6 is not None else "nothing"}`, the header field was unpacked into `{nm6}`',
                      func='SheetSequence.from_resource', text=f'sequence header {prm6} reaches the constructor')
            rebinds6 = [x for x in ast.walk(fr_) if isinstance(x, ast.Name) and x.id == nm6 and isinstance(x.ctx, ast.Store) and not any(x is e for e in hdr[0].targets[0].elts)]
            ctx.check('C15.F6', not rebinds6, vtf, rebinds6[0] if rebinds6 else hdr[0], f'`{nm6}`, which holds the {prm6} field of the sequence header, is assigned again at line {rebinds6[0].lineno if rebinds6 else 0} before it reaches '
                      'the constructor: the sequence gets that later value (the last frame\'s duration) instead of the stored total', func='SheetSequence.from_resource', text=f'sequence header {prm6} not re-bound')
    # validation: make_data writes the count, each sequence number (an arbitrary dict key) and each frame count independently of one another,
    # so a guard of from_resource that relates two values read from the data (`seq_num < sequence_count`) rejects what make_data produces
    # (a sheet holding only sequence 5).  Every raising guard tests one unpacked value against constants / what has been read so far.
    unp6: Set[str] = set()
    for a6 in ast.walk(fr_):
        if isinstance(a6, ast.Assign) and isinstance(a6.value, ast.Call) and (dotted(a6.value.func) or '').split('.')[-1] in ('unpack_from', 'unpack'):
            unp6 |= {e.id for t6 in a6.targets for e in ast.walk(t6) if isinstance(e, ast.Name)}
    n_guard6 = 0
    for if6 in [i for i in ast.walk(fr_) if isinstance(i, ast.If) and i.body and isinstance(i.body[0], ast.Raise)]:
        for cmp6 in [c for c in ast.walk(if6.test) if isinstance(c, ast.Compare)]:
            sides6 = [cmp6.left] + list(cmp6.comparators)
            per_side = [{x.id for x in ast.walk(sd) if isinstance(x, ast.Name) and x.id in unp6} for sd in sides6]
            n_guard6 += 1
            related = [(a, b) for i6, a in enumerate(per_side) for b in per_side[i6 + 1:] if a and b and a != b]
            ctx.check('C15.F6', not related, vtf, cmp6, f'from_resource rejects the data when `{U(if6.test)[:60]}`: it relates `{"`, `".join(sorted(set().union(*per_side)))}`, values make_data writes independently of each other '
                      '(the count is len(sequences), sequence numbers are arbitrary keys) - a sheet whose sequence numbers are not 0..n-1 is written and cannot be read back', func='SheetSequence.from_resource',
                      text=f'guard `{U(cmp6)[:40]}` tests one value read from the data')
    ctx.shape('C15.F6', n_guard6 >= 3, vtf, fr_, f'{n_guard6} raising guards found in from_resource (version, count, number range, duplicate confirmed by hand)', func='SheetSequence.from_resource', text='validation guards')
    # the sheet layout is the caller's choice (`sheet_seq_version`), and it applies to the whole sheet: layout 0 keeps one coordinate per frame.
    # save() hands the parameter to make_data as it came; a switch to the smaller layout decided by what *some* sequence looks like (`any`)
    # drops coordinates 2-4 of all the others.  (Decided by `all`, the switch would be lossless - that is content reasoning this check does
    # not do, so it declines there.)
    sv6 = vtf.func('VTF.save')
    mk_calls = [c for c in walk_no_nested(sv6) if isinstance(c, ast.Call) and isinstance(c.func, ast.Attribute) and c.func.attr == 'make_data']
    ctx.shape('C15.F6', len(mk_calls) == 1 and len(mk_calls[0].args) == 2 and isinstance(mk_calls[0].args[1], ast.Name) and mk_calls[0].args[1].id in [a.arg for a in sv6.args.args + sv6.args.kwonlyargs],
              vtf, sv6, 'save() passes its sheet_seq_version parameter to SheetSequence.make_data', func='VTF.save', text='sheet layout parameter handed on')
    if len(mk_calls) == 1 and len(mk_calls[0].args) == 2 and isinstance(mk_calls[0].args[1], ast.Name):
        pv = mk_calls[0].args[1].id
        rebinds6 = [a for a in walk_no_nested(sv6) if isinstance(a, ast.Assign) and any(isinstance(t, ast.Name) and t.id == pv for t in a.targets)]
        for rb in rebinds6:
            guards6 = [g.test for g in _anc(vtf, rb, sv6) if isinstance(g, ast.If)]
            existential = [c for g in guards6 for c in ast.walk(g) if isinstance(c, ast.Call) and dotted(c.func) == 'any']
            to_small = isinstance(rb.value, ast.Constant) and rb.value.value == 0
            if existential and to_small:
                ctx.check('C15.F6', False, vtf, rb, f'save() switches the whole sheet to the one-coordinate layout (`{U(rb)}`) when `{U(existential[0])[:70]}` - a condition on some sequence: every other sequence loses '
                          'coordinates 2-4 of its frames (read() repeats the first)', func='VTF.save', text='sheet layout parameter handed on')
            else:
                ctx.shape('C15.F6', False, vtf, rb, f'save() rebinds `{pv}` from the sheet content (`{U(rb)}`): whether that is lossless is not decided here', func='VTF.save', text='sheet layout parameter handed on')
        if not rebinds6:
            ctx.check('C15.F6', True, vtf, mk_calls[0], 'parameter handed on unchanged', func='VTF.save', text='sheet layout parameter handed on')


def accepted_region(test: ast.AST, coords: Tuple[str, str] = ('x', 'y')) -> Dict[Tuple[str, str], str]:
    """From the *rejecting* test of a bounds guard derive, per variable, the accepted lower bound and upper bound.

    Recognised: `x > W or y > H` style disjunctions of single comparisons, `not (0 <= x < W and 0 <= y < H)`, and mixtures.
    Result values: lo '0' (rejects x < 0), hi '<self.width' (rejects x >= W) or '<=self.width' (rejects only x > W)."""
    out: Dict[Tuple[str, str], str] = {}

    def reject(cmp: ast.Compare) -> None:
        if len(cmp.ops) != 1:
            return
        l, op, r = dotted(cmp.left), cmp.ops[0], dotted(cmp.comparators[0])
        lc = cmp.left.value if isinstance(cmp.left, ast.Constant) else None
        rc = cmp.comparators[0].value if isinstance(cmp.comparators[0], ast.Constant) else None
        if l in coords:
            if isinstance(op, ast.Gt) and r:
                out[(l, 'hi')] = '<=' + r
            elif isinstance(op, ast.GtE) and r:
                out[(l, 'hi')] = '<' + r
            elif isinstance(op, ast.Lt) and rc == 0:
                out[(l, 'lo')] = '0'
            elif isinstance(op, ast.LtE) and rc == -1:
                out[(l, 'lo')] = '0'
        elif r in coords:
            if isinstance(op, ast.Lt) and l:
                out[(r, 'hi')] = '<=' + l
            elif isinstance(op, ast.LtE) and l:
                out[(r, 'hi')] = '<' + l
            elif isinstance(op, ast.Gt) and lc == 0:
                out[(r, 'lo')] = '0'

    def accept(cmp: ast.Compare) -> None:
        items = [cmp.left] + list(cmp.comparators)
        for a, op, b in zip(items, cmp.ops, items[1:]):
            da, db = dotted(a), dotted(b)
            ca = a.value if isinstance(a, ast.Constant) else None
            if db in coords and ca == 0 and isinstance(op, ast.LtE):
                out[(db, 'lo')] = '0'
            if da in coords and db and isinstance(op, ast.Lt):
                out[(da, 'hi')] = '<' + db
            if da in coords and db and isinstance(op, ast.LtE):
                out[(da, 'hi')] = '<=' + db

    def walk_reject(t: ast.AST) -> None:
        if isinstance(t, ast.BoolOp) and isinstance(t.op, ast.Or):
            for v in t.values:
                walk_reject(v)
        elif isinstance(t, ast.Compare):
            reject(t)
        elif isinstance(t, ast.UnaryOp) and isinstance(t.op, ast.Not):
            walk_accept(t.operand)
        else:
            raise AnalysisError(f'bounds guard `{U(t)}` is not an enumerated idiom')

    def walk_accept(t: ast.AST) -> None:
        if isinstance(t, ast.BoolOp) and isinstance(t.op, ast.And):
            for v in t.values:
                walk_accept(v)
        elif isinstance(t, ast.Compare):
            accept(t)
        else:
            raise AnalysisError(f'bounds guard `{U(t)}` is not an enumerated idiom')
    walk_reject(test)
    # `0 <= off < 4 * W * H` (off = (y*W + x)*4): together with 0 <= x < W this bounds y; on its own it bounds neither
    src = U(test)
    if re.search(r'0 <= off < (4 \* self\.width \* self\.height|len\(self\._data\))', src) and out.get(('x', 'lo')) == '0' and out.get(('x', 'hi')) == '<self.width':
        out.setdefault(('y', 'lo'), '0')
        out.setdefault(('y', 'hi'), '<self.height')
    return out


MUTANTS: List[Dict[str, Any]] = [
    {'id': 'copy_from_shares_the_array', 'file': 'vtf.py', 'find': "                self._data = source._data[:]", 'replace': "                self._data = source._data", 'expect': 'C15.F2', 'note': 'round 14'},
    {'id': 'frame_buffer_shape_transposed', 'file': 'vtf.py', 'find': ".cast('B', (self.height, self.width, 4))", 'replace': ".cast('B', (self.width, self.height, 4))", 'expect': 'C15.F2', 'note': 'round 13'},
    {'id': 'depth_field_gate_drops_7_2', 'file': 'vtf.py', 'find': "        if version_minor >= 2:\n            [vtf.depth] = struct.unpack('H', file.read(2))", 'replace': "        if vtf.version > (7, 2):\n            [vtf.depth] = struct.unpack('H', file.read(2))", 'expect': 'C15.F1', 'note': 'round 12: gate on the version pair of the object under construction'},
    {'id': 'resource_gate_from_own_version', 'file': 'vtf.py', 'find': "        if version_minor >= 3:\n            deferred.set_data('low_res', file.tell())", 'replace': "        if self.version >= (7, 3):\n            deferred.set_data('low_res', file.tell())", 'expect': 'C15.F1', 'note': 'round 11'},
    {'id': 'sequence_number_bounded_by_count', 'file': 'vtf.py', 'find': "            if not (0 <= seq_num < SheetSequence.MAX_COUNT):", 'replace': "            if seq_num >= sequence_count:", 'expect': 'C15.F6', 'note': 'round 11'},
    {'id': 'sequence_total_shares_name_with_frame_duration', 'file': 'vtf.py', 'find': "                frame_count,\n                total_time,\n            ) = struct.unpack_from('<Ixxx?If', data, offset)", 'replace': "                frame_count,\n                duration,\n            ) = struct.unpack_from('<Ixxx?If', data, offset)", 'extra': [{'file': 'vtf.py', 'find': "            sequences[seq_num] = SheetSequence(frames, clamp, total_time)", 'replace': "            sequences[seq_num] = SheetSequence(frames=frames, clamp=clamp, duration=duration)"}], 'expect': 'C15.F6'},
    {'id': 'save_parks_sheet_in_resources', 'file': 'vtf.py', 'find': "            res_count = len(self.resources) + 2  # low/high format are always present.\n", 'replace': "            if self.sheet_info:\n                self.resources[ResourceID.PARTICLE_SHEET] = Resource(0, b'')\n            res_count = len(self.resources) + 2  # low/high format are always present.\n", 'expect': 'C15.F7'},
    {'id': 'no_mip_textures_saved_with_one_level', 'file': 'vtf.py', 'find': "        deferred.defer('header_size', '<I')\n", 'replace': "        mipmap_count = self.mipmap_count\n        if VTFFlags.NO_MIP in self.flags:\n            mipmap_count = min(mipmap_count, 1)\n        deferred.defer('header_size', '<I')\n", 'extra': [{'file': 'vtf.py', 'find': "            self.mipmap_count,\n            self.low_format.bin_value(asw_or_later),", 'replace': "            mipmap_count,\n            self.low_format.bin_value(asw_or_later),"}, {'file': 'vtf.py', 'find': "        for data_mipmap in reversed(range(self.mipmap_count)):\n            for frame_ind in range(self.frame_count):\n                for depth_or_cube in depth_seq:\n                    frame = self._frames[", 'replace': "        for data_mipmap in reversed(range(mipmap_count)):\n            for frame_ind in range(self.frame_count):\n                for depth_or_cube in depth_seq:\n                    frame = self._frames["}], 'expect': 'C15.F2'},
    {'id': 'ok_mipmap_count_in_a_local', 'file': 'vtf.py', 'find': "        deferred.defer('header_size', '<I')\n", 'replace': "        mipmap_count = self.mipmap_count\n        deferred.defer('header_size', '<I')\n", 'extra': [{'file': 'vtf.py', 'find': "            self.mipmap_count,\n            self.low_format.bin_value(asw_or_later),", 'replace': "            mipmap_count,\n            self.low_format.bin_value(asw_or_later),"}, {'file': 'vtf.py', 'find': "        for data_mipmap in reversed(range(self.mipmap_count)):\n            for frame_ind in range(self.frame_count):\n                for depth_or_cube in depth_seq:\n                    frame = self._frames[", 'replace': "        for data_mipmap in reversed(range(mipmap_count)):\n            for frame_ind in range(self.frame_count):\n                for depth_or_cube in depth_seq:\n                    frame = self._frames["}], 'expect': None, 'note': 'negative control: the attribute taken into a local'},
    {'id': 'sheet_layout_downgraded_when_any_sequence_is_single', 'file': 'vtf.py', 'find': "                particle_data = SheetSequence.make_data(self.sheet_info, sheet_seq_version)", 'replace': "                if sheet_seq_version == 1 and any(all(f[1] == f[2] == f[3] == f[4] for f in seq.frames) for seq in self.sheet_info.values()):\n                    sheet_seq_version = 0\n                particle_data = SheetSequence.make_data(self.sheet_info, sheet_seq_version)", 'expect': 'C15.F6'},
    {'id': 'copy_from_keeps_pending_load', 'file': 'vtf.py', 'find': "            if self._data is None:  # Duplicate the other array\n                self._data = source._data[:]\n            else:  # Copy the other array onto us\n                self._data[:] = source._data\n            self._fileinfo = None", 'replace': "            if self._data is None:  # Duplicate the other array\n                self._data = source._data[:]\n            else:  # Copy the other array onto us\n                self._data[:] = source._data\n                self._fileinfo = None", 'expect': 'C15.F2'},
    {'id': 'user_resource_flags_dropped', 'file': 'vtf.py', 'find': "                    file.write(struct.pack('<3sB', getattr(res_id, 'value', res_id), res.flags & ~0x02))", 'replace': "                    file.write(struct.pack('<3sB', getattr(res_id, 'value', res_id), 0))", 'expect': 'C15.F1'},
    {'id': 'grey_by_multiply_shift', 'file': '_py_vtf_readwrite.py', 'find': "        data[offset] = (\n            pixels[4 * offset] +\n            pixels[4 * offset + 1] +\n            pixels[4 * offset + 2]\n        ) // 3", 'replace': "        data[offset] = ((\n            pixels[4 * offset] +\n            pixels[4 * offset + 1] +\n            pixels[4 * offset + 2]\n        ) * 171) >> 9", 'expect': 'C15.F3'},
    {'id': 'ok_grey_by_multiply_shift_exact', 'file': '_py_vtf_readwrite.py', 'find': "        data[offset] = (\n            pixels[4 * offset] +\n            pixels[4 * offset + 1] +\n            pixels[4 * offset + 2]\n        ) // 3", 'replace': "        data[offset] = ((\n            pixels[4 * offset] +\n            pixels[4 * offset + 1] +\n            pixels[4 * offset + 2]\n        ) * 43691) >> 17", 'expect': None, 'refuse_ok': True},
    {'id': 'read_keeps_raw_particle_sheet', 'file': 'vtf.py', 'find': "                sheet_data = vtf.resources.pop(ResourceID.PARTICLE_SHEET).data", 'replace': "                sheet_data = vtf.resources[ResourceID.PARTICLE_SHEET].data", 'expect': 'C15.F7'},
    {'id': 'ok_read_deletes_raw_particle_sheet', 'file': 'vtf.py', 'find': "                sheet_data = vtf.resources.pop(ResourceID.PARTICLE_SHEET).data", 'replace': "                sheet_data = vtf.resources[ResourceID.PARTICLE_SHEET].data\n                del vtf.resources[ResourceID.PARTICLE_SHEET]", 'expect': None},
    {'id': 'ctor_frames_fromkeys_shared', 'file': 'vtf.py', 'find': "            for frame in range(frames):\n                for cube_or_depth in depth_seq:\n                    self._frames[frame, cube_or_depth, mip_count] = Frame(width, height)\n", 'replace': "            self._frames.update(dict.fromkeys(itertools.product(range(frames), depth_seq, [mip_count]), Frame(width, height)))\n", 'expect': 'C15.F2'},
    {'id': 'resource_block_padded_after_offset', 'file': 'vtf.py', 'find': "                    deferred.set_data(('res', res_id), file.tell())\n", 'replace': "                    deferred.set_data(('res', res_id), file.tell())\n                    file.write(bytes(-file.tell() % 4))\n", 'expect': 'C15.F1'},
    {'id': 'ok_resource_block_padded_before_offset', 'file': 'vtf.py', 'find': "                    deferred.set_data(('res', res_id), file.tell())\n", 'replace': "                    file.write(bytes(-file.tell() % 4))\n                    deferred.set_data(('res', res_id), file.tell())\n", 'expect': None, 'refuse_ok': True},
    {'id': 'scale_down_row_stride_from_height', 'file': '_py_vtf_readwrite.py', 'find': "        vert_off, per_row = 4 * per_column * width, 2 * per_column * width\n", 'replace': "        vert_off, per_row = 4 * src_height, 2 * src_width\n", 'expect': 'C15.F5'},
    {'id': 'ok_scale_down_strides_from_source_width', 'file': '_py_vtf_readwrite.py', 'find': "        vert_off, per_row = 4 * per_column * width, 2 * per_column * width\n", 'replace': "        vert_off, per_row = 4 * src_width, 2 * src_width\n", 'expect': None},
    {'id': 'custom_resource_id_stripped', 'file': 'vtf.py', 'find': "                        pass  # Custom.", 'replace': "                        res_id = res_id.rstrip(b'\\0')", 'expect': 'C15.F1'},
    {'id': 'mipmaps_rebuilt_in_table_order', 'file': 'vtf.py', 'find': "                for mipmap in range(1, self.mipmap_count):\n                    frm = self._frames[frame_num, depth_side, mipmap]\n                    if frm._data is None:", 'replace': "                for (f2, d2, mipmap), frm in self._frames.items():\n                    if f2 != frame_num or d2 != depth_side or mipmap == 0:\n                        continue\n                    if frm._data is None:", 'expect': 'C15.F5'},
    # repaired variants: the known findings must disappear (shows the rule describes the defect, not the code's style)
    {'id': 'repair_mipmap_count', 'file': 'vtf.py', 'find': "        self.mipmap_count = mip_count\n", 'replace': "        self.mipmap_count = mip_count + 1\n", 'expect': None, 'repairs': ['VTF.__init__']},
    {'id': 'repair_side_sequence', 'file': 'vtf.py', 'find': "        depth_seq = self._depth_range()\n\n        if version_minor >= 3:\n            deferred.set_data('high_res'", 'replace': "        depth_seq = self._depth_range(version_minor)\n\n        if version_minor >= 3:\n            deferred.set_data('high_res'",
     'extra': [{'file': 'vtf.py', 'find': "    def _depth_range(self) -> Sequence[Union[int, CubeSide]]:", 'replace': "    def _depth_range(self, minor: Optional[int] = None) -> Sequence[Union[int, CubeSide]]:"},
               {'file': 'vtf.py', 'find': "            if self.version[1] >= 5:  # Spheremaps", 'replace': "            if (self.version[1] if minor is None else minor) >= 5:  # Spheremaps"}],
     'expect': None, 'repairs': ['VTF.save']},
    {'id': 'repair_565', 'file': '_py_vtf_readwrite.py', 'find': "        data[2*offset], data[2 * offset + 1] = compress565(\n            pixels[4 * offset],\n            pixels[4 * offset + 1],\n            pixels[4 * offset + 2],\n        )",
     'replace': "        data[2*offset], data[2 * offset + 1] = compress565(\n            pixels[4 * offset + 2],\n            pixels[4 * offset + 1],\n            pixels[4 * offset],\n        )",
     'extra': [{'file': '_py_vtf_readwrite.py', 'find': "        data[2*offset], data[2 * offset + 1] = compress565(\n            pixels[4 * offset + 2],\n            pixels[4 * offset + 1],\n            pixels[4 * offset],\n        )\n\n\ndef load_bgra4444",
                'replace': "        data[2*offset], data[2 * offset + 1] = compress565(\n            pixels[4 * offset],\n            pixels[4 * offset + 1],\n            pixels[4 * offset + 2],\n        )\n\n\ndef load_bgra4444"},
               {'file': '_cy_vtf_readwrite.pyx', 'find': "            pixels[4 * offset + R],\n            pixels[4 * offset + G],\n            pixels[4 * offset + B],\n        )", 'replace': "            pixels[4 * offset + 2],\n            pixels[4 * offset + G],\n            pixels[4 * offset + 0],\n        )"},
               {'file': '_cy_vtf_readwrite.pyx', 'find': "            pixels[4 * offset + B],\n            pixels[4 * offset + G],\n            pixels[4 * offset + R],\n        )", 'replace': "            pixels[4 * offset + 0],\n            pixels[4 * offset + G],\n            pixels[4 * offset + 2],\n        )"}],
     'expect': None, 'repairs': ['save_rgb565', 'save_bgr565']},
    {'id': 'read_loop_product_ok', 'file': 'vtf.py', 'find': "            for frame_ind in range(frame_count):\n                for depth_or_cube in depth_seq:\n                    frame = vtf._frames[\n                        frame_ind,\n                        depth_or_cube,\n                        data_mipmap,\n                    ] = Frame(mip_width, mip_height)\n                    if not header_only:\n                        # noinspection PyProtectedMember\n                        frame._fileinfo = (file, high_res_offset, fmt)\n                        high_res_offset += fmt.frame_size(mip_width, mip_height)",
     'replace': "            for frame_ind, depth_or_cube in itertools.product(range(frame_count), depth_seq):\n                if True:\n                    frame = vtf._frames[\n                        frame_ind,\n                        depth_or_cube,\n                        data_mipmap,\n                    ] = Frame(mip_width, mip_height)\n                    if not header_only:\n                        # noinspection PyProtectedMember\n                        frame._fileinfo = (file, high_res_offset, fmt)\n                        high_res_offset += fmt.frame_size(mip_width, mip_height)",
     'expect': None, 'note': 'negative control: itertools.product in the same order is the same loop nest'},
    {'id': 'rescale_drops_fileinfo', 'file': 'vtf.py', 'find': "        if self._data is None:\n            self._data = _BLANK_PIXEL * (self.width * self.height)\n        if larger._data is not None:", 'replace': "        if self._data is None:\n            self._data = _BLANK_PIXEL * (self.width * self.height)\n        self._fileinfo = None\n        if larger._data is not None:", 'expect': 'C15.F2'},
    {'id': 'bounds_old', 'file': 'vtf.py', 'find': "        if not (0 <= x < self.width and 0 <= y < self.height):", 'replace': "        if x > self.width or y > self.height:", 'expect': 'C15.F4'},
    {'id': 'bounds_inclusive', 'file': 'vtf.py', 'nth': 1, 'find': "        if not (0 <= x < self.width and 0 <= y < self.height):", 'replace': "        if not (0 <= x <= self.width and 0 <= y < self.height):", 'expect': 'C15.F4'},
    {'id': 'bounds_or_form', 'file': 'vtf.py', 'find': "        if not (0 <= x < self.width and 0 <= y < self.height):", 'replace': "        if x < 0 or y < 0 or x >= self.width or y >= self.height:", 'expect': None, 'note': 'negative control: equivalent guard'},
    {'id': 'header_wh_swapped', 'file': 'vtf.py', 'find': "            0,\n            self.width,\n            self.height,", 'replace': "            0,\n            self.height,\n            self.width,", 'expect': 'C15.F1'},
    {'id': 'depth_field_width', 'file': 'vtf.py', 'find': "            file.write(struct.pack('<H', self.depth))", 'replace': "            file.write(struct.pack('<I', self.depth))", 'expect': 'C15.F1'},
    {'id': 'res_count_off', 'file': 'vtf.py', 'find': "            res_count = len(self.resources) + 2", 'replace': "            res_count = len(self.resources) + 3", 'expect': 'C15.F1'},
    {'id': 'save_loop_order', 'file': 'vtf.py', 'find': "        for data_mipmap in reversed(range(self.mipmap_count)):\n            for frame_ind in range(self.frame_count):\n                for depth_or_cube in depth_seq:\n                    frame = self._frames[",
     'replace': "        for data_mipmap in reversed(range(self.mipmap_count)):\n            for depth_or_cube in depth_seq:\n                for frame_ind in range(self.frame_count):\n                    frame = self._frames[", 'expect': 'C15.F2'},
    {'id': 'py_bgra_mode', 'file': '_py_vtf_readwrite.py', 'find': "load_bgra8888, save_bgra8888 = saveload_rgba('bgra')", 'replace': "load_bgra8888, save_bgra8888 = saveload_rgba('brga')", 'expect': 'C15.F3'},
    {'id': 'load4444_nibbles', 'file': '_py_vtf_readwrite.py', 'find': "        pixels[4 * offset+1] = (a & 0b11110000) | (a & 0b11110000) >> 4\n        pixels[4 * offset+2] = (a & 0b00001111) | (a & 0b00001111) << 4", 'replace': "        pixels[4 * offset+2] = (a & 0b11110000) | (a & 0b11110000) >> 4\n        pixels[4 * offset+1] = (a & 0b00001111) | (a & 0b00001111) << 4", 'expect': 'C15.F3'},
    {'id': 'save5551_alpha_dropped', 'file': '_py_vtf_readwrite.py', 'find': "        data[2 * offset + 1] = (a & 0b10000000) | ((r >> 1) & 0b01111100) | (g >> 6)", 'replace': "        data[2 * offset + 1] = ((r >> 1) & 0b01111100) | (g >> 6)", 'expect': 'C15.F3'},
    {'id': 'save4444_low_nibble', 'file': '_py_vtf_readwrite.py', 'find': "        data[2 * offset] = (g & 0b11110000) | (b >> 4)", 'replace': "        data[2 * offset] = (g & 0b11110000) | (b & 0b00001111)", 'expect': 'C15.F3'},
    {'id': 'bilinear_div3', 'file': '_py_vtf_readwrite.py', 'find': "                        src[off2 + channel + vert_off + horiz_off]\n                    ) // 4", 'replace': "                        src[off2 + channel + vert_off + horiz_off]\n                    ) // 3", 'expect': 'C15.F5'},
    {'id': 'rescale_any_size', 'file': 'vtf.py', 'find': "            self.width == larger.width or 2 * self.width == larger.width", 'replace': "            self.width <= larger.width", 'expect': 'C15.F5'},
    {'id': 'sheet_v1_stride', 'file': 'vtf.py', 'find': "                    offset += 64", 'replace': "                    offset += 48", 'expect': 'C15.F6'},
    {'id': 'sheet_header_pad', 'file': 'vtf.py', 'find': "            file.write(struct.pack(\n                '<Ixxx?If',", 'replace': "            file.write(struct.pack(\n                '<Ixx?xIf',", 'expect': 'C15.F6'},
    {'id': 'texcoord_order', 'file': 'vtf.py', 'find': "        return struct.pack('<4f', self.left, self.top, self.right, self.bottom)", 'replace': "        return struct.pack('<4f', self.left, self.right, self.top, self.bottom)", 'expect': 'C15.F6'},
]
